#!/usr/bin/env python3
"""Rust -> Lean translator, dialect "sp" (builder gensparse): `alignment/sparse.rs` (property C19).

A small self-contained translator (own parser, own code generator) over the tokenizer / header pinning of
tools/rs2lean_cfbase.py and the semantics `lean/RbV/Basic/RsSem.lean`, `RsSemInt.lean`, `RsSemBits.lean`,
`RsSemGensparse.lean`.  docs/notes/GEN.md, section "Dialect sp", is the reference.  What it reads:

  types        u8/u32/u64/usize (Nat, checked), i32/isize (Int, checked), bool, tuples (Lean products, `t.0` = projection),
               `Vec<T>` / `&[T]` (List), `Option`, `Result` (match only), structs of the spec (tuples in pinned field order;
               `#[derive(Ord)]` = lexicographic order of the tuple, `Rs.ROrd`), `MaxBitTree<T>` (= its `tree` vector; `new`,
               `get`, `set` are the *translated* functions of `Gen/SrcFenwick*.lean` with `Rs.omax` and the zero value of `T`),
               `HashMapFx<K, Vec<V>>` (`Rs.HMap`), one generic parameter `T` with `T::default()`
  statements   `let [mut] pat [: T] [= e];` (tuple patterns), assignments (`x = e`, `x op= e`, `v[i] = e`), `for pat in src {}`
               (`a..b`, `v`, `&v`, `v.iter()`, `.enumerate()`) = `List.foldlM` of a named body function `<fn>_for<k>`,
               `while c {}` = recursive helper `<fn>_while<k>` on fuel (spec), `if` / `if let` / `match` on `Option`/`Result`,
               `assert!`, an early `if c { …; return e; }` at function level, `v.push(e)`, `v.reverse()`, `v.resize(n, x)`,
               `v.sort_unstable()` (= the abstract function the spec names for the element type, contract `Rs.SortOk`),
               `m.entry(k).or_default().push(x)`, `t.set(i, v)`
  expressions  checked `+ - * / %`, comparisons (tuples: derived order), `&& || !` (short circuit kept when the right operand
               can panic), `max` / `min`, `as` between the integer types, `v[i]`, `&v[a..b]`, `.len()`, `.is_empty()`,
               `.saturating_sub()`, `.binary_search(&k)` (abstract, contract `Rs.BSearchOk`), `.unwrap_or(x)`, `.unwrap()`,
               `.last()`, `.get(k)`, struct literals, field access, calls of translated functions of the unit,
               `Vec::new()`, `Vec::with_capacity(n)`, `vec![x; n]`, `X::default()`, `if` / `match` as expressions

State of a loop / an `if` = the outer variables assigned in it, in **declaration order** (independent of the order of the
assignments); captures = the other outer variables it mentions, in declaration order.  Everything else raises
`Unsupported` -> `gen_tables: ... cannot translate ...` -> the unit is `translation_unavailable` (soft).
"""
import sys, os, re

sys.path.insert(0, os.path.dirname(os.path.abspath(__file__)))
import rs2lean_cfbase as cb

Unsupported, tokenize, Tok, header_regex, dedent = cb.Unsupported, cb.tokenize, cb.Tok, cb.header_regex, cb.dedent

LEAN_KEYWORDS = set(cb.LEAN_KEYWORDS) | {"matches", "id", "max", "min", "st", "it"}


def tokens_regex(text):
    toks = [t.text for t in tokenize(text, 0)[:-1]]
    parts = []
    for i, t in enumerate(toks):
        parts.append(re.escape(t))
        if i + 1 < len(toks):
            a, b = t[-1], toks[i + 1][0]
            both_word = (a.isalnum() or a == "_") and (b.isalnum() or b == "_")
            parts.append(r"\s+" if both_word else r"\s*")
    return r"(?<![\w])" + "".join(parts)


# ================================================================================================== types

INT_W = {"u8": 8, "u16": 16, "u32": 32, "u64": 64, "usize": 64, "i8": 8, "i16": 16, "i32": 32, "i64": 64, "isize": 64}


class Ty:
    def __ne__(self, o):
        return not self.__eq__(o)

    def __hash__(self):
        return hash(repr(self))


class TInt(Ty):
    def __init__(self, name):
        self.name, self.w, self.signed = name, INT_W[name], name[0] == "i"

    def lean(self):
        return "Int" if self.signed else "Nat"

    def __eq__(self, o):
        return isinstance(o, TInt) and o.name == self.name

    def __repr__(self):
        return self.name


class TBool(Ty):
    def lean(self):
        return "Bool"

    def __eq__(self, o):
        return isinstance(o, TBool)

    def __repr__(self):
        return "bool"


class TUnit(Ty):
    def lean(self):
        return "Unit"

    def __eq__(self, o):
        return isinstance(o, TUnit)

    def __repr__(self):
        return "()"


def paren(s):
    return "(%s)" % s if " " in s and not (s[0] == "(" and matching(s)) else s


def matching(s):
    d = 0
    for i, c in enumerate(s):
        if c in "([":
            d += 1
        elif c in ")]":
            d -= 1
            if d == 0 and i < len(s) - 1:
                return False
    return True


atom = paren


class TVec(Ty):
    def __init__(self, elem):
        self.elem = elem

    def lean(self):
        return "List " + paren(self.elem.lean())

    def __eq__(self, o):
        return isinstance(o, TVec) and (o.elem is None or self.elem is None or o.elem == self.elem)

    def __repr__(self):
        return "Vec<%r>" % (self.elem,)


class TTup(Ty):
    def __init__(self, items):
        self.items = items

    def lean(self):
        return " × ".join(paren(t.lean()) for t in self.items) if self.items else "Unit"

    def __eq__(self, o):
        return isinstance(o, TTup) and not isinstance(o, TStruct) and not isinstance(self, TStruct) and o.items == self.items

    def __repr__(self):
        return "(%s)" % ", ".join(repr(t) for t in self.items)


class TStruct(TTup):
    def __init__(self, name, fields):
        TTup.__init__(self, [t for _, t in fields])
        self.name, self.fields = name, fields

    def __eq__(self, o):
        return isinstance(o, TStruct) and o.name == self.name

    def __repr__(self):
        return self.name


class TOpt(Ty):
    def __init__(self, elem):
        self.elem = elem

    def lean(self):
        return "Option " + paren(self.elem.lean())

    def __eq__(self, o):
        return isinstance(o, TOpt) and (o.elem is None or self.elem is None or o.elem == self.elem)

    def __repr__(self):
        return "Option<%r>" % (self.elem,)


class TRes(Ty):
    def __init__(self, ok, err):
        self.ok, self.err = ok, err

    def lean(self):
        return "Except %s %s" % (paren(self.err.lean()), paren(self.ok.lean()))

    def __eq__(self, o):
        return isinstance(o, TRes) and o.ok == self.ok and o.err == self.err

    def __repr__(self):
        return "Result<%r, %r>" % (self.ok, self.err)


class TMap(Ty):
    def __init__(self, k, v):
        self.k, self.v = k, v

    def lean(self):
        return "Rs.HMap %s %s" % (paren(self.k.lean()), paren(self.v.lean()))

    def __eq__(self, o):
        return isinstance(o, TMap) and o.k == self.k and o.v == self.v

    def __repr__(self):
        return "HashMap<%r, %r>" % (self.k, self.v)


class TFen(Ty):
    """`MaxBitTree<T>`: the `tree` vector of the Fenwick tree"""

    def __init__(self, elem):
        self.elem = elem

    def lean(self):
        return "List " + paren(self.elem.lean())

    def __eq__(self, o):
        return isinstance(o, TFen) and (o.elem is None or self.elem is None or o.elem == self.elem)

    def __repr__(self):
        return "MaxBitTree<%r>" % (self.elem,)


class TEntry(Ty):
    """the variable bound by `Entry::Vacant(v)` / `Entry::Occupied(o)`: the slot of `key` in the map variable `mapvar`"""

    def __init__(self, kind, mapvar, key, val):
        self.kind, self.mapvar, self.key, self.val = kind, mapvar, key, val

    def lean(self):
        return self.val.lean()

    def __eq__(self, o):
        return self is o

    def __repr__(self):
        return "Entry::%s" % self.kind


class TGen(Ty):
    def __init__(self, name, lean_name):
        self.name, self.lean_name = name, lean_name

    def lean(self):
        return self.lean_name

    def __eq__(self, o):
        return isinstance(o, TGen) and o.name == self.name

    def __repr__(self):
        return self.name


def proj(text, i, n):
    """i-th component of an n-tuple (right-nested pairs)"""
    if n == 1:
        return text
    s = atom(text) + ".2" * i
    if i < n - 1:
        s += ".1"
    return s


def tup(parts):
    return parts[0] if len(parts) == 1 else "(" + ", ".join(parts) + ")"


# ================================================================================================== AST + parser

class N:
    def __init__(self, kind, pos, **kw):
        self.kind, self.pos = kind, pos
        self.__dict__.update(kw)

    def __repr__(self):
        return "N(%s %s)" % (self.kind, {k: v for k, v in self.__dict__.items() if k not in ("kind", "pos")})


BINPREC = [("||",), ("&&",), ("==", "!=", "<", ">", "<=", ">="), ("|",), ("^",), ("&",), ("<<", ">>"), ("+", "-"),
           ("*", "/", "%")]
ASSIGN_OPS = {"=": None, "+=": "+", "-=": "-", "*=": "*", "/=": "/", "%=": "%"}
BLOCK_LIKE = ("if", "match", "block", "for", "while")


class P:
    def __init__(self, toks):
        self.t, self.i = list(toks), 0

    def peek(self, k=0):
        return self.t[min(self.i + k, len(self.t) - 1)]

    def at(self, text, k=0):
        x = self.peek(k)
        return x.kind in ("op", "id") and x.text == text

    def next(self):
        x = self.t[self.i]
        self.i += 1
        return x

    def expect(self, text):
        x = self.next()
        if not (x.kind in ("op", "id") and x.text == text):
            raise Unsupported("expected `%s`, found `%s`" % (text, x.text), x.pos)
        return x

    def ident(self):
        x = self.next()
        if x.kind != "id":
            raise Unsupported("expected an identifier, found `%s`" % x.text, x.pos)
        return x

    def close_angle(self):
        x = self.peek()
        if x.kind == "op" and x.text == ">>":
            self.t[self.i] = Tok("op", ">", x.pos + 1)
            return
        self.expect(">")

    # ---------------------------------------------------------------- types
    def type_(self):
        x = self.peek()
        if self.at("&"):
            self.next()
            if self.peek().kind == "life":
                self.next()
            if self.at("mut"):
                self.next()
            return self.type_()
        if self.at("("):
            self.next()
            items = []
            while not self.at(")"):
                items.append(self.type_())
                if self.at(","):
                    self.next()
            self.expect(")")
            return N("ty", x.pos, name="()", args=items)
        if self.at("["):
            self.next()
            e = self.type_()
            if self.at(";"):
                raise Unsupported("array type", x.pos)
            self.expect("]")
            return N("ty", x.pos, name="[]", args=[e])
        segs = [self.ident().text]
        while self.at("::"):
            self.next()
            segs.append(self.ident().text)
        args = []
        if self.at("<"):
            self.next()
            while not self.at(">") and not self.at(">>"):
                args.append(self.type_())
                if self.at(","):
                    self.next()
            self.close_angle()
        return N("ty", x.pos, name=segs[-1], args=args)

    # ---------------------------------------------------------------- patterns
    def pattern(self):
        x = self.peek()
        if self.at("&"):
            self.next()
            if self.at("mut"):
                self.next()
            return self.pattern()
        if self.at("("):
            self.next()
            items = []
            while not self.at(")"):
                items.append(self.pattern())
                if self.at(","):
                    self.next()
            self.expect(")")
            return items[0] if len(items) == 1 else N("ptuple", x.pos, items=items)
        if self.at("mut") or self.at("ref"):
            self.next()
            return self.pattern()
        if self.at("_"):
            self.next()
            return N("pwild", x.pos)
        name = self.ident()
        while self.at("::"):
            self.next()
            name = self.ident()                      # `Entry::Vacant(v)`: the last segment names the constructor
        if self.at("("):
            self.next()
            items = []
            while not self.at(")"):
                items.append(self.pattern())
                if self.at(","):
                    self.next()
            self.expect(")")
            return N("pctor", x.pos, name=name.text, items=items)
        if self.at("{"):
            raise Unsupported("struct pattern", x.pos)
        if name.text in ("None",):
            return N("pctor", x.pos, name="None", items=[])
        return N("pvar", x.pos, name=name.text)

    # ---------------------------------------------------------------- statements
    def block(self):
        p = self.expect("{").pos
        stmts = self.body("}")
        self.expect("}")
        return N("block", p, stmts=stmts)

    def body(self, end=None):
        """list of statements; a trailing expression without `;` is N('expr', semi=False)"""
        out = []
        while True:
            if end is None and self.peek().kind == "eof":
                break
            if end is not None and self.at(end):
                break
            if self.at(";"):
                self.next()
                continue
            out.append(self.stmt())
        return out

    def stmt(self):
        x = self.peek()
        if self.at("let"):
            self.next()
            pat = self.pattern()
            ty = None
            if self.at(":"):
                self.next()
                ty = self.type_()
            init = None
            if self.at("="):
                self.next()
                init = self.expr()
            self.expect(";")
            return N("let", x.pos, pat=pat, ty=ty, init=init)
        if self.at("for"):
            self.next()
            pat = self.pattern()
            self.expect("in")
            it = self.expr(no_struct=True)
            return N("for", x.pos, pat=pat, iter=it, body=self.block())
        if self.at("while"):
            self.next()
            if self.at("let"):
                raise Unsupported("`while let`", x.pos)
            c = self.expr(no_struct=True)
            return N("while", x.pos, cond=c, body=self.block())
        if self.at("return"):
            self.next()
            e = None if self.at(";") else self.expr()
            if self.at(";"):
                self.next()
            return N("return", x.pos, e=e)
        for kw in ("loop", "break", "continue", "unsafe", "fn", "use", "struct", "impl", "const", "static"):
            if self.at(kw):
                raise Unsupported("`%s`" % kw, x.pos)
        e = self.expr()
        if self.peek().kind == "op" and self.peek().text in ASSIGN_OPS or self.peek().text in ("&=", "|=", "^=", "<<=", ">>="):
            op = self.next().text
            if op not in ASSIGN_OPS:
                raise Unsupported("compound assignment `%s`" % op, x.pos)
            r = self.expr()
            self.expect(";")
            return N("assign", x.pos, lhs=e, op=ASSIGN_OPS[op], rhs=r)
        if self.at(";"):
            self.next()
            return N("expr", x.pos, e=e, semi=True)
        if e.kind in BLOCK_LIKE and not self.at("}") and self.peek().kind != "eof":
            return N("expr", x.pos, e=e, semi=True)
        return N("expr", x.pos, e=e, semi=False)

    # ---------------------------------------------------------------- expressions
    def expr(self, no_struct=False):
        x = self.peek()
        if self.at("..") or self.at("..="):
            raise Unsupported("range without a lower bound", x.pos)
        l = self.binary(0, no_struct)
        if self.at("..") or self.at("..="):
            incl = self.next().text == "..="
            hi = None
            if not (self.at("]") or self.at(")") or self.at("{")):
                hi = self.binary(0, no_struct)
            return N("range", x.pos, lo=l, hi=hi, incl=incl)
        return l

    def binary(self, level, no_struct):
        if level == len(BINPREC):
            return self.cast(no_struct)
        l = self.binary(level + 1, no_struct)
        while self.peek().kind == "op" and self.peek().text in BINPREC[level]:
            op = self.next()
            r = self.binary(level + 1, no_struct)
            l = N("bin", op.pos, op=op.text, l=l, r=r)
        return l

    def cast(self, no_struct):
        e = self.unary(no_struct)
        while self.at("as"):
            p = self.next().pos
            e = N("cast", p, e=e, ty=self.type_())
        return e

    def unary(self, no_struct):
        x = self.peek()
        if x.kind == "op" and x.text in ("-", "!"):
            self.next()
            return N("un", x.pos, op=x.text, e=self.unary(no_struct))
        if x.kind == "op" and x.text in ("*", "&"):
            self.next()
            if self.at("mut"):
                self.next()
            return self.unary(no_struct)                      # references are transparent
        if x.kind == "op" and x.text == "&&":
            self.next()
            return self.unary(no_struct)
        return self.postfix(no_struct)

    def args(self):
        self.expect("(")
        out = []
        while not self.at(")"):
            if self.at("|") or self.at("||") or self.at("move"):
                raise Unsupported("closure", self.peek().pos)
            out.append(self.expr())
            if self.at(","):
                self.next()
            elif not self.at(")"):
                raise Unsupported("argument list", self.peek().pos)
        self.expect(")")
        return out

    def postfix(self, no_struct):
        e = self.primary(no_struct)
        while True:
            x = self.peek()
            if self.at("."):
                self.next()
                f = self.next()
                if f.kind == "num":
                    e = N("field", x.pos, recv=e, name=f.text)
                elif f.kind == "id":
                    if self.at("::"):
                        raise Unsupported("turbofish", f.pos)
                    if self.at("("):
                        e = N("mcall", x.pos, recv=e, name=f.text, args=self.args())
                    else:
                        e = N("field", x.pos, recv=e, name=f.text)
                else:
                    raise Unsupported("`.%s`" % f.text, f.pos)
            elif self.at("["):
                self.next()
                i = self.expr()
                self.expect("]")
                e = N("index", x.pos, recv=e, idx=i)
            elif self.at("?"):
                raise Unsupported("`?` operator", x.pos)
            else:
                return e

    def primary(self, no_struct):
        x = self.next()
        if x.kind == "num":
            m = re.fullmatch(r"(0x[0-9a-fA-F_]+|0b[01_]+|0o[0-7_]+|[0-9][0-9_]*)([ui](?:8|16|32|64|size))?", x.text)
            return N("lit", x.pos, v=int(m.group(1).replace("_", ""), 0), suf=m.group(2))
        if x.kind == "byte":
            inner = x.text[2:-1]
            esc = {"\\n": 10, "\\r": 13, "\\t": 9, "\\\\": 92, "\\0": 0, "\\'": 39}
            v = esc.get(inner, ord(inner) if len(inner) == 1 else None)
            if v is None:
                raise Unsupported("byte literal %s" % x.text, x.pos)
            return N("lit", x.pos, v=v, suf="u8")
        if x.kind == "str":
            return N("str", x.pos, text=x.text)
        if x.kind == "op" and x.text == "(":
            items, trailing = [], False
            while not self.at(")"):
                items.append(self.expr())
                trailing = False
                if self.at(","):
                    self.next()
                    trailing = True
            self.expect(")")
            if len(items) == 1 and not trailing:
                return items[0]
            return N("tuple", x.pos, items=items)
        if x.kind == "op" and x.text == "{":
            self.i -= 1
            return self.block()
        if x.kind == "op" and x.text in ("|", "||"):
            raise Unsupported("closure", x.pos)
        if x.kind != "id":
            raise Unsupported("unexpected `%s`" % x.text, x.pos)
        if x.text == "if":
            return self.if_(x)
        if x.text == "match":
            scrut = self.expr(no_struct=True)
            self.expect("{")
            arms = []
            while not self.at("}"):
                pat = self.pattern()
                if self.at("if") or self.at("|"):
                    raise Unsupported("match guard / alternative", self.peek().pos)
                self.expect("=>")
                body = self.expr()
                if self.at(","):
                    self.next()
                arms.append((pat, body))
            self.expect("}")
            return N("match", x.pos, scrut=scrut, arms=arms)
        if x.text in ("true", "false"):
            return N("bool", x.pos, v=x.text == "true")
        if x.text in ("move", "unsafe", "loop", "while", "for"):
            raise Unsupported("`%s` in expression position" % x.text, x.pos)
        segs = [x.text]
        while self.at("::"):
            self.next()
            if self.at("<"):
                raise Unsupported("turbofish", self.peek().pos)
            segs.append(self.ident().text)
        if self.at("!"):
            self.next()
            return self.macro(x, segs[-1])
        if self.at("("):
            return N("call", x.pos, path=segs, args=self.args())
        if self.at("{") and not no_struct and segs[-1][:1].isupper():
            self.next()
            fields = []
            while not self.at("}"):
                if self.at(".."):
                    raise Unsupported("struct update syntax", self.peek().pos)
                f = self.ident()
                if self.at(":"):
                    self.next()
                    fields.append((f.text, self.expr()))
                else:
                    fields.append((f.text, N("var", f.pos, name=f.text)))
                if self.at(","):
                    self.next()
            self.expect("}")
            return N("struct", x.pos, name=segs[-1], fields=fields)
        if len(segs) == 1:
            return N("var", x.pos, name=segs[0])
        return N("path", x.pos, path=segs)

    def if_(self, x):
        if self.at("let"):
            self.next()
            pat = self.pattern()
            self.expect("=")
            scrut = self.expr(no_struct=True)
            cond = N("iflet", x.pos, pat=pat, scrut=scrut)
        else:
            cond = self.expr(no_struct=True)
        then = self.block()
        els = None
        if self.at("else"):
            self.next()
            if self.at("if"):
                y = self.next()
                inner = self.if_(y)
                els = N("block", y.pos, stmts=[N("expr", y.pos, e=inner, semi=False)])
            else:
                els = self.block()
        return N("if", x.pos, cond=cond, then=then, els=els)

    def macro(self, x, name):
        open_ = self.next()
        close = {"(": ")", "[": "]", "{": "}"}.get(open_.text)
        if close is None:
            raise Unsupported("macro `%s!`" % name, x.pos)
        if name in ("assert", "assert_eq", "debug_assert"):
            args = []
            while not self.at(close):
                args.append(self.expr())
                if self.at(","):
                    self.next()
            self.expect(close)
            return N("macro", x.pos, name=name, args=args)
        if name == "vec":
            if self.at(close):
                self.next()
                return N("macro", x.pos, name="vec", args=[], rep=None)
            first = self.expr()
            if self.at(";"):
                self.next()
                n = self.expr()
                self.expect(close)
                return N("macro", x.pos, name="vec", args=[first], rep=n)
            args = [first]
            while self.at(","):
                self.next()
                if self.at(close):
                    break
                args.append(self.expr())
            self.expect(close)
            return N("macro", x.pos, name="vec", args=args, rep=None)
        raise Unsupported("macro `%s!`" % name, x.pos)


def walk(n, f):
    """pre-order walk over AST nodes (lists / tuples included)"""
    if isinstance(n, N):
        if f(n) is False:
            return
        for v in n.__dict__.values():
            walk(v, f)
    elif isinstance(n, (list, tuple)):
        for v in n:
            walk(v, f)


# ================================================================================================== translation

class Var:
    def __init__(self, rust, lean, ty, seq):
        self.rust, self.lean, self.ty, self.seq = rust, lean, ty, seq


class Blk:
    def __init__(self):
        self.lines = []

    def add(self, s):
        self.lines.append(s)

    def let(self, pat, rhs):
        self.lines.append("let %s := %s" % (pat, rhs))

    def bind(self, pat, rhs):
        self.lines.append("let %s ← %s" % (pat, rhs))

    def extend(self, other, ind):
        for l in other.lines:
            self.lines.append(" " * ind + l)


MUTATING = {"push", "reverse", "resize", "sort_unstable", "set", "clear", "insert", "truncate", "extend", "append", "sort",
            "sort_unstable_by_key", "sort_by_key", "sort_by", "pop", "extend_from_slice", "entry", "get_mut", "iter_mut",
            "swap", "dedup", "retain", "drain", "remove"}
TRANSPARENT = {"clone", "copied", "cloned", "borrow", "iter", "to_owned", "to_vec", "as_slice", "into_iter", "by_ref"}


def root_name(e):
    while e.kind in ("index", "field", "mcall"):
        e = e.recv
    return e.name if e.kind == "var" else None


class Fn:
    def __init__(self, unit, fspec, sigs):
        self.unit, self.f, self.sigs = unit, fspec, sigs
        self.lean = fspec["lean"]
        self.generics = dict(fspec.get("generics", {}))
        self.abs = list(fspec.get("abstract", unit.get("abstract", [])))
        self.scopes = [{}]
        self.n_seq = self.n_tmp = self.n_for = self.n_while = 0
        self.helpers = []
        self.ret = None
        self.entry_stack = []

    # ---------------------------------------------------------------- helpers
    def err(self, msg, node=None):
        raise Unsupported(msg, node.pos if node is not None else None)

    def tmp(self):
        self.n_tmp += 1
        return "t%d" % self.n_tmp

    def abs_decl(self):
        g = "".join(" {%s : Type}" % v for v in sorted(set(self.generics.values())))
        return g + "".join(" (%s : %s)" % (n, t) for n, t in self.abs)

    def abs_use(self):
        return "".join(" " + n for n, _ in self.abs)

    def ty_of_text(self, s):
        return self.ty(P(tokenize(s, 0)).type_())

    def struct_ty(self, name):
        fields = self.unit.get("structs", {}).get(name)
        if fields is None:
            return None
        return TStruct(name, [(f, self.ty_of_text(t)) for f, t in fields])

    def ty(self, n):
        nm, args = n.name, n.args
        if nm == "()":
            return TTup([self.ty(a) for a in args]) if args else TUnit()
        if nm in ("[]", "Vec") and len(args) == 1:
            return TVec(self.ty(args[0]))
        if nm in INT_W and not args:
            return TInt(nm)
        if nm == "bool":
            return TBool()
        if nm == "Option" and len(args) == 1:
            return TOpt(self.ty(args[0]))
        if nm == "Result" and len(args) == 2:
            return TRes(self.ty(args[0]), self.ty(args[1]))
        if nm in ("HashMapFx", "HashMap") and len(args) == 2:
            return TMap(self.ty(args[0]), self.ty(args[1]))
        if nm == "MaxBitTree" and len(args) == 1:
            return TFen(self.ty(args[0]))
        if nm in self.generics and not args:
            return TGen(nm, self.generics[nm])
        st = self.struct_ty(nm)
        if st is not None:
            return st
        self.err("type `%s` is outside the subset / not declared in the translation spec" % nm, n)

    def zero(self, t, node=None):
        if isinstance(t, TInt):
            return "(0 : Int)" if t.signed else "0"
        if isinstance(t, TBool):
            return "false"
        if isinstance(t, (TVec, TFen)):
            return "([] : %s)" % t.lean()
        if isinstance(t, TOpt):
            return "(none : %s)" % t.lean()
        if isinstance(t, TTup):
            return "(" + ", ".join(self.zero(x, node) for x in t.items) + ")"
        if isinstance(t, TGen):
            return "dflt"
        self.err("no zero value for %r" % (t,), node)

    def lean_name(self, rust):
        if rust.startswith("self."):
            return "self_" + rust[5:].replace(".", "_")
        return rust + "_r" if (rust in LEAN_KEYWORDS or re.fullmatch(r"t\d+", rust)) else rust

    def lookup(self, name, node=None):
        for sc in reversed(self.scopes):
            if name in sc:
                return sc[name]
        self.err("unknown variable `%s`" % name, node)

    def visible(self, name):
        return any(name in sc for sc in self.scopes)

    def declare(self, name, ty, node=None, loop_pat=False):
        if name == "_":
            return Var("_", "_", ty, -1)
        if len(self.scopes) > 1 and any(name in sc for sc in self.scopes[:-1]):
            self.err("`%s` shadows a variable of an enclosing block (outside the subset)" % name, node)
        self.n_seq += 1
        prev = self.scopes[-1].get(name)
        v = Var(name, self.lean_name(name), ty, prev.seq if prev is not None else self.n_seq)
        self.scopes[-1][name] = v
        return v

    def assigned_outer(self, node):
        names = []

        def f(n):
            r = None
            if n.kind == "assign":
                r = root_name(n.lhs)
            elif n.kind == "mcall" and n.name in MUTATING:
                r = root_name(n.recv)
            if r is not None and r not in names:
                names.append(r)
        walk(node, f)
        vs = [self.lookup(r) for r in names if self.visible(r)]
        return sorted(vs, key=lambda v: v.seq)

    def mentioned(self, node, exclude):
        names = []

        def f(n):
            if n.kind == "var" and n.name not in names:
                names.append(n.name)
        walk(node, f)
        ex = set(v.rust for v in exclude)
        vs = [self.lookup(r) for r in names if self.visible(r) and r not in ex]
        return sorted(vs, key=lambda v: v.seq)

    # ---------------------------------------------------------------- patterns
    def bind_pat(self, p, ty, node):
        """declare the variables of an irrefutable pattern; returns the Lean pattern text"""
        if p.kind == "pwild":
            return "_"
        if p.kind == "pvar":
            return self.declare(p.name, ty, p).lean
        if p.kind == "ptuple":
            if not isinstance(ty, TTup) or len(ty.items) != len(p.items):
                self.err("tuple pattern against the type %r" % (ty,), p)
            return "(" + ", ".join(self.bind_pat(q, t, node) for q, t in zip(p.items, ty.items)) + ")"
        self.err("pattern outside the subset", p)

    # ---------------------------------------------------------------- expressions
    def is_lit(self, e):
        return (e.kind == "lit" and not e.suf) or (e.kind == "un" and e.op == "-" and self.is_lit(e.e)) \
            or (e.kind == "tuple" and all(self.is_lit(x) for x in e.items))

    def pair(self, l, r, blk, expected=None):
        """translate two operands of one type; an untyped literal takes the type of the other operand"""
        if self.is_lit(l) and not self.is_lit(r):
            rs, rt = self.ex(r, blk, expected)
            ls, lt = self.ex(l, blk, rt)
        else:
            ls, lt = self.ex(l, blk, expected)
            rs, rt = self.ex(r, blk, lt)
        if lt != rt:
            self.err("operands of type %r and %r" % (lt, rt), l)
        return ls, rs, lt

    def ex(self, e, blk, exp=None):
        k = e.kind
        if k == "lit":
            t = TInt(e.suf) if e.suf else exp
            if not isinstance(t, TInt):
                self.err("the type of the literal %d cannot be read off the text (declare the variable in the spec)" % e.v, e)
            if not (e.v < 2 ** (t.w - 1 if t.signed else t.w)):
                self.err("literal %d does not fit %r" % (e.v, t), e)
            return ("(%d : Int)" % e.v if t.signed else str(e.v)), t
        if k == "bool":
            return ("true" if e.v else "false"), TBool()
        if k == "var":
            v = self.lookup(e.name, e)
            return v.lean, v.ty
        if k == "tuple":
            its = exp.items if isinstance(exp, TTup) and not isinstance(exp, TStruct) and len(exp.items) == len(e.items) \
                else [None] * len(e.items)
            parts = [self.ex(x, blk, t) for x, t in zip(e.items, its)]
            return "(" + ", ".join(p for p, _ in parts) + ")", TTup([t for _, t in parts])
        if k == "un":
            return self.unary(e, blk, exp)
        if k == "bin":
            return self.binary(e, blk, exp)
        if k == "cast":
            return self.cast(e, blk)
        if k == "field" and e.recv.kind == "var" and e.recv.name == "self" and self.visible("self." + e.name):
            v = self.lookup("self." + e.name, e)
            return v.lean, v.ty
        if k == "field":
            s, t = self.ex(e.recv, blk)
            if isinstance(t, TStruct):
                names = [f for f, _ in t.fields]
                if e.name not in names:
                    self.err("`%s` has no field `%s` in the translation spec" % (t.name, e.name), e)
                i = names.index(e.name)
                return proj(s, i, len(names)), t.items[i]
            if isinstance(t, TTup) and e.name.isdigit() and int(e.name) < len(t.items):
                return proj(s, int(e.name), len(t.items)), t.items[int(e.name)]
            self.err("field `.%s` of a value of type %r" % (e.name, t), e)
        if k == "index":
            if e.idx.kind == "range":
                s, t = self.ex(e.recv, blk)
                if not isinstance(t, TVec) or e.idx.hi is None or e.idx.incl:
                    self.err("slice expression outside the subset", e)
                lo, hi, it = self.pair(e.idx.lo, e.idx.hi, blk, TInt("usize"))
                if it != TInt("usize"):
                    self.err("slice bounds of type %r" % (it,), e)
                tv = self.tmp()
                blk.bind(tv, "Rs.slice %s %s %s" % (atom(s), atom(lo), atom(hi)))
                return tv, t
            s, t = self.ex(e.recv, blk)
            i, it = self.ex(e.idx, blk, TInt("usize"))
            if not isinstance(t, TVec) or it != TInt("usize"):
                self.err("indexing a value of type %r with %r" % (t, it), e)
            tv = self.tmp()
            blk.bind(tv, "Rs.idx %s %s" % (atom(s), atom(i)))
            return tv, t.elem
        if k == "call":
            return self.call(e, blk, exp)
        if k == "mcall":
            return self.mcall(e, blk, exp)
        if k == "struct":
            return self.struct_lit(e, blk)
        if k == "if":
            return self.if_value(e, blk, exp)
        if k == "match":
            return self.match_value(e, blk, exp)
        if k == "block":
            self.scopes.append({})
            try:
                return self.block_value(e, blk, exp)
            finally:
                self.scopes.pop()
        if k == "macro" and e.name == "vec":
            if e.rep is not None:
                et = exp.elem if isinstance(exp, TVec) else None
                v, vt = self.ex(e.args[0], blk, et)
                n, nt = self.ex(e.rep, blk, TInt("usize"))
                if nt != TInt("usize"):
                    self.err("`vec![v; n]` with n of type %r" % (nt,), e)
                return "List.replicate %s %s" % (atom(n), atom(v)), TVec(vt)
            if not e.args and isinstance(exp, TVec):
                return self.zero(exp), exp
            self.err("`vec![…]` outside the subset", e)
        if k == "path":
            self.err("path `%s` outside the subset" % "::".join(e.path), e)
        self.err("expression `%s` outside the subset" % k, e)

    def unary(self, e, blk, exp):
        if e.op == "-":
            if e.e.kind == "lit" and not e.e.suf:
                if not (isinstance(exp, TInt) and exp.signed):
                    self.err("negative literal where no signed type is expected", e)
                if e.e.v > 2 ** (exp.w - 1):
                    self.err("literal -%d does not fit %r" % (e.e.v, exp), e)
                return "(-%d : Int)" % e.e.v, exp
            s, t = self.ex(e.e, blk, exp)
            if not (isinstance(t, TInt) and t.signed):
                self.err("unary `-` on %r" % (t,), e)
            tv = self.tmp()
            blk.bind(tv, "Rs.ineg %d %s" % (t.w, atom(s)))
            return tv, t
        s, t = self.ex(e.e, blk, exp)
        if not isinstance(t, TBool):
            self.err("`!` on %r" % (t,), e)
        return "!" + atom(s), TBool()

    def binary(self, e, blk, exp):
        op = e.op
        if op in ("&&", "||"):
            l, lt = self.ex(e.l, blk)
            sub = Blk()
            r, rt = self.ex(e.r, sub)
            if not isinstance(lt, TBool) or not isinstance(rt, TBool):
                self.err("`%s` on %r and %r" % (op, lt, rt), e)
            if not sub.lines:
                return "%s %s %s" % (atom(l), op, atom(r)), TBool()
            tv = self.tmp()
            sub.add("pure " + atom(r))
            if op == "&&":
                blk.add("let %s ← (if %s then do" % (tv, l))
                blk.extend(sub, 4)
                blk.add("  else pure false)")
            else:
                blk.add("let %s ← (if %s then pure true else do" % (tv, l))
                blk.extend(sub, 4)
                blk.add("  )")
            return tv, TBool()
        if op in ("==", "!=", "<", ">", "<=", ">="):
            l, r, t = self.pair(e.l, e.r, blk)
            if op in ("==", "!="):
                return "%s %s %s" % (atom(l), op, atom(r)), TBool()
            if isinstance(t, TInt):
                return "decide (%s %s %s)" % (atom(l), {"<": "<", ">": ">", "<=": "≤", ">=": "≥"}[op], atom(r)), TBool()
            if isinstance(t, TTup):
                if op == "<":
                    return "Rs.olt %s %s" % (atom(l), atom(r)), TBool()
                if op == ">":
                    return "Rs.olt %s %s" % (atom(r), atom(l)), TBool()
                if op == "<=":
                    return "Rs.ole %s %s" % (atom(l), atom(r)), TBool()
                return "Rs.ole %s %s" % (atom(r), atom(l)), TBool()
            self.err("comparison `%s` on %r" % (op, t), e)
        if op in ("+", "-", "*", "/", "%"):
            l, r, t = self.pair(e.l, e.r, blk, exp if isinstance(exp, TInt) else None)
            if not isinstance(t, TInt):
                self.err("`%s` on %r" % (op, t), e)
            tv = self.tmp()
            if t.signed:
                if op not in ("+", "-"):
                    self.err("`%s` on the signed type %r" % (op, t), e)
                blk.bind(tv, "Rs.%s %d %s %s" % ("iadd" if op == "+" else "isub", t.w, atom(l), atom(r)))
            elif op == "+":
                blk.bind(tv, "Rs.add %d %s %s" % (t.w, atom(l), atom(r)))
            elif op == "*":
                blk.bind(tv, "Rs.mul %d %s %s" % (t.w, atom(l), atom(r)))
            else:
                blk.bind(tv, "Rs.%s %s %s" % ({"-": "sub", "/": "div", "%": "rem"}[op], atom(l), atom(r)))
            return tv, t
        self.err("operator `%s`" % op, e)

    def cast(self, e, blk):
        tt = self.ty(e.ty)
        if not isinstance(tt, TInt):
            self.err("cast to %r" % (tt,), e)
        if self.is_lit(e.e):
            return self.ex(e.e, blk, tt)
        s, st = self.ex(e.e, blk)
        if not isinstance(st, TInt):
            self.err("cast from %r" % (st,), e)
        if not st.signed and not tt.signed:
            return (s if tt.w >= st.w else "Rs.cast %d %s" % (tt.w, atom(s))), tt
        if not st.signed and tt.signed:
            if tt.w > st.w:
                return "Int.ofNat %s" % atom(s), tt
            if tt.w == st.w:
                return "Rs.toSigned %d %s" % (tt.w, atom(s)), tt
            return "Rs.castSigned %d %s" % (tt.w, atom(s)), tt
        if st.signed and not tt.signed:
            return "Rs.castUnsigned %d %s" % (tt.w, atom(s)), tt
        if tt.w >= st.w:
            return s, tt
        self.err("narrowing cast between signed types", e)

    def struct_lit(self, e, blk):
        st = self.struct_ty(e.name)
        if st is None:
            self.err("struct `%s` is not declared in the translation spec" % e.name, e)
        skip = set(self.unit.get("struct_skip", {}).get(e.name, []))
        given = {}
        for f, x in e.fields:
            if f in skip:
                continue
            names = [n for n, _ in st.fields]
            if f not in names or f in given:
                self.err("struct literal `%s`: field `%s` (the spec has %s)" % (e.name, f, ",".join(names)), e)
            ft = st.items[names.index(f)]
            v, vt = self.ex(x, blk, ft)
            if vt != ft:
                self.err("field `%s` of `%s` has type %r, the spec says %r" % (f, e.name, vt, ft), e)
            given[f] = v
        parts = []
        for f, _ in st.fields:
            if f not in given:
                self.err("struct literal `%s` lacks the field `%s`" % (e.name, f), e)
            parts.append(given[f])
        return tup(parts), st

    def fen(self, which):
        d = self.unit.get("fenwick")
        if not d:
            self.err("`MaxBitTree` used, but the spec names no translated Fenwick functions")
        return d[which]

    def call(self, e, blk, exp):
        path = "::".join(e.path)
        if path in ("max", "min", "cmp::max", "cmp::min", "std::cmp::max", "std::cmp::min") and len(e.args) == 2:
            l, r, t = self.pair(e.args[0], e.args[1], blk, exp)
            which = e.path[-1]
            if isinstance(t, TInt):
                return "%s %s %s" % (which, atom(l), atom(r)), t
            if isinstance(t, TTup):
                return "Rs.o%s %s %s" % (which, atom(l), atom(r)), t
            self.err("`%s` on %r" % (which, t), e)
        if path in ("Vec::new", "Vec::with_capacity"):
            if not isinstance(exp, TVec) or exp.elem is None:
                self.err("the element type of `%s(…)` cannot be read off the text (declare the variable in the spec)" % path, e)
            for a in e.args:
                self.ex(a, blk, TInt("usize"))            # evaluated (may panic), no other effect
            return self.zero(exp), exp
        if path in ("HashMapFx::default", "HashMap::default", "HashMap::new", "HashMapFx::new", "collections::HashMap::new",
                    "std::collections::HashMap::new") and not e.args:
            if not isinstance(exp, TMap):
                self.err("the type of `%s()` cannot be read off the text" % path, e)
            return "(Rs.HMap.empty : %s)" % exp.lean(), exp
        if path == "MaxBitTree::new" and len(e.args) == 1:
            if not isinstance(exp, TFen) or exp.elem is None:
                self.err("the element type of `MaxBitTree::new` cannot be read off the text", e)
            n, nt = self.ex(e.args[0], blk, TInt("usize"))
            if nt != TInt("usize"):
                self.err("`MaxBitTree::new(%r)`" % (nt,), e)
            tv = self.tmp()
            blk.bind(tv, "%s %s %s" % (self.fen("new"), self.zero(exp.elem), atom(n)))
            return tv, exp
        if len(e.path) == 2 and e.path[1] == "default" and not e.args and e.path[0] in self.generics:
            return "dflt", TGen(e.path[0], self.generics[e.path[0]])
        if path in self.sigs:
            sg = self.sigs[path]
            if len(e.args) != len(sg["params"]):
                self.err("call of `%s` with %d arguments" % (path, len(e.args)), e)
            args = []
            for a, pt in zip(e.args, sg["params"]):
                s, t = self.ex(a, blk, pt)
                if t != pt:
                    self.err("argument of type %r where `%s` takes %r" % (t, path, pt), a)
                args.append(atom(s))
            tv = self.tmp()
            blk.bind(tv, "%s%s %s" % (sg["lean"], "".join(" " + n for n in sg["abs"]), " ".join(args)))
            return tv, sg["ret"]
        self.err("call of `%s` (not a translated function of the unit, not in the subset)" % path, e)

    def self_path(self, e):
        parts = []
        while e.kind == "field":
            parts.append(e.name)
            e = e.recv
        if e.kind == "var" and e.name == "self":
            return ".".join(["self"] + parts[::-1])
        return None

    def mcall(self, e, blk, exp):
        nm = e.name
        sp = self.self_path(e.recv) if self.unit.get("abs_methods") else None
        am = self.unit.get("abs_methods", {}).get("%s.%s" % (sp, nm)) if sp else None
        if am is not None:
            if len(e.args) != len(am["params"]):
                self.err("`%s.%s` with %d arguments" % (sp, nm, len(e.args)), e)
            args = []
            for a, pt in zip(e.args, am["params"]):
                pt = self.ty_of_text(pt)
                x, t = self.ex(a, blk, pt)
                if t != pt:
                    self.err("argument of type %r where `%s.%s` takes %r" % (t, sp, nm, pt), a)
                args.append(atom(x))
            rt = self.ty_of_text(am["ret"])
            if am.get("monadic"):
                tv = self.tmp()
                blk.bind(tv, "%s %s" % (am["lean"], " ".join(args)))
                return tv, rt
            return "%s %s" % (am["lean"], " ".join(args)), rt
        if nm == "get_mut" and not e.args and e.recv.kind == "var" and self.entry_stack:
            v = self.lookup(e.recv.name, e)
            if isinstance(v.ty, TEntry) and v.ty.kind == "O":
                self.entry_stack[-1]["alias_from"] = v
                return v.lean, v.ty.val
        if nm in TRANSPARENT and not e.args:
            return self.ex(e.recv, blk, exp)
        s, t = self.ex(e.recv, blk)
        a = e.args
        if isinstance(t, TVec):
            if nm == "len" and not a:
                return "%s.length" % atom(s), TInt("usize")
            if nm == "is_empty" and not a:
                return "%s.isEmpty" % atom(s), TBool()
            if nm == "last" and not a:
                return "%s.getLast?" % atom(s), TOpt(t.elem)
            if nm == "get" and len(a) == 1:
                i, it = self.ex(a[0], blk, TInt("usize"))
                if it != TInt("usize"):
                    self.err("`.get(%r)`" % (it,), e)
                return "%s[%s]?" % (atom(s), i), TOpt(t.elem)
            if nm == "binary_search" and len(a) == 1:
                f = self.unit.get("bsearch", {}).get(repr(t.elem))
                if f is None:
                    self.err("`binary_search` on a slice of %r: the spec names no abstract function for it" % (t.elem,), e)
                kx, kt = self.ex(a[0], blk, t.elem)
                if kt != t.elem:
                    self.err("`binary_search` key of type %r" % (kt,), e)
                return "%s %s %s" % (f, atom(s), atom(kx)), TRes(TInt("usize"), TInt("usize"))
        if isinstance(t, TInt) and nm == "saturating_sub" and len(a) == 1 and not t.signed:
            r, rt = self.ex(a[0], blk, t)
            if rt != t:
                self.err("`saturating_sub` on %r and %r" % (t, rt), e)
            return "Rs.satSub %s %s" % (atom(s), atom(r)), t
        if isinstance(t, TOpt):
            if nm in ("unwrap", "expect"):
                tv = self.tmp()
                blk.bind(tv, "Rs.expect %s" % atom(s))
                return tv, t.elem
            if nm == "unwrap_or" and len(a) == 1:
                d, dt = self.ex(a[0], blk, t.elem)
                return "%s.getD %s" % (atom(s), atom(d)), t.elem
            if nm == "is_some" and not a:
                return "%s.isSome" % atom(s), TBool()
            if nm == "is_none" and not a:
                return "%s.isNone" % atom(s), TBool()
        if isinstance(t, TRes) and nm == "unwrap_or" and len(a) == 1:
            d, dt = self.ex(a[0], blk, t.ok)
            if dt != t.ok:
                self.err("`unwrap_or(%r)` on %r" % (dt, t), e)
            return "(match %s with | .ok v => v | .error _ => %s)" % (s, atom(d)), t.ok
        if isinstance(t, TMap) and nm == "get" and len(a) == 1:
            kx, kt = self.ex(a[0], blk, t.k)
            if kt != t.k:
                self.err("`.get(%r)` on %r" % (kt, t), e)
            return "Rs.HMap.get %s %s" % (atom(s), atom(kx)), TOpt(t.v)
        if isinstance(t, TFen) and nm == "get" and len(a) == 1:
            i, it = self.ex(a[0], blk, TInt("usize"))
            if it != TInt("usize"):
                self.err("`MaxBitTree::get(%r)`" % (it,), e)
            tv = self.tmp()
            blk.bind(tv, "%s (Rs.omax (α := %s)) %s %s %s" % (self.fen("get"), t.elem.lean(), self.zero(t.elem), atom(s), atom(i)))
            return tv, t.elem
        self.err("method `.%s(…)` on a value of type %r" % (nm, t), e)

    # ---------------------------------------------------------------- value blocks, `if` / `match` as expressions
    def block_value(self, b, blk, exp):
        """statements of the block into `blk`; returns (text, type) of its tail expression"""
        stmts = b.stmts
        if not stmts or stmts[-1].kind != "expr" or stmts[-1].semi:
            self.err("block without a value where a value is needed", b)
        for s in stmts[:-1]:
            self.stmt(s, blk)
        return self.ex(stmts[-1].e, blk, exp)

    def cond(self, c, blk):
        s, t = self.ex(c, blk)
        if not isinstance(t, TBool):
            self.err("condition of type %r" % (t,), c)
        return s

    def arm_patterns(self, pat, st, node):
        """Lean pattern + declared variables for a refutable pattern against Option / Result"""
        if pat.kind == "pwild":
            return "_"
        if pat.kind == "pctor":
            if isinstance(st, TOpt) and pat.name == "Some" and len(pat.items) == 1:
                return "some " + self.sub_pat(pat.items[0], st.elem)
            if isinstance(st, TOpt) and pat.name == "None" and not pat.items:
                return "none"
            if isinstance(st, TRes) and pat.name == "Ok" and len(pat.items) == 1:
                return ".ok " + self.sub_pat(pat.items[0], st.ok)
            if isinstance(st, TRes) and pat.name == "Err" and len(pat.items) == 1:
                return ".error " + self.sub_pat(pat.items[0], st.err)
        self.err("pattern against a value of type %r" % (st,), node)

    def sub_pat(self, p, t):
        if p.kind == "pwild":
            return "_"
        if p.kind == "pvar":
            return self.declare(p.name, t, p).lean
        return self.bind_pat(p, t, p)

    def branches_value(self, e, blk, exp, heads, bodies):
        """`heads[i]` = text introducing branch i (`if c then`, `| pat =>`), bodies[i] = (block node | expr node, scope dict)"""
        subs, ty_ = [], exp
        for body, scope in bodies:
            sub = Blk()
            self.scopes.append(scope)
            try:
                if body.kind == "block":
                    v, t = self.block_value(body, sub, ty_)
                else:
                    v, t = self.ex(body, sub, ty_)
            finally:
                self.scopes.pop()
            if ty_ is not None and t != ty_ and not (isinstance(ty_, TInt) and isinstance(t, TInt) and t == ty_):
                self.err("branches of type %r and %r" % (ty_, t), e)
            ty_ = t
            subs.append((sub, v))
        return subs, ty_

    def if_value(self, e, blk, exp):
        if e.els is None:
            self.err("`if` without `else` in expression position", e)
        if self.assigned_outer(e.then) or self.assigned_outer(e.els):
            self.err("`if` expression whose branches assign outer variables", e)
        if e.cond.kind == "iflet":
            s, st = self.ex(e.cond.scrut, blk)
            sc = {}
            self.scopes.append(sc)
            pat = self.arm_patterns(e.cond.pat, st, e)
            self.scopes.pop()
            subs, t = self.branches_value(e, blk, exp, None, [(e.then, sc), (e.els, {})])
            tv = self.tmp()
            blk.add("let %s ← (match %s with" % (tv, s))
            for head, (sub, v) in zip(["| %s => do" % pat, "| _ => do"], subs):
                blk.add("  " + head)
                blk.extend(sub, 6)
                blk.add("      pure " + atom(v))
            blk.lines[-1] += ")"
            return tv, t
        c = self.cond(e.cond, blk)
        subs, t = self.branches_value(e, blk, exp, None, [(e.then, {}), (e.els, {})])
        if not subs[0][0].lines and not subs[1][0].lines:
            return "(if %s then %s else %s)" % (c, atom(subs[0][1]), atom(subs[1][1])), t
        tv = self.tmp()
        blk.add("let %s ← (if %s then do" % (tv, c))
        blk.extend(subs[0][0], 4)
        blk.add("    pure " + atom(subs[0][1]))
        blk.add("  else do")
        blk.extend(subs[1][0], 4)
        blk.add("    pure %s)" % atom(subs[1][1]))
        return tv, t

    def match_value(self, e, blk, exp):
        s, st = self.ex(e.scrut, blk)
        if not isinstance(st, (TOpt, TRes)):
            self.err("`match` on a value of type %r" % (st,), e)
        heads, bodies = [], []
        for pat, body in e.arms:
            if self.assigned_outer(body):
                self.err("`match` expression whose arms assign outer variables", e)
            sc = {}
            self.scopes.append(sc)
            heads.append("| %s => do" % self.arm_patterns(pat, st, e))
            self.scopes.pop()
            bodies.append((body, sc))
        subs, t = self.branches_value(e, blk, exp, heads, bodies)
        tv = self.tmp()
        blk.add("let %s ← (match %s with" % (tv, s))
        for head, (sub, v) in zip(heads, subs):
            blk.add("  " + head)
            blk.extend(sub, 6)
            blk.add("      pure " + atom(v))
        blk.lines[-1] += ")"
        return tv, t

    # ---------------------------------------------------------------- statements
    def ends_in_return(self, b):
        return bool(b.stmts) and b.stmts[-1].kind == "return"

    def has_return(self, node):
        found = []
        walk(node, lambda n: found.append(1) if n.kind == "return" else None)
        return bool(found)

    def seq(self, stmts, blk, fn_level, fin):
        """statements of one block; `fin` = line that ends the block when control falls off its end (None at function
        level: the tail expression / `return e` is the function's value)"""
        for idx, s in enumerate(stmts):
            last = idx == len(stmts) - 1
            if fn_level and s.kind == "expr" and s.e.kind == "if" and s.e.els is None and s.e.cond.kind != "iflet" \
                    and self.ends_in_return(s.e.then):
                c = self.cond(s.e.cond, blk)
                tb = Blk()
                self.scopes.append({})
                for x in s.e.then.stmts[:-1]:
                    if self.has_return(x):
                        self.err("`return` is only translated as the last statement of an `if` at function level", x)
                    self.stmt(x, tb)
                self.ret_value(s.e.then.stmts[-1].e, tb, s)
                self.scopes.pop()
                eb = Blk()
                self.seq(stmts[idx + 1:], eb, True, fin)
                blk.add("if %s then do" % c)
                blk.extend(tb, 4)
                blk.add("  else do")
                blk.extend(eb, 4)
                return
            if fn_level and last and fin is None and ((s.kind == "expr" and not s.semi) or s.kind == "return"):
                self.ret_value(s.e, blk, s)
                return
            if self.has_return(s):
                self.err("`return` is only translated as the last statement of the function or of an `if` at function level", s)
            self.stmt(s, blk)
        if fin is not None:
            blk.add(fin)
        elif fn_level and not self.entry_stack:
            if not isinstance(self.ret, TUnit):
                self.err("the function falls off its end without a value")
            blk.add("pure ()")

    def ret_value(self, e, blk, node):
        if e is None:
            if not isinstance(self.ret, TUnit):
                self.err("`return;` in a function returning %r" % (self.ret,), node)
            blk.add("pure ()")
            return
        v, t = self.ex(e, blk, self.ret)
        if t != self.ret:
            self.err("the function returns %r, its header says %r" % (t, self.ret), node)
        blk.add("pure " + atom(v))

    def stmt(self, s, blk):
        k = s.kind
        if k == "let":
            return self.let(s, blk)
        if k == "assign":
            return self.assign(s, blk)
        if k == "for":
            return self.for_(s, blk)
        if k == "while":
            return self.while_(s, blk)
        if k == "expr":
            return self.expr_stmt(s.e, blk)
        self.err("statement `%s` outside the subset" % k, s)

    def let(self, s, blk):
        names = []
        walk(s.pat, lambda n: names.append(n.name) if n.kind == "pvar" else None)
        ann = self.ty(s.ty) if s.ty is not None else None
        if ann is None and s.pat.kind == "pvar" and s.pat.name in self.f.get("locals", {}):
            ann = self.ty_of_text(self.f["locals"][s.pat.name])
        if s.init is None:
            if ann is None or s.pat.kind != "pvar":
                self.err("`let` without initialiser and without type", s)
            v = self.declare(s.pat.name, ann, s)
            blk.let(v.lean, self.zero(ann, s))
            return
        n_alias = len(self.entry_stack) and self.entry_stack[-1].get("alias_from")
        x, t = self.ex(s.init, blk, ann)
        if self.entry_stack and self.entry_stack[-1].get("alias_from") is not n_alias and s.pat.kind == "pvar":
            self.entry_stack[-1]["alias"] = s.pat.name
        if ann is not None and t != ann:
            self.err("`let %s`: the initialiser has type %r, declared is %r" % (",".join(names), t, ann), s)
        pat = self.bind_pat(s.pat, ann if ann is not None else t, s)
        blk.let(pat, x)

    def assign(self, s, blk):
        lhs = s.lhs
        if lhs.kind == "var":
            v = self.lookup(lhs.name, lhs)
            rhs = s.rhs if s.op is None else N("bin", s.pos, op=s.op, l=lhs, r=s.rhs)
            x, t = self.ex(rhs, blk, v.ty)
            if t != v.ty:
                self.err("assignment of %r to `%s` of type %r" % (t, lhs.name, v.ty), s)
            blk.let(v.lean, x)
            return
        if lhs.kind == "index" and lhs.recv.kind == "var" and lhs.idx.kind != "range":
            v = self.lookup(lhs.recv.name, lhs)
            if not isinstance(v.ty, TVec):
                self.err("element assignment on %r" % (v.ty,), s)
            rhs = s.rhs if s.op is None else N("bin", s.pos, op=s.op, l=lhs, r=s.rhs)
            i, it = self.ex(lhs.idx, blk, TInt("usize"))
            if it != TInt("usize"):
                self.err("index of type %r" % (it,), s)
            x, t = self.ex(rhs, blk, v.ty.elem)
            if t != v.ty.elem:
                self.err("assignment of %r to an element of %r" % (t, v.ty), s)
            blk.bind(v.lean, "Rs.setIdx %s %s %s" % (v.lean, atom(i), atom(x)))
            return
        if lhs.kind == "field":
            path, r = [], lhs
            while r.kind == "field":
                path.append(r.name)
                r = r.recv
            if r.kind == "var" and r.name != "self":
                v = self.lookup(r.name, lhs)
                path = path[::-1]
                rhs = s.rhs if s.op is None else N("bin", s.pos, op=s.op, l=lhs, r=s.rhs)

                def leaf_ty(t, pth):
                    for f in pth:
                        if not isinstance(t, TStruct) or f not in [n for n, _ in t.fields]:
                            self.err("field `.%s` of %r" % (f, t), s)
                        t = t.items[[n for n, _ in t.fields].index(f)]
                    return t
                lt = leaf_ty(v.ty, path)
                x, t = self.ex(rhs, blk, lt)
                if t != lt:
                    self.err("assignment of %r to a field of type %r" % (t, lt), s)

                def upd(text, t, pth):
                    if not pth:
                        return x
                    names = [n for n, _ in t.fields]
                    i = names.index(pth[0])
                    return tup([upd(proj(text, j, len(names)), t.items[j], pth[1:]) if j == i else proj(text, j, len(names))
                                for j in range(len(names))])
                blk.let(v.lean, upd(v.lean, v.ty, path))
                return
        self.err("assignment target outside the subset", s)

    def expr_stmt(self, e, blk):
        k = e.kind
        if k == "macro" and e.name in ("assert", "debug_assert"):
            c = self.cond(e.args[0], blk)
            for a in e.args[1:]:
                if a.kind != "str":
                    self.err("`assert!` with format arguments", e)
            blk.bind("_", "Rs.assert (%s)" % c)
            return
        if k == "if":
            return self.if_stmt(e, blk)
        if k == "match":
            return self.match_stmt(e, blk)
        if k == "block":
            self.scopes.append({})
            for x in e.stmts:
                if x.kind == "expr" and not x.semi:
                    self.expr_stmt(x.e, blk)
                else:
                    self.stmt(x, blk)
            self.scopes.pop()
            return
        if k == "mcall":
            # m.entry(k).or_default().push(x)
            if e.name == "push" and e.recv.kind == "mcall" and e.recv.name == "or_default" and e.recv.recv.kind == "mcall" \
                    and e.recv.recv.name == "entry" and e.recv.recv.recv.kind == "var" and len(e.args) == 1:
                v = self.lookup(e.recv.recv.recv.name, e)
                if not (isinstance(v.ty, TMap) and isinstance(v.ty.v, TVec)) or len(e.recv.recv.args) != 1:
                    self.err("`entry(..).or_default().push(..)` on %r" % (v.ty,), e)
                kx, kt = self.ex(e.recv.recv.args[0], blk, v.ty.k)
                x, t = self.ex(e.args[0], blk, v.ty.v.elem)
                if kt != v.ty.k or t != v.ty.v.elem:
                    self.err("`entry(%r).or_default().push(%r)` on %r" % (kt, t, v.ty), e)
                blk.let(v.lean, "Rs.HMap.entryPush %s %s %s" % (v.lean, atom(kx), atom(x)))
                return
            if e.recv.kind == "var":
                v = self.lookup(e.recv.name, e)
                a = e.args
                if isinstance(v.ty, TEntry) and v.ty.kind == "V" and e.name == "insert" and len(a) == 1:
                    x, t = self.ex(a[0], blk, v.ty.val)
                    if t != v.ty.val:
                        self.err("`insert(%r)` into a map of %r" % (t, v.ty.val), e)
                    mv = v.ty.mapvar
                    blk.let(mv.lean, "Rs.HMap.insertNew %s %s %s" % (mv.lean, atom(v.ty.key), atom(x)))
                    return
                if isinstance(v.ty, TVec):
                    if e.name == "push" and len(a) == 1:
                        x, t = self.ex(a[0], blk, v.ty.elem)
                        if t != v.ty.elem:
                            self.err("`push(%r)` on %r" % (t, v.ty), e)
                        blk.let(v.lean, "%s ++ [%s]" % (v.lean, x))
                        return
                    if e.name == "reverse" and not a:
                        blk.let(v.lean, "%s.reverse" % v.lean)
                        return
                    if e.name == "clear" and not a:
                        blk.let(v.lean, self.zero(v.ty))
                        return
                    if e.name == "resize" and len(a) == 2:
                        n, nt = self.ex(a[0], blk, TInt("usize"))
                        x, t = self.ex(a[1], blk, v.ty.elem)
                        if nt != TInt("usize") or t != v.ty.elem:
                            self.err("`resize(%r, %r)` on %r" % (nt, t, v.ty), e)
                        blk.let(v.lean, "Rs.resize %s %s %s" % (v.lean, atom(n), atom(x)))
                        return
                    if e.name == "sort_unstable" and not a:
                        f = self.unit.get("sorts", {}).get(repr(v.ty.elem))
                        if f is None:
                            self.err("`sort_unstable` on a vector of %r: the spec names no abstract function for it" % (v.ty.elem,), e)
                        blk.let(v.lean, "%s %s" % (f, v.lean))
                        return
                if isinstance(v.ty, TFen) and e.name == "set" and len(a) == 2:
                    i, it = self.ex(a[0], blk, TInt("usize"))
                    x, t = self.ex(a[1], blk, v.ty.elem)
                    if it != TInt("usize") or t != v.ty.elem:
                        self.err("`MaxBitTree::set(%r, %r)` on %r" % (it, t, v.ty), e)
                    blk.bind(v.lean, "%s (Rs.omax (α := %s)) %s %s %s %s" % (self.fen("set"), v.ty.elem.lean(),
                                                                          self.zero(v.ty.elem), v.lean, atom(i), atom(x)))
                    return
            self.err("method call `.%s(…)` as a statement" % e.name, e)
        self.err("expression statement `%s` outside the subset" % k, e)

    def state_text(self, state):
        return tup([v.lean for v in state]) if state else "()"

    def state_ty(self, state):
        return TTup([v.ty for v in state]).lean() if state else "Unit"

    def branch(self, body, scope, state, fin_state=True):
        sub = Blk()
        self.scopes.append(scope)
        try:
            stmts = body.stmts if body.kind == "block" else [N("expr", body.pos, e=body, semi=True)]
            stmts = [N("expr", x.pos, e=x.e, semi=True) if (x.kind == "expr" and not x.semi) else x for x in stmts]
            self.seq(stmts, sub, False, "pure " + self.state_text(state))
        finally:
            self.scopes.pop()
        return sub

    def if_stmt(self, e, blk):
        state = self.assigned_outer([e.then, e.els] if e.els is not None else [e.then])
        pat = self.state_text(state) if state else "_"
        if e.cond.kind == "iflet":
            s, st = self.ex(e.cond.scrut, blk)
            sc = {}
            self.scopes.append(sc)
            lp = self.arm_patterns(e.cond.pat, st, e)
            self.scopes.pop()
            tb = self.branch(e.then, sc, state)
            blk.add("let %s ← (match %s with" % (pat, s))
            blk.add("  | %s => do" % lp)
            blk.extend(tb, 6)
            if e.els is not None:
                eb = self.branch(e.els, {}, state)
                blk.add("  | _ => do")
                blk.extend(eb, 6)
                blk.lines[-1] += ")"
            else:
                blk.add("  | _ => pure %s)" % self.state_text(state))
            return
        c = self.cond(e.cond, blk)
        tb = self.branch(e.then, {}, state)
        blk.add("let %s ← (if %s then do" % (pat, c))
        blk.extend(tb, 4)
        if e.els is not None:
            eb = self.branch(e.els, {}, state)
            blk.add("  else do")
            blk.extend(eb, 4)
            blk.lines[-1] += ")"
        else:
            blk.add("  else pure %s)" % self.state_text(state))

    def entry_match(self, e, blk):
        sc_ = e.scrut
        mv = self.lookup(sc_.recv.name, e)
        if not isinstance(mv.ty, TMap) or len(sc_.args) != 1:
            self.err("`.entry(..)` on %r" % (mv.ty,), e)
        kx, kt = self.ex(sc_.args[0], blk, mv.ty.k)
        if kt != mv.ty.k:
            self.err("`.entry(%r)` on %r" % (kt, mv.ty), e)
        state = self.assigned_outer([e.scrut] + [b for _, b in e.arms])
        pat = self.state_text(state) if state else "_"
        arms = {}
        for p_, body in e.arms:
            if p_.kind != "pctor" or p_.name not in ("Vacant", "Occupied") or len(p_.items) != 1 or p_.items[0].kind != "pvar":
                self.err("arm of a `match` on `.entry(..)`", e)
            arms[p_.name] = (p_.items[0].name, body)
        if set(arms) != {"Vacant", "Occupied"}:
            self.err("`match` on `.entry(..)` without both `Entry::Vacant` and `Entry::Occupied`", e)
        blk.add("let %s ← (match Rs.HMap.get %s %s with" % (pat, mv.lean, atom(kx)))
        for ctor in ("Vacant", "Occupied"):
            name, body = arms[ctor]
            sub = Blk()
            self.scopes.append({})
            self.entry_stack.append({})
            try:
                ev = self.declare(name, TEntry("V" if ctor == "Vacant" else "O", mv, kx, mv.ty.v), e)
                stmts = body.stmts if body.kind == "block" else [N("expr", body.pos, e=body, semi=True)]
                stmts = [N("expr", x.pos, e=x.e, semi=True) if (x.kind == "expr" and not x.semi) else x for x in stmts]
                self.seq(stmts, sub, False, None)
                al = self.entry_stack[-1].get("alias")
                if al is not None:
                    sub.let(mv.lean, "Rs.HMap.update %s %s %s" % (mv.lean, atom(kx), self.lookup(al).lean))
                sub.add("pure " + self.state_text(state))
            finally:
                self.entry_stack.pop()
                self.scopes.pop()
            blk.add("  | %s => do" % ("none" if ctor == "Vacant" else "some " + ev.lean))
            blk.extend(sub, 6)
        blk.lines[-1] += ")"

    def match_stmt(self, e, blk):
        if e.scrut.kind == "mcall" and e.scrut.name == "entry" and e.scrut.recv.kind == "var":
            return self.entry_match(e, blk)
        state = self.assigned_outer([b for _, b in e.arms])
        pat = self.state_text(state) if state else "_"
        s, st = self.ex(e.scrut, blk)
        if not isinstance(st, (TOpt, TRes)):
            self.err("`match` on a value of type %r" % (st,), e)
        blk.add("let %s ← (match %s with" % (pat, s))
        for p, body in e.arms:
            sc = {}
            self.scopes.append(sc)
            lp = self.arm_patterns(p, st, e)
            self.scopes.pop()
            sub = self.branch(body, sc, state)
            blk.add("  | %s => do" % lp)
            blk.extend(sub, 6)
        blk.lines[-1] += ")"

    # ---------------------------------------------------------------- loops
    def loop_source(self, it, blk):
        """(Lean list, item type, enumerate?)"""
        enum = False
        x = it
        while x.kind == "mcall" and x.name in ("iter", "enumerate", "into_iter") and not x.args:
            if x.name == "enumerate":
                if enum:
                    self.err("nested `.enumerate()`", it)
                enum = True
            x = x.recv
        if x.kind == "range":
            if x.hi is None or x.incl:
                self.err("loop range outside the subset", it)
            lo, hi, t = self.pair(x.lo, x.hi, blk, None)
            if not isinstance(t, TInt) or t.signed:
                self.err("range over %r" % (t,), it)
            return "List.range' %s (%s - %s)" % (atom(lo), atom(hi), atom(lo)), t, enum
        s, t = self.ex(x, blk)
        if isinstance(t, TMap) and self.unit.get("map_iter"):
            return "%s %s" % (self.unit["map_iter"], atom(s)), TTup([t.k, t.v]), enum
        if not isinstance(t, TVec):
            self.err("loop over a value of type %r" % (t,), it)
        return s, t.elem, enum

    def for_(self, s, blk):
        src, et, enum = self.loop_source(s.iter, blk)
        self.n_for += 1
        name = "%s_for%d" % (self.lean, self.n_for)
        state = self.assigned_outer(s.body)
        caps = self.mentioned(s.body, state)
        hb = Blk()
        self.scopes.append({})
        try:
            if enum:
                if s.pat.kind != "ptuple" or len(s.pat.items) != 2:
                    self.err("pattern of a loop over `.enumerate()`", s)
                ip = self.bind_pat(s.pat.items[0], TInt("usize"), s)
                xp = self.bind_pat(s.pat.items[1], et, s)
                pat, ity = "(%s, %s)" % (xp, ip), TTup([et, TInt("usize")])
                src = "%s.zipIdx" % atom(src)
            else:
                pat, ity = self.bind_pat(s.pat, et, s), et
            if state:
                hb.let(self.state_text(state), "st")
            hb.let(pat, "it")
            body = [N("expr", x.pos, e=x.e, semi=True) if (x.kind == "expr" and not x.semi) else x for x in s.body.stmts]
            self.seq(body, hb, False, "pure " + self.state_text(state))
        finally:
            self.scopes.pop()
        sty = self.state_ty(state)
        head = "def %s%s%s (st : %s) (it : %s) : Res %s := do" % (
            name, self.abs_decl(), "".join(" (%s : %s)" % (v.lean, v.ty.lean()) for v in caps), paren(sty), ity.lean(), paren(sty))
        self.helpers.append("/-- body of `for … in %s` (state: %s) -/\n%s\n%s" % (
            " ".join(self.src_text(s.iter).split()).replace("-/", "- /"), ", ".join(v.rust for v in state) or "none", head,
            "\n".join("  " + l for l in hb.lines)))
        blk.bind(self.state_text(state) if state else "_", "List.foldlM (%s%s%s) %s %s" % (
            name, self.abs_use(), "".join(" " + v.lean for v in caps), self.state_text(state), atom(src)))

    def src_text(self, node):
        ps = []
        walk(node, lambda n: ps.append(n.pos))
        return self.body_text[min(ps) - self.body_pos:].split("{")[0].strip()[:80] if self.body_text else ""

    def while_(self, s, blk):
        self.n_while += 1
        name = "%s_while%d" % (self.lean, self.n_while)
        fuels = self.f.get("fuel", [])
        if len(fuels) < self.n_while:
            self.err("`while` loop without a fuel expression in the translation spec", s)
        state = self.assigned_outer(s.body)
        caps = self.mentioned([s.cond, s.body], state)
        hb = Blk()
        self.scopes.append({})
        try:
            if state:
                hb.let(self.state_text(state), "st")
            c = self.cond(s.cond, hb)
            body = Blk()
            stmts = [N("expr", x.pos, e=x.e, semi=True) if (x.kind == "expr" and not x.semi) else x for x in s.body.stmts]
            self.seq(stmts, body, False, "%s%s%s fuel %s" % (name, self.abs_use(), "".join(" " + v.lean for v in caps),
                                                          self.state_text(state)))
            hb.add("if %s then do" % c)
            hb.extend(body, 4)
            hb.add("  else pure %s" % self.state_text(state))
        finally:
            self.scopes.pop()
        sty = self.state_ty(state)
        fuel = fuels[self.n_while - 1]
        for sc in self.scopes:
            for v in sc.values():
                fuel = re.sub(r"\{%s\}" % re.escape(v.rust), v.lean, fuel)
        head = "def %s%s%s : Nat → %s → Res %s" % (
            name, self.abs_decl(), "".join(" (%s : %s)" % (v.lean, v.ty.lean()) for v in caps), paren(sty), paren(sty))
        self.helpers.append("/-- `while %s` (state: %s); fuel: `%s` -/\n%s\n  | 0, _ => Res.fuel\n  | fuel + 1, st => do\n%s" % (
            " ".join(self.src_text(s.cond).split()).replace("-/", "- /"), ", ".join(v.rust for v in state) or "none", fuel, head,
            "\n".join("    " + l for l in hb.lines)))
        blk.bind(self.state_text(state) if state else "_", "%s%s%s (%s) %s" % (
            name, self.abs_use(), "".join(" " + v.lean for v in caps), fuel, self.state_text(state)))

    # ---------------------------------------------------------------- the function
    def translate(self, body_text, body_pos):
        self.body_text, self.body_pos = body_text, body_pos
        toks = tokenize(body_text, body_pos)
        stmts = P(toks).body()
        params = []
        for n, t in self.f.get("self_fields", []):
            params.append(self.declare("self." + n, self.ty_of_text(t)))
        for n, t in self.f["params"]:
            ty = self.ty_of_text(t)
            v = self.declare(n, ty)
            params.append(v)
        self.ret = self.ty_of_text(self.f["ret"]) if self.f.get("ret") else TUnit()
        blk = Blk()
        self.seq(stmts, blk, True, None)
        head = "def %s%s%s : Res %s := do" % (self.lean, self.abs_decl(),
                                             "".join(" (%s : %s)" % (v.lean, v.ty.lean()) for v in params), paren(self.ret.lean()))
        main = head + "\n" + "\n".join("  " + l for l in blk.lines)
        sig = dict(lean=self.lean, params=[v.ty for v in params], ret=self.ret, abs=[n for n, _ in self.abs])
        return self.helpers, main, sig


def translate_unit(src, unit, fail):
    """src: gen_tables.Src of unit['file']; returns (lean text, snippets dict); calls `fail(msg)` on anything outside the subset"""
    rel = unit["file"]
    out_fns, snippets, sigs = [], {}, {}
    for nm, sg in unit.get("extern_sigs", {}).items():
        h = Fn(unit, dict(lean="_", params=[]), {})
        sigs[nm] = dict(lean=sg["lean"], params=[h.ty_of_text(t) for t in sg["params"]], ret=h.ty_of_text(sg["ret"]), abs=sg["abs"])
    for item in unit.get("pinned_items", []):
        n_found = len(re.findall(tokens_regex(item), src.code))
        if n_found != 1:
            fail("%s: expected exactly one item `%s`, found %d (the translation spec in tools/rs2lean_gensparse.py pins it; "
                 "cannot translate)" % (rel, " ".join(item.split())[:140], n_found))
    for f in unit["functions"]:
        what = "fn %s" % f["name"]
        rx = header_regex(f["header"])
        ms = list(re.finditer(rx, src.code))
        if len(ms) != 1:
            fail("%s: %s: expected exactly one function with the header `%s`, found %d (signature changed, renamed or "
                 "restructured: the translation spec in tools/rs2lean_gensparse.py pins the header; cannot translate)"
                 % (rel, what, " ".join(f["header"].split()), len(ms)))
        body, line = src.fn_body(rx, what)
        start = src.code.find("{", ms[0].end() - 1) + 1
        snippets[f.get("key", f["name"])] = ms[0].group(0)[:-1].strip() + " {" + body + "}"
        try:
            tr = Fn(unit, f, sigs)
            helpers, main, sig = tr.translate(body, start)
        except Unsupported as u:
            where = "%s:%d" % (rel, src.line_of(u.pos)) if u.pos is not None else "%s:%d" % (rel, line)
            fail("%s: %s: cannot translate: %s (outside the subset of tools/rs2lean_gensparse.py; the equality theorem %s can "
                 "no longer be regenerated)" % (where, what, u.msg, f.get("theorem", "")))
        sigs[f.get("callkey", f["name"])] = sig
        out_fns.append((f, line, body, helpers, main))
    name = unit["name"]
    txt = ["import RbV.Basic.RsSemGensparse"] + ["import " + m for m in unit.get("imports", [])] + [
        "/-! GENERATED by tools/rs2lean_gensparse.py (tools/gen_tables.py, %s) — do not edit." % unit["props"],
        "Translation of the *text* of the following functions of `%s` (comments blanked) into Lean, regenerated from" % rel,
        "the source tree on every `./check`.  Semantics of the operations: `RbV/Basic/RsSem.lean`, `RsSemInt.lean`,",
        "`RsSemBits.lean`, `RsSemGensparse.lean` (`Res.panic` = the Rust code panics: index out of bounds, checked arithmetic,",
        "failed assertion; `Res.fuel` = the fuel of a translated `while` loop ran out).  Abstract parameters (std functions",
        "that enter by their contracts `Rs.SortOk` / `Rs.BSearchOk`): %s." % (", ".join("`%s`" % n for n, _ in unit.get("abstract", [])) or "none"),
        "Equality with the hand-written mirror model: `RbV/Thm/GenSrc%s.lean`." % name[3:],
        ""]
    for f, line, body, helpers, main in out_fns:
        txt.append("`%s` (line %d):" % (" ".join(f["header"].split()), line))
        txt.append("```")
        for l in dedent(body).splitlines():
            if l.strip():
                txt.append(l.rstrip().replace("-/", "- /").replace("/-", "/ -"))
        txt.append("```")
    txt.append("-/")
    txt.append("set_option linter.unusedVariables false")
    txt.append("namespace RbV.Gen.%s" % name)
    txt.append("open RbV RbV.Rs")
    txt.append("")
    for f, line, body, helpers, main in out_fns:
        for h in helpers:
            txt.append(h)
            txt.append("")
        txt.append("/-- `%s` (%s, line %d) -/" % (" ".join(f["header"].split()).replace("-/", "- /"), rel, line))
        txt.append(main)
        txt.append("")
    txt.append("end RbV.Gen.%s" % name)
    return "\n".join(txt) + "\n", snippets


# ================================================================================================== translation specs

UNITS = {}


def unit(**kw):
    UNITS[kw["name"]] = kw


EV = "List (Nat × Nat × Nat) → List (Nat × Nat × Nat)"
BSM = "List (Nat × Nat) → Nat × Nat → Except Nat Nat"
BSN = "List Nat → Nat → Except Nat Nat"
SM = "List (Nat × Nat) → List (Nat × Nat)"

unit(name="SrcFenwickNew", props="property C19", file="src/data_structures/bit_tree.rs",
     structs={"FenwickTree": [("tree", "Vec<T>")]}, struct_skip={"FenwickTree": ["phantom"]},
     pinned_items=["pub struct FenwickTree<T: Default + Ord, Op: PrefixOp<T>> { tree: Vec<T>, phantom: PhantomData<Op>, }",
                   "impl<T: Copy + Ord> PrefixOp<T> for MaxOp { fn operation(t1: T, t2: T) -> T { max(t1, t2) } }",
                   "pub type MaxBitTree<T> = FenwickTree<T, MaxOp>;"],
     functions=[dict(name="new", lean="new", header="pub fn new(len: usize) -> FenwickTree<T, Op>", params=[("len", "usize")],
                     ret="FenwickTree", generics={"T": "α"}, abstract=[("dflt", "α")],
                     theorem="RbV.Thm.GenSrcLcskpp.fenwickNew_eq_model")])

SPARSE_STRUCTS = {"SparseAlignmentResult": [("path", "Vec<usize>"), ("score", "u32"), ("dp_vector", "Vec<(u32, i32)>")],
                  "PrevPtr": [("plane", "u32"), ("score", "u32"), ("d", "u32"), ("id", "usize"), ("x", "u32"), ("y", "u32")]}
SPARSE_PINNED = ["pub struct SparseAlignmentResult { pub path: Vec<usize>, pub score: u32, pub dp_vector: Vec<(u32, i32)>, }"]
PREVPTR_PINNED = ["#[derive(PartialEq, Eq, Ord, PartialOrd, Default, Copy, Clone)] struct PrevPtr { plane: u32, score: u32, "
                  "d: u32, id: usize, x: u32, y: u32, }"]
FENWICK = dict(new="RbV.Gen.SrcFenwickNew.new", get="RbV.Gen.SrcFenwick.get", set="RbV.Gen.SrcFenwick.set")
SPARSE_ABS = [("sortEv", EV), ("bsearchM", BSM)]
LCSKPP_FN = dict(name="lcskpp", lean="lcskpp", header="pub fn lcskpp(matches: &[(u32, u32)], k: usize) -> SparseAlignmentResult",
                 params=[("matches", "&[(u32, u32)]"), ("k", "usize")], ret="SparseAlignmentResult",
                 locals={"n": "u32", "best_dp": "(u32, i32)", "traceback": "Vec<usize>"}, fuel=["{matches}.length + 1"],
                 theorem="RbV.Thm.GenSrcLcskpp.lcskpp_eq_model")

unit(name="SrcLcskpp", props="property C19", file="src/alignment/sparse.rs",
     imports=["RbV.Gen.SrcFenwick", "RbV.Gen.SrcFenwickNew"],
     structs=SPARSE_STRUCTS, pinned_items=SPARSE_PINNED, fenwick=FENWICK,
     abstract=SPARSE_ABS, sorts={"(u32, u32, u32)": "sortEv"}, bsearch={"(u32, u32)": "bsearchM"},
     functions=[LCSKPP_FN])


PP = "Nat × Nat × Nat × Nat × Nat × Nat"
unit(name="SrcSdpkpp", props="property C19", file="src/alignment/sparse.rs",
     imports=["RbV.Gen.SrcFenwick", "RbV.Gen.SrcFenwickNew", "RbV.Gen.SrcLcskpp"],
     structs=SPARSE_STRUCTS, pinned_items=SPARSE_PINNED + PREVPTR_PINNED, fenwick=FENWICK,
     abstract=SPARSE_ABS + [("bsearchN", BSN)], sorts={"(u32, u32, u32)": "sortEv"},
     bsearch={"(u32, u32)": "bsearchM", "usize": "bsearchN"},
     extern_sigs={"lcskpp": dict(lean="RbV.Gen.SrcLcskpp.lcskpp", params=["&[(u32, u32)]", "usize"], ret="SparseAlignmentResult",
                                 abs=["sortEv", "bsearchM"])},
     functions=[
         dict(name="new", key="PrevPtr::new", callkey="PrevPtr::new", lean="prevPtrNew",
              header="pub fn new(score: u32, x: u32, y: u32, id: usize, gap_extend: u32) -> PrevPtr",
              params=[("score", "u32"), ("x", "u32"), ("y", "u32"), ("id", "usize"), ("gap_extend", "u32")], ret="PrevPtr",
              theorem="RbV.Thm.GenSrcSdpkpp.prevPtrNew_eq_model"),
         dict(name="sdpkpp", lean="sdpkpp",
              header="pub fn sdpkpp( matches: &[(u32, u32)], k: usize, match_score: u32, gap_open: i32, gap_extend: i32, ) "
                     "-> SparseAlignmentResult",
              params=[("matches", "&[(u32, u32)]"), ("k", "usize"), ("match_score", "u32"), ("gap_open", "i32"),
                      ("gap_extend", "i32")], ret="SparseAlignmentResult",
              locals={"n": "u32", "best_dp": "(u32, i32)", "traceback": "Vec<usize>"}, fuel=["{matches}.length + 1"],
              theorem="RbV.Thm.GenSrcSdpkpp.sdpkpp_eq_model"),
         dict(name="sdpkpp_union_lcskpp_path", lean="unionPath",
              header="pub fn sdpkpp_union_lcskpp_path( matches: &[(u32, u32)], k: usize, match_score: u32, gap_open: i32, "
                     "gap_extend: i32, ) -> Vec<usize>",
              params=[("matches", "&[(u32, u32)]"), ("k", "usize"), ("match_score", "u32"), ("gap_open", "i32"),
                      ("gap_extend", "i32")], ret="Vec<usize>", locals={"path_union": "Vec<usize>"},
              theorem="RbV.Thm.GenSrcSdpkpp.unionPath_eq_splice"),
     ])

KMAP = "&HashMapFx<&[u8], Vec<u32>>"
unit(name="SrcKmerMatches", props="property C19", file="src/alignment/sparse.rs",
     abstract=[("sortM", SM)], sorts={"(u32, u32)": "sortM"},
     pinned_items=["pub type HashMapFx<K, V> = HashMap<K, V, BuildHasherDefault<FxHasher>>;"],
     functions=[
         dict(name="hash_kmers", lean="hashKmers", header="pub fn hash_kmers(seq: &[u8], k: usize) -> HashMapFx<&[u8], Vec<u32>>",
              params=[("seq", "&[u8]"), ("k", "usize")], ret="HashMapFx<&[u8], Vec<u32>>",
              theorem="RbV.Thm.GenSrcKmerMatches.hashKmers_eq_model"),
         dict(name="find_kmer_matches_seq1_hashed", lean="seq1Hashed",
              header="pub fn find_kmer_matches_seq1_hashed( seq1_set: &HashMapFx<&[u8], Vec<u32>>, seq2: &[u8], k: usize, ) -> Vec<(u32, u32)>",
              params=[("seq1_set", KMAP), ("seq2", "&[u8]"), ("k", "usize")], ret="Vec<(u32, u32)>",
              locals={"matches": "Vec<(u32, u32)>"}, theorem="RbV.Thm.GenSrcKmerMatches.seq1Hashed_eq_model"),
         dict(name="find_kmer_matches_seq2_hashed", lean="seq2Hashed",
              header="pub fn find_kmer_matches_seq2_hashed( seq1: &[u8], seq2_set: &HashMapFx<&[u8], Vec<u32>>, k: usize, ) -> Vec<(u32, u32)>",
              params=[("seq1", "&[u8]"), ("seq2_set", KMAP), ("k", "usize")], ret="Vec<(u32, u32)>",
              locals={"matches": "Vec<(u32, u32)>"}, theorem="RbV.Thm.GenSrcKmerMatches.seq2Hashed_eq_model"),
         dict(name="find_kmer_matches", lean="findKmerMatches",
              header="pub fn find_kmer_matches(seq1: &[u8], seq2: &[u8], k: usize) -> Vec<(u32, u32)>",
              params=[("seq1", "&[u8]"), ("seq2", "&[u8]"), ("k", "usize")], ret="Vec<(u32, u32)>",
              theorem="RbV.Thm.GenSrcKmerMatches.findKmerMatches_eq_model"),
     ])

EXM = "(Nat × Nat) × (Nat × Nat)"
unit(name="SrcQGramExact", props="property C19", file="src/data_structures/qgram_index.rs",
     structs={"Interval": [("start", "usize"), ("stop", "usize")], "ExactMatch": [("pattern", "Interval"), ("text", "Interval")]},
     pinned_items=["pub struct Interval { pub start: usize, pub stop: usize, }",
                   "pub struct ExactMatch { pub pattern: Interval, pub text: Interval, }"],
     abstract=[("qgramsOf", "Nat → List Nat → List Nat"), ("qgramMatches", "Nat → Res (List Nat)"),
               ("hmIter", "List (Int × (%s)) → List (Int × (%s))" % (EXM, EXM))],
     abs_methods={"self.ranks.qgrams": dict(lean="qgramsOf", params=["u32", "&[u8]"], ret="Vec<usize>"),
                  "self.qgram_matches": dict(lean="qgramMatches", params=["usize"], ret="Vec<usize>", monadic=True)},
     map_iter="hmIter",
     functions=[dict(name="exact_matches", lean="exactMatches", header="pub fn exact_matches(&self, pattern: &[u8]) -> Vec<ExactMatch>",
                     self_fields=[("q", "u32")], params=[("pattern", "&[u8]")], ret="Vec<ExactMatch>",
                     locals={"diagonals": "HashMap<i32, ExactMatch>", "matches": "Vec<ExactMatch>"},
                     theorem="RbV.Thm.GenSrcQGramExact.exactMatches_eq_model")])

# ================================================================================================== self-test

SELFTEST_RS = r"""
pub struct Out {
    pub best: (u32, i32),
    pub items: Vec<usize>,
}

pub fn sweep(xs: &[(u32, u32)], k: usize) -> Out {
    if xs.is_empty() {
        return Out { best: (0, -1), items: Vec::new() };
    }
    let k = k as u32;
    let mut evs: Vec<(u32, u32, u32)> = Vec::new();
    let mut best = (k, -1);
    let mut items = Vec::new();
    for (idx, &(x, y)) in xs.iter().enumerate() {
        evs.push((x + k, y, idx as u32));
        if x > k && y > k {
            if let Ok(c) = xs.binary_search(&(x - k, y - k)) {
                best = max(best, (x, c as i32));
                items.push(c);
            }
        }
    }
    evs.sort_unstable();
    let mut j = best.1;
    while j >= 0 {
        items.push(j as usize);
        j = j - 1;
    }
    items.reverse();
    Out { items, best }
}
"""

SELFTEST_UNIT = dict(
    name="SrcSelfTestSp", props="self-test", file="src/selftest.rs",
    structs={"Out": [("best", "(u32, i32)"), ("items", "Vec<usize>")]},
    pinned_items=["pub struct Out { pub best: (u32, i32), pub items: Vec<usize>, }"],
    abstract=SPARSE_ABS, sorts={"(u32, u32, u32)": "sortEv"}, bsearch={"(u32, u32)": "bsearchM"},
    functions=[dict(name="sweep", lean="sweep", header="pub fn sweep(xs: &[(u32, u32)], k: usize) -> Out",
                    params=[("xs", "&[(u32, u32)]"), ("k", "usize")], ret="Out",
                    locals={"best": "(u32, i32)", "items": "Vec<usize>"}, fuel=["{xs}.length + 2"])])

SELFTEST_REFUSED = [
    ("loop { break; } n", "`loop`"),
    ("let c = |a: usize| a + 1; n", "closure"),
    ("let q = 3; n + q", "cannot be read off"),
    ("for i in 0..n { if v[i] == 0 { return i; } } n", "`return` is only translated"),
    ("while n > 0 { } n", "fuel"),
    ("let mut w: Vec<(u32, u32)> = Vec::new(); w.sort_unstable_by_key(|a| a.0); n", "closure"),
    ("let mut w: Vec<(u32, bool)> = Vec::new(); w.sort_unstable(); n", "names no abstract function"),
    ("n?", "`?` operator"),
    ("better(n, n)", "not a translated function"),
    ("let mut m = n; { let m = 1usize; } m", "shadows"),
    ("n.pow(2)", "method `.pow"),
]


class _FakeSrc:
    def __init__(self, text):
        self.rel, self.raw, self.code = "src/selftest.rs", text, text

    def line_of(self, pos):
        return self.code.count("\n", 0, pos) + 1

    def fn_body(self, rx, what):
        m = re.search(rx, self.code)
        start = self.code.find("{", m.end() - 1)
        d = 0
        for i in range(start, len(self.code)):
            if self.code[i] == "{":
                d += 1
            elif self.code[i] == "}":
                d -= 1
                if d == 0:
                    return self.code[start + 1:i], self.line_of(start)


class _Fail(Exception):
    pass


def _fail(msg):
    raise _Fail(msg)


def selftest(with_lean):
    text, _ = translate_unit(_FakeSrc(SELFTEST_RS), SELFTEST_UNIT, _fail)
    text2, _ = translate_unit(_FakeSrc(SELFTEST_RS), SELFTEST_UNIT, _fail)
    assert text == text2, "translation is not deterministic"
    n_ok = 0
    for stmt, why in SELFTEST_REFUSED:
        rs = "pub fn f(v: &[u8], n: usize) -> usize {\n%s\n}\n" % stmt
        u = dict(name="SrcRefused", props="self-test", file="src/selftest.rs", abstract=SPARSE_ABS,
                 sorts={"(u32, u32, u32)": "sortEv"},
                 functions=[dict(name="f", lean="f", header="pub fn f(v: &[u8], n: usize) -> usize",
                                 params=[("v", "&[u8]"), ("n", "usize")], ret="usize")])
        try:
            translate_unit(_FakeSrc(rs), u, _fail)
        except _Fail as e:
            if not re.search(why, str(e)):
                print("selftest: `%s` refused for another reason: %s" % (stmt, e))
                return 1
            n_ok += 1
            continue
        print("selftest: `%s` was not refused" % stmt)
        return 1
    print("selftest: 1 synthetic function translated (deterministic), %d non-subset snippets refused" % n_ok)
    if with_lean:
        import subprocess, tempfile
        lean_dir = os.path.join(os.path.dirname(os.path.dirname(os.path.abspath(__file__))), "lean")
        wd = os.path.join(os.path.dirname(lean_dir), ".work")
        os.makedirs(wd, exist_ok=True)
        path = os.path.join(wd, "selftest_gensparse_%d.lean" % os.getpid())
        checks = """
open RbV RbV.Rs RbV.Gen.SrcSelfTestSp
def srt (l : List (Nat × Nat × Nat)) : List (Nat × Nat × Nat) := l.mergeSort (fun a b => Rs.ole a b)
def bs (l : List (Nat × Nat)) (k : Nat × Nat) : Except Nat Nat :=
  match l.findIdx? (· == k) with | some i => .ok i | none => .error 0
#guard sweep srt bs [] 3 = Res.ok ((0, -1), [])
#guard sweep srt bs [(1, 1), (4, 4), (5, 9)] 3 = Res.ok ((4, 0), [0, 0])
#guard sweep srt bs [(4294967295, 1)] 3 = Res.panic
"""
        with open(path, "w") as f:
            f.write(text + checks)
        p = subprocess.run(["lake", "env", "lean", path], cwd=lean_dir, stdout=subprocess.PIPE, stderr=subprocess.STDOUT, text=True)
        os.remove(path)
        if p.returncode != 0:
            print(p.stdout[-3000:])
            print("selftest: the translated functions do not compile / evaluate as expected")
            return 1
        print("selftest: translated text compiles, 3 evaluations as expected")
    return 0


def main():
    if "--selftest" in sys.argv:
        sys.exit(selftest("--lean" in sys.argv))
    if len(sys.argv) >= 2:
        sys.path.insert(0, os.path.dirname(os.path.abspath(__file__)))
        import gen_tables as gt
        repo = sys.argv[2] if len(sys.argv) > 2 else "/repo"
        u = UNITS[sys.argv[1]]
        text, _ = translate_unit(gt.Src(repo, u["file"]), u, gt.fail)
        sys.stdout.write(text)
        return
    print(__doc__)


if __name__ == "__main__":
    main()
