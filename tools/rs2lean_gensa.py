#!/usr/bin/env python3
"""Rust→Lean translator, dialect module "gensa" (builder gensa): suffix-array construction (property C03).

Built on the "fmd" dialect of tools/rs2lean_fm.py (which subclasses the "cf" classes of tools/rs2lean_cf.py over
tools/rs2lean_cfbase.py): the classes are imported and subclassed, nothing of the other modules is edited.

Units (all of `src/data_structures/suffix_array.rs`):
  SrcLcp        `lcp` (Kasai)                                             -> lean/RbV/Gen/SrcLcp.lean
  SrcTransform  `sentinel`, `sentinel_count`, `transform_text`            -> lean/RbV/Gen/SrcTransform.lean
  SrcPosTypes   `PosTypes::new`, `is_s_pos`, `is_l_pos`, `is_lms_pos`     -> lean/RbV/Gen/SrcPosTypes.lean
  SrcSais       `Sais::{init_bucket_start, init_bucket_end, lms_substring_eq, calc_pos, …}` -> lean/RbV/Gen/SrcSais.lean

Semantics added for this dialect: lean/RbV/Basic/RsSemGensa.lean (core Lean, hand-written, trusted like RsSem.lean).

What this dialect adds to "fmd" (doc of each hook below):
  * `assert_eq!(a, b)` on two values, `iter::repeat(x).take(n).collect()` / `vec![x; n]` as `List.replicate`
  * `SmallInts::from_elem(v, n)` / `lcp.set(i, v)` on the LCP container read as the vector of its `isize` values
    (`lcp_container_source_exact` of Thm/C03.lean says the translated container reads back like one)
  * loop sources `xs.iter().enumerate().take(n)`, patterns `(p, &r)`
  * the parameters of loop helpers are ordered by declaration, not by first use (`captured`)
  * `b as usize` of a `bool`, `Vec::with_capacity(n)`, calls by path of translated functions of another generated file
    (`path_calls`), string literals continued with `\` + newline
  * `--selftest [--lean]`
"""
import sys, os, re, argparse

sys.path.insert(0, os.path.dirname(os.path.abspath(__file__)))
import rs2lean_fm as fm

UNITS = {}


def unit(**kw):
    UNITS[kw["name"]] = kw
    return kw


SA_FILE = "src/data_structures/suffix_array.rs"

unit(name="SrcLcp", props="property C03", file=SA_FILE, dialect="gensa",
     functions=[dict(name="lcp", lean="lcp",
                     header="pub fn lcp<SA: Deref<Target = RawSuffixArray>>(text: &[u8], pos: SA) -> LCPArray",
                     aliases={"SA": "&[usize]", "LCPArray": "Vec<isize>", "RawSuffixArray": "Vec<usize>"},
                     params=[("text", "&[u8]"), ("pos", "SA")], ret="LCPArray",
                     locals={"rank": "Vec<usize>", "lcp": "Vec<isize>", "l": "usize"},
                     fuel=["n + 1"],
                     theorem="RbV.Thm.GenSrcLcp.lcp_source_exact")])

# `transform_text` and its helpers.  `T` (u8/u16/u32/u64 by the dispatch of `suffix_array`) is read at `u64` and
# `num_traits::cast::<usize, T>` as the abstract `castT : Nat → Option Nat` (contract in the theorems: value-preserving
# on everything below `alphabet.len() + sentinel_count`, which `sais_transform_width_fits` proves for the type the
# dispatch selects); `Alphabet` = `Rs.BitSet` of its symbols, `RankTransform` = the `Rs.VecMap` of its ranks
# (`RankTransform::new` is the translated `Gen.SrcAlphabet.rankNew`)
SA_STRUCTS = {"Alphabet": [("symbols", "BitSet")], "RankTransform": [("ranks", "VecMap<u8>")]}
SA_CAST = {"cast": dict(lean="castT", args=["usize"], ret="Option<T>")}

unit(name="SrcTransform", props="property C03", file=SA_FILE, dialect="gensa", structs=SA_STRUCTS,
     imports=["RbV.Gen.SrcAlphabet"],
     functions=[dict(name="sentinel", lean="sentinel", header="fn sentinel(text: &[u8]) -> u8",
                     params=[("text", "&[u8]")], ret="u8",
                     theorem="RbV.Thm.GenSrcTransform.sentinel_eq_model"),
                dict(name="sentinel_count", lean="sentinel_count", header="fn sentinel_count(text: &[u8]) -> usize",
                     params=[("text", "&[u8]")], ret="usize",
                     calls={"sentinel": dict(lean="sentinel", args=["&[u8]"], ret="u8")},
                     theorem="RbV.Thm.GenSrcTransform.sentinel_count_eq_model"),
                dict(name="transform_text", lean="transform_text",
                     header="fn transform_text<T: Integer + Unsigned + NumCast + Copy + Debug>( text: &[u8], alphabet: &Alphabet, "
                            "sentinel_count: usize, ) -> Vec<T>",
                     aliases={"T": "u64"},
                     params=[("text", "&[u8]"), ("alphabet", "&Alphabet"), ("sentinel_count", "usize")], ret="Vec<T>",
                     abstract_fns=SA_CAST,
                     path_calls={"RankTransform::new": dict(lean="RbV.Gen.SrcAlphabet.rankNew", args=["&Alphabet"],
                                                            ret="RankTransform")},
                     calls={"sentinel": dict(lean="sentinel", args=["&[u8]"], ret="u8")},
                     locals={"s": "usize"},
                     theorem="RbV.Thm.GenSrcTransform.transform_text_spec")])

# `PosTypes`: the `BitVec` (bv crate) is read as the vector of its bits: `BitVec::new_fill(b, n)` = `n` copies,
# `set_bit(i, b)` / `get_bit(i)` = write / read with bounds check (both panic out of range, as the crate does);
# the generic symbol type `T` (only `==` and `<` are used) is read at `u64`
SA_POSTYPES = {"PosTypes": [("pos_types", "Vec<bool>")]}

unit(name="SrcPosTypes", props="property C03", file=SA_FILE, dialect="gensa", structs=SA_POSTYPES,
     pinned_items=["struct PosTypes { pos_types: BitVec, }"],
     functions=[dict(name="PosTypes::new", lean="new",
                     header="fn new<T: Integer + Unsigned + NumCast + Copy>(text: &[T]) -> Self",
                     after="impl PosTypes", aliases={"T": "u64", "Self": "PosTypes", "BitVec": "Vec<bool>"},
                     params=[("text", "&[T]")], ret="PosTypes", locals={"pos_types": "Vec<bool>"},
                     theorem="RbV.Thm.GenSrcPosTypes.new_eq_model"),
                dict(name="PosTypes::is_s_pos", lean="is_s_pos", header="fn is_s_pos(&self, p: usize) -> bool",
                     self_fields=[("pos_types", "Vec<bool>")], params=[("p", "usize")], ret="bool",
                     theorem="RbV.Thm.GenSrcPosTypes.is_s_pos_eq_model"),
                dict(name="PosTypes::is_l_pos", lean="is_l_pos", header="fn is_l_pos(&self, p: usize) -> bool",
                     self_fields=[("pos_types", "Vec<bool>")], params=[("p", "usize")], ret="bool",
                     theorem="RbV.Thm.GenSrcPosTypes.is_l_pos_eq_model"),
                dict(name="PosTypes::is_lms_pos", lean="is_lms_pos", header="fn is_lms_pos(&self, p: usize) -> bool",
                     self_fields=[("pos_types", "Vec<bool>")], params=[("p", "usize")], ret="bool",
                     self_calls={"is_s_pos": dict(lean="is_s_pos", self_args=["self.pos_types"], args=["usize"], ret="bool"),
                                 "is_l_pos": dict(lean="is_l_pos", self_args=["self.pos_types"], args=["usize"], ret="bool")},
                     theorem="RbV.Thm.GenSrcPosTypes.is_lms_pos_eq_model")])

# `Sais::init_bucket_start`, `init_bucket_end`.  `VecMap<usize>` = `Rs.VecMap` (association list; `values()` in ascending
# key order, `*get_mut(k).unwrap() += d` = `Rs.VecMap.addAt`: RsSemGensa.lean); `cast::<T, usize>` = abstract `castU`
SA_FIELDS = {"pos": "Vec<usize>", "lms_pos": "Vec<usize>", "reduced_text_pos": "Vec<usize>", "bucket_sizes": "VecMap<usize>",
             "bucket_start": "Vec<usize>", "bucket_end": "Vec<usize>"}
SA_CASTU = {"cast": dict(lean="castU", args=["T"], ret="Option<usize>")}

unit(name="SrcSaisBuckets", props="property C03", file=SA_FILE, dialect="gensa",
     functions=[dict(name="Sais::init_bucket_start", lean="init_bucket_start",
                     header="fn init_bucket_start<T: Integer + Unsigned + NumCast + Copy>(&mut self, text: &[T])",
                     aliases={"T": "u64"}, abstract_fns=SA_CASTU,
                     self_fields=[("bucket_sizes", SA_FIELDS["bucket_sizes"]), ("bucket_start", SA_FIELDS["bucket_start"])],
                     params=[("text", "&[T]")], ret=None, locals={"sum": "usize"},
                     theorem="RbV.Thm.GenSrcSaisBuckets.init_bucket_start_spec"),
                dict(name="Sais::init_bucket_end", lean="init_bucket_end",
                     header="fn init_bucket_end<T: Integer + Unsigned + NumCast + Copy>(&mut self, text: &[T])",
                     aliases={"T": "u64"},
                     self_fields=[("bucket_start", SA_FIELDS["bucket_start"]), ("bucket_end", SA_FIELDS["bucket_end"])],
                     params=[("text", "&[T]")], ret=None,
                     theorem="RbV.Thm.GenSrcSaisBuckets.init_bucket_end_spec")])

# `Sais::calc_pos` (induced sorting).  `self.init_bucket_start(text)` / `self.init_bucket_end(text)` are abstract monadic
# parameters with the signatures of the translated functions of Gen/SrcSaisBuckets.lean (the theorems instantiate them),
# `pos_types.is_l_pos` / `is_s_pos` abstract monadic predicates (instantiated with Gen/SrcPosTypes.lean)
SA_ABS_BUCKETS = {
    "init_bucket_start": dict(lean="initBucketStart", reads=["self.bucket_sizes", "self.bucket_start"], args=["&[T]"],
                              writes=["self.bucket_sizes", "self.bucket_start"]),
    "init_bucket_end": dict(lean="initBucketEnd", reads=["self.bucket_start", "self.bucket_end"], args=["&[T]"],
                            writes=["self.bucket_end"])}
SA_ABS_TYPES = {"pos_types.is_l_pos": dict(lean="isL", args=["usize"], ret="bool", monadic=True),
                "pos_types.is_s_pos": dict(lean="isS", args=["usize"], ret="bool", monadic=True),
                "pos_types.is_lms_pos": dict(lean="isLms", args=["usize"], ret="bool", monadic=True)}

unit(name="SrcSaisCalcPos", props="property C03", file=SA_FILE, dialect="gensa", structs=SA_POSTYPES,
     functions=[dict(name="Sais::calc_pos", lean="calc_pos",
                     header="fn calc_pos<T: Integer + Unsigned + NumCast + Copy>( &mut self, text: &[T], pos_types: &PosTypes, )",
                     aliases={"T": "u64"}, abstract_fns=dict(SA_CASTU, **SA_ABS_TYPES), abs_self_calls=SA_ABS_BUCKETS,
                     self_fields=[(k, SA_FIELDS[k]) for k in ("pos", "lms_pos", "bucket_sizes", "bucket_start", "bucket_end")],
                     params=[("text", "&[T]"), ("pos_types", "&PosTypes")], ret=None,
                     theorem="RbV.Thm.GenSrcSaisCalcPos.calc_pos_eq_model")])

# `Sais::lms_substring_eq` (`for k in 0..` on fuel `text.len() + 1`: spec `range_fuel`) and `Sais::calc_lms_pos`
# (`self.calc_pos(..)` and the width dispatch `self.sort_lms_suffixes::<T, uN>(..)` are abstract: `calcPos`, `sortLms`)
SA_ALL = ["pos", "lms_pos", "reduced_text_pos", "bucket_sizes", "bucket_start", "bucket_end"]
SA_ABS_LMS = {"calc_pos": dict(lean="calcPos", reads=["self." + k for k in ("pos", "lms_pos", "bucket_sizes", "bucket_start", "bucket_end")],
                               args=["&[T]", "&PosTypes"],
                               writes=["self." + k for k in ("pos", "bucket_sizes", "bucket_start", "bucket_end")])}
for _w in (8, 16, 32, 64):      # `self.sort_lms_suffixes::<T, uN>(text, pos_types, count)`: one abstract `sortLms`, the width first
    SA_ABS_LMS["sort_lms_suffixes_u%d" % _w] = dict(lean="sortLms", pre=[str(_w)], reads=["self." + k for k in SA_ALL],
                                                    args=["&[T]", "&PosTypes", "usize"], writes=["self." + k for k in SA_ALL])

unit(name="SrcSaisLms", props="property C03", file=SA_FILE, dialect="gensa", structs=SA_POSTYPES, imports=["RbV.Gen.SrcPosTypes"],
     functions=[dict(name="Sais::lms_substring_eq", lean="lms_substring_eq",
                     header="fn lms_substring_eq<T: Integer + Unsigned + NumCast + Copy>( &self, text: &[T], "
                            "pos_types: &PosTypes, i: usize, j: usize, ) -> bool",
                     aliases={"T": "u64"}, abstract_fns=SA_ABS_TYPES, range_fuel=["text.length + 1"],
                     params=[("text", "&[T]"), ("pos_types", "&PosTypes"), ("i", "usize"), ("j", "usize")], ret="bool",
                     theorem="RbV.Thm.GenSrcSaisLms.lms_substring_eq_eq_model"),
                dict(name="Sais::calc_lms_pos", lean="calc_lms_pos",
                     header="fn calc_lms_pos<T: Integer + Unsigned + NumCast + Copy + Debug>( &mut self, text: &[T], "
                            "pos_types: &PosTypes, )",
                     aliases={"T": "u64"}, abstract_fns=SA_ABS_TYPES, abs_self_calls=SA_ABS_LMS,
                     self_fields=[(k, SA_FIELDS[k]) for k in SA_ALL],
                     params=[("text", "&[T]"), ("pos_types", "&PosTypes")], ret=None, locals={"i": "usize"},
                     theorem="RbV.Thm.GenSrcSaisLms.calc_lms_pos_eq_model"),
                # `S` (the integer type of the reduced text) is read at `u64`, `cast::<usize, S>` is the abstract `castS`;
                # `self.construct(&reduced_text)` (the recursion) is the abstract `construct`
                dict(name="Sais::sort_lms_suffixes", lean="sort_lms_suffixes",
                     header="fn sort_lms_suffixes< T: Integer + Unsigned + NumCast + Copy + Debug, "
                            "S: Integer + Unsigned + NumCast + Copy + Debug, >( &mut self, text: &[T], pos_types: &PosTypes, "
                            "lms_substring_count: usize, )",
                     aliases={"T": "u64", "S": "u64"},
                     abstract_fns=dict(SA_ABS_TYPES, cast=dict(lean="castS", args=["usize"], ret="Option<S>")),
                     abs_self_calls={"construct": dict(lean="construct", reads=["self." + k for k in SA_ALL], args=["&[S]"],
                                                       writes=["self." + k for k in SA_ALL])},
                     self_calls={"lms_substring_eq": dict(lean="lms_substring_eq", self_args=[],
                                                          args=["&[T]", "&PosTypes", "usize", "usize"], ret="bool",
                                                          abs=["isL", "isS", "isLms"])},
                     self_fields=[(k, SA_FIELDS[k]) for k in SA_ALL],
                     params=[("text", "&[T]"), ("pos_types", "&PosTypes"), ("lms_substring_count", "usize")], ret=None,
                     locals={"label": "usize", "prev": "Option<usize>", "reduced_text": "Vec<S>", "lms_pos": "Vec<usize>"},
                     theorem="RbV.Thm.GenSrcSaisLms.sort_lms_suffixes_eq_model"),
                # `construct`: `PosTypes::new(text)` is the translated `Gen.SrcPosTypes.new`; `self.calc_lms_pos`, `self.calc_pos` abstract
                dict(name="Sais::construct", lean="construct",
                     header="fn construct<T: Integer + Unsigned + NumCast + Copy + Debug>(&mut self, text: &[T])",
                     aliases={"T": "u64"},
                     path_calls={"PosTypes::new": dict(lean="RbV.Gen.SrcPosTypes.new", args=["&[T]"], ret="PosTypes")},
                     abs_self_calls={"calc_lms_pos": dict(lean="calcLmsPos", reads=["self." + k for k in SA_ALL],
                                                          args=["&[T]", "&PosTypes"], writes=["self." + k for k in SA_ALL]),
                                     "calc_pos": SA_ABS_LMS["calc_pos"]},
                     self_fields=[(k, SA_FIELDS[k]) for k in SA_ALL],
                     params=[("text", "&[T]")], ret=None, locals={"pos_types": "PosTypes"},
                     theorem="RbV.Thm.GenSrcSaisConstruct.constructSrc_eq_model")])

_SA = {}


def _sa_classes():
    if _SA:
        return _SA
    d = fm._fmd_classes()
    cb, cf = d["cb"], d["cf"]
    BaseF = d["Translator"]

    atom_ = cb.atom

    class FnTranslatorSA(BaseF):
        # ------------------------------------------------------------ the LCP container as the vector of its values
        def call(self, e, code, expected):
            path = "::".join(e.path)
            if path == "SmallInts::from_elem" and len(e.args) == 2:
                # `SmallInts::<i8, isize>::from_elem(v, n)`: n copies of v (Thm/C03.lean `lcp_container_source_exact`)
                if not isinstance(expected, cb.TSeq):
                    self.err("`SmallInts::from_elem` without a declared vector type", e)
                v, vt = self.expr(e.args[0], code, expected.elem)
                n, nt = self.expr(e.args[1], code, cb.TInt("usize"))
                if vt != expected.elem or nt != cb.TInt("usize"):
                    self.err("`SmallInts::from_elem(%r, %r)` for %r" % (vt, nt, expected), e)
                return "List.replicate %s %s" % (atom_(n), atom_(v)), expected
            pc = self.spec.get("path_calls", {})
            if path in pc:
                # a translated function of another generated file (`imports` of the unit), called by path
                f = pc[path]
                if len(f["args"]) != len(e.args):
                    self.err("`%s` called with %d arguments, the spec says %d" % (path, len(e.args), len(f["args"])), e)
                parts = []
                for a, at in zip(e.args, f["args"]):
                    want = self.ty_of_text(at)
                    sv, t = self.expr(a, code, want)
                    if t != want:
                        self.err("argument of `%s` has type %r, the spec says %r" % (path, t, want), a)
                    parts.append(atom_(sv))
                tv = self.tmp()
                code.bind(tv, ("call", f["lean"] + "".join(" " + p_ for p_ in parts)))
                return tv, self.ty_of_text(f["ret"])
            if path == "BitVec::new_fill" and len(e.args) == 2:
                # bv crate: `BitVec::new_fill(b, n)` = n copies of b
                want = expected if isinstance(expected, cb.TSeq) else cb.TSeq(cb.TBool())
                if want != cb.TSeq(cb.TBool()):
                    self.err("`BitVec::new_fill` for %r" % (want,), e)
                b, bt = self.expr(e.args[0], code, cb.TBool())
                n, nt = self.expr(e.args[1], code, cb.TInt("u64"))
                if not isinstance(bt, cb.TBool) or nt != cb.TInt("u64"):
                    self.err("`BitVec::new_fill(%r, %r)`" % (bt, nt), e)
                return "List.replicate %s %s" % (atom_(n), atom_(b)), want
            if path == "Vec::with_capacity" and len(e.args) == 1:
                if not isinstance(expected, cb.TSeq):
                    self.err("`Vec::with_capacity` without a declared element type", e)
                n, nt = self.expr(e.args[0], code, cb.TInt("usize"))      # evaluated (it can panic), no other effect
                if nt != cb.TInt("usize"):
                    self.err("`Vec::with_capacity(%r)`" % (nt,), e)
                return "([] : %s)" % expected.lean(), expected
            return BaseF.call(self, e, code, expected)

        # ------------------------------------------------------------ abstract `self.method(..)` (spec `abs_self_calls`)
        def __init__(self, unit, fspec, src, body_text, body_pos):
            BaseF.__init__(self, unit, fspec, src, body_text, body_pos)
            self.abs_self = dict(fspec.get("abs_self_calls", {}))
            fields = dict(fspec.get("self_fields", []))
            for nm, f in self.abs_self.items():
                rd = [fields[r[len("self."):]] for r in f["reads"]]
                wr = [fields[w[len("self."):]] for w in f["writes"]]
                ret = wr[0] if len(wr) == 1 else "(" + ", ".join(wr) + ")"
                self.absfns["%selfabs:" + nm] = dict(lean=f["lean"], args=["usize"] * len(f.get("pre", [])) + rd + list(f["args"]),
                                                     ret=ret, monadic=True)

        def absfn_params(self):
            out = []
            for x in BaseF.absfn_params(self):          # several spec entries may share one abstract parameter
                if x not in out:
                    out.append(x)
            return out

        def self_call(self, e, code, expected):
            f = self.abs_self.get(e.name)
            if f is None:
                return BaseF.self_call(self, e, code, expected)
            if len(f["args"]) != len(e.args):
                self.err("`self.%s` called with %d arguments, the spec says %d" % (e.name, len(e.args), len(f["args"])), e)
            parts = list(f.get("pre", [])) + [self.lookup(a, e).lean for a in f["reads"]]
            for a, at in zip(e.args, f["args"]):
                want = self.ty_of_text(at)
                sv, t = self.expr(a, code, want)
                if t != want:
                    self.err("argument of `self.%s` has type %r, the spec says %r" % (e.name, t, want), a)
                parts.append(atom_(sv))
            outs = [self.lookup(w, e).lean for w in f["writes"]]
            if f["lean"] not in self.used_abs:
                self.used_abs.append(f["lean"])
            code.bind(cb.tuple_pat(outs), ("call", f["lean"] + "".join(" " + atom_(p_) for p_ in parts)))
            return "()", cb.TUnit()

        # ------------------------------------------------------------ `VecMap<usize>` (bucket sizes)
        def is_vecmap(self, e):
            t = self.peek_type(e)
            return isinstance(t, cf.TOpaque) and t.name == "VecMap"

        def get_mut_target(self, lhs):
            """(receiver, key) when `lhs` is `*(m.get_mut(k).unwrap())` on a `VecMap` held in a variable or field"""
            x = cf.strip(lhs)                       # (`strip` removes parentheses, `*` and `&`)
            if x.kind == "mcall" and x.name == "unwrap" and not x.args:
                y = cf.strip(x.recv)
                if y.kind == "mcall" and y.name == "get_mut" and len(y.args) == 1:
                    return y.recv, y.args[0]
            return None

        def _lhs_root(self, e):
            tgt = self.get_mut_target(e)
            if tgt is not None:
                return BaseF._lhs_root(self, tgt[0])
            return BaseF._lhs_root(self, e)

        def _assigned(self, n, decl, out):
            if n.kind == "assign" and self.get_mut_target(n.lhs) is not None:
                r = self._lhs_root(n.lhs)
                if r not in decl and r not in out:
                    out.append(r)
                self._mut_expr(n.rhs, decl, out)
                return
            return BaseF._assigned(self, n, decl, out)

        def assign(self, s, code):
            tgt = self.get_mut_target(s.lhs)
            if tgt is not None and self.is_vecmap(tgt[0]):
                recv, key = tgt
                v = self.container(recv, s)
                if v is None or s.op != "+":
                    self.err("`*m.get_mut(k).unwrap()` is only translated in `… += e` on a map held in a variable or field", s)
                k, kt = self.expr(key, code, cb.TInt("usize"))
                d, dt = self.expr(s.rhs, code, cb.TInt("usize"))
                if kt != cb.TInt("usize") or dt != cb.TInt("usize"):
                    self.err("`*m.get_mut(%r).unwrap() += %r`" % (kt, dt), s)
                code.bind(v.lean, ("call", "Rs.VecMap.addAt 64 %s %s %s" % (atom_(v.lean), atom_(k), atom_(d))))
                return
            return BaseF.assign(self, s, code)

        def opaque_call(self, e, code):
            if self.is_vecmap(e.recv) and e.name in ("clear", "contains_key", "insert", "values"):
                v = self.container(e.recv, e)
                r, t = self.expr(e.recv, code)
                if e.name == "clear" and not e.args:
                    if v is None:
                        self.err("`.clear()` on a map that is not held in a variable or field", e)
                    code.let(v.lean, "Rs.VecMap.empty")
                    return "()", cb.TUnit()
                if e.name == "contains_key" and len(e.args) == 1:
                    k, kt = self.expr(e.args[0], code, cb.TInt("usize"))
                    if kt != cb.TInt("usize"):
                        self.err("`.contains_key(%r)`" % (kt,), e)
                    return "Rs.VecMap.containsKey %s %s" % (atom_(r), atom_(k)), cb.TBool()
                if e.name == "insert" and len(e.args) == 2:
                    if v is None:
                        self.err("`.insert` on a map that is not held in a variable or field", e)
                    k, kt = self.expr(e.args[0], code, cb.TInt("usize"))
                    x, xt = self.expr(e.args[1], code, cb.TInt("usize"))
                    if kt != cb.TInt("usize") or not isinstance(xt, cb.TInt) or xt.signed:
                        self.err("`.insert(%r, %r)`" % (kt, xt), e)
                    code.let(v.lean, "Rs.VecMap.insert %s %s %s" % (atom_(r), atom_(k), atom_(x)))
                    return "()", cb.TUnit()
                if e.name == "values" and not e.args:
                    return "Rs.VecMap.values %s" % atom_(r), cb.TSeq(cb.TInt("usize"))
            return BaseF.opaque_call(self, e, code)

        # ------------------------------------------------------------ `for k in lo..` (unbounded range) on fuel
        def unbounded(self, it):
            x = cf.strip(it)
            return x.kind == "range" and x.lo is not None and x.hi is None

        def seq(self, stmts, tail_node, code, where):
            for idx, st in enumerate(stmts):
                if st.kind in ("for", "while", "return", "ifs", "matchs", "tail"):
                    break
            else:
                return BaseF.seq(self, stmts, tail_node, code, where)
            st = stmts[idx]
            if st.kind == "for" and self.unbounded(st.iter) and idx == 0:
                # the loop can only be left through `return`: the items are `lo, lo+1, …` for as long as the fuel of the
                # spec (`range_fuel`) lasts; running out of them is `Res.fuel`, the statements after the loop are dead code
                # (translated for their type only)
                if "return" not in cf.jumps(st.body) or "break" in cf.jumps(st.body):
                    self.err("`for … in lo..` is only translated when `return` is its only exit", st)
                r = self.cf_for(st, code, cf.jumps(st.body), fn_level=True)
                v = self.tmp()
                th = cb.Code()
                outs = [self.lookup(x.rust, st).lean for x in self.ret_fields] + [v]
                th.final = ("pure", cb.tuple_val(outs))
                dead = cb.Code()
                tys = BaseF.seq(self, stmts[1:], tail_node, dead, where)
                el = cb.Code()
                el.final = ("call", "Res.fuel")
                code.final = ("if", "let some %s := %s" % (v, r), th, el)
                return tys
            if st.kind == "for" and self.unbounded(st.iter):
                for s0 in stmts[:idx]:
                    self.stmt(s0, code, False)
                return self.seq(stmts[idx:], tail_node, code, where)
            return BaseF.seq(self, stmts, tail_node, code, where)

        def loop_source(self, it, code, s):
            x = cf.strip(it)
            if self.unbounded(it):
                fuels = self.spec.get("range_fuel", [])
                k = getattr(self, "n_unbounded", 0)
                if k >= len(fuels):
                    self.err("`for … in lo..` number %d has no fuel expression (`range_fuel`) in the translation spec" % (k + 1), s)
                self.n_unbounded = k + 1
                lo, lt = self.expr(x.lo, code, cb.TInt("usize"))
                if lt != cb.TInt("usize"):
                    self.err("unbounded range over %r" % (lt,), s)
                return "List.range' %s (%s)" % (atom_(lo), fuels[k]), lt, None
            if x.kind == "mcall" and x.name == "values" and not x.args and self.is_vecmap(x.recv):
                l, t = self.opaque_call(x, code)
                return l, t.elem, None
            return BaseF.loop_source(self, it, code, s)

        def captured(self, node, state_names, local_names):
            """the parameters of a loop helper in *declaration* order (fields, parameters, then `let`s, outer scopes first)
            instead of the order of first use: commuting the operands of a condition or of a sum no longer permutes the
            signature the theorems are stated for"""
            caps = BaseF.captured(self, node, state_names, local_names)
            order = [id(v) for sc in self.scopes for v in sc.values()]
            return sorted(caps, key=lambda v: order.index(id(v)) if id(v) in order else len(order))

        def expr(self, e, code, expected=None):
            if e.kind == "cast":
                target = self.ty(e.ty)
                if isinstance(target, cb.TInt) and not target.signed and isinstance(self.dry(e.e), cb.TBool):
                    b, _ = self.expr(e.e, code, cb.TBool())           # `b as usize` of a `bool`
                    return "(if %s then 1 else 0)" % b, target
            return BaseF.expr(self, e, code, expected)

        def mcall(self, e, code, expected):
            if e.name in ("is_some", "is_none") and not e.args:
                rt = self.dry(e.recv)
                if isinstance(rt, cf.TOpt):
                    r, _ = self.expr(e.recv, code)
                    return "%s.%s" % (atom_(r), "isSome" if e.name == "is_some" else "isNone"), cb.TBool()
            if e.name == "get_bit" and len(e.args) == 1:
                rt = self.dry(e.recv)
                if rt == cb.TSeq(cb.TBool()):
                    r, _ = self.expr(e.recv, code)
                    i, it = self.expr(e.args[0], code, cb.TInt("u64"))
                    if it != cb.TInt("u64"):
                        self.err("`.get_bit(%r)`" % (it,), e)
                    t = self.tmp()
                    code.bind(t, ("call", "Rs.idx %s %s" % (atom_(r), atom_(i))))
                    return t, cb.TBool()
            return BaseF.mcall(self, e, code, expected)

        def _mut_expr(self, e, decl, out):
            BaseF._mut_expr(self, e, decl, out)

            def f(n):
                if n.kind in ("if", "match", "block", "closure"):
                    return False
                if n.kind == "mcall" and cf.strip(n.recv).kind == "var" and cf.strip(n.recv).name == "self" \
                        and n.name in getattr(self, "abs_self", {}):
                    for w in self.abs_self[n.name]["writes"]:
                        if w not in decl and w not in out:
                            out.append(w)
                if n.kind == "mcall" and n.name == "resize" and len(n.args) == 2:
                    r = self._lhs_root(n.recv)
                    if r not in decl and r not in out:
                        out.append(r)
                if n.kind == "mcall" and n.name in ("set", "set_bit") and len(n.args) == 2 and cf.strip(n.recv).kind in ("var", "field"):
                    r = self._lhs_root(n.recv)
                    if r not in decl and r not in out:
                        out.append(r)
                return True
            cf.walk(e, f)

        def expr_stmt(self, e, code):
            if e.kind == "mcall" and e.name == "set" and len(e.args) == 2:
                v = self.container(e.recv, e)
                if v is not None and isinstance(v.ty, cb.TSeq):
                    # `lcp.set(i, x)` of the container read as a vector: `smallints[i] = …` panics out of range
                    i, it = self.expr(e.args[0], code, cb.TInt("usize"))
                    x, xt = self.expr(e.args[1], code, v.ty.elem)
                    if it != cb.TInt("usize") or xt != v.ty.elem:
                        self.err("`.set(%r, %r)` on %r" % (it, xt, v.ty), e)
                    code.bind(v.lean, ("call", "Rs.setIdx %s %s %s" % (atom_(v.lean), atom_(i), atom_(x))))
                    return
            if e.kind == "mcall" and e.name == "resize" and len(e.args) == 2:
                v = self.container(e.recv, e)
                if v is not None and isinstance(v.ty, cb.TSeq):
                    n, nt = self.expr(e.args[0], code, cb.TInt("usize"))
                    x, xt = self.expr(e.args[1], code, v.ty.elem)
                    if nt != cb.TInt("usize") or xt != v.ty.elem:
                        self.err("`.resize(%r, %r)` on %r" % (nt, xt, v.ty), e)
                    code.let(v.lean, "Rs.resizeV %s %s %s" % (atom_(v.lean), atom_(n), atom_(x)))
                    return
            if e.kind == "mcall" and e.name == "set_bit" and len(e.args) == 2:
                v = self.container(e.recv, e)
                if v is not None and v.ty == cb.TSeq(cb.TBool()):
                    i, it = self.expr(e.args[0], code, cb.TInt("u64"))
                    x, xt = self.expr(e.args[1], code, cb.TBool())
                    if it != cb.TInt("u64") or not isinstance(xt, cb.TBool):
                        self.err("`.set_bit(%r, %r)`" % (it, xt), e)
                    code.bind(v.lean, ("call", "Rs.setIdx %s %s %s" % (atom_(v.lean), atom_(i), atom_(x))))
                    return
            return BaseF.expr_stmt(self, e, code)

    _SA.update(cb=cb, cf=cf, Translator=FnTranslatorSA, fmd=d)
    return _SA


def translate_unit(src, unit, fail):
    d = _sa_classes()
    cb, cf = d["cb"], d["cf"]
    for item in unit.get("pinned_items", []):
        n_found = len(re.findall(fm.tokens_regex(item), src.code))
        if n_found != 1:
            fail("%s: expected exactly one item `%s`, found %d (the translation spec in tools/rs2lean_gensa.py pins it)"
                 % (unit["file"], " ".join(item.split())[:120], n_found))
    saved, saved_tok = cf.FnTranslatorX, cb.tokenize

    def tokenize_sa(text, base):
        # a string literal continued with `\` + newline (the message of `assert!`): the tokenizer of rs2lean_cfbase.py has
        # no rule for it (reported in docs/notes/GEN.md); same length, so positions stay right
        text = text.replace("\\\n", "  ")
        # `self.sort_lms_suffixes::<T, uN>(..)` ↦ `self.sort_lms_suffixes_uN      (..)` (the parser has no turbofish; the width is
        # part of the name the spec declares), `std::uN::MAX` ↦ `     uN::MAX`; same length, positions stay right
        text = re.sub(r"::<\s*T\s*,\s*(u\d+)\s*>", lambda m: ("_" + m.group(1)).ljust(len(m.group(0))), text)
        text = re.sub(r"\bstd::(u\d+::MAX)\b", lambda m: m.group(1).rjust(len(m.group(0))), text)
        return saved_tok(text, base)
    cf.FnTranslatorX = d["Translator"]
    cb.tokenize = tokenize_sa
    try:
        text, snippets = cb.translate_unit(src, dict(unit, dialect="cf"), fail)
    finally:
        cf.FnTranslatorX = saved
        cb.tokenize = saved_tok
    imports = ["import RbV.Basic.RsSemInt", "import RbV.Basic.RsSemGensa"] + ["import " + m for m in unit.get("imports", [])]
    text = text.replace("import RbV.Basic.RsSem\n", "import RbV.Basic.RsSem\n" + "\n".join(imports) + "\n", 1)
    text = text.replace("GENERATED by tools/rs2lean.py", "GENERATED by tools/rs2lean_gensa.py (dialect gensa)", 1)
    return text, snippets


# ================================================================================================== self-test

SELFTEST_RS = r"""
// synthetic functions exercising what dialect "gensa" adds (tools/rs2lean_gensa.py --selftest)
pub fn inverse(pos: &[usize]) -> LCPArray {
    let n = pos.len();
    assert!(
        n > 0,
        "a message continued \
         on the next line"
    );
    let mut inv = SmallInts::from_elem(-1, n);
    for (r, p) in pos.iter().enumerate() {
        inv.set(*p, r as isize);
    }
    inv
}

pub fn ascents(text: &[T]) -> usize {
    let n = text.len();
    let mut bits = BitVec::new_fill(false, n as u64);
    for p in 0..n - 1 {
        bits.set_bit(p as u64, text[p] < text[p + 1]);
    }
    let mut count = 0;
    for p in 0..n {
        count += bits.get_bit(p as u64) as usize;
    }
    count
}

pub fn histogram(&mut self, text: &[T]) -> Vec<usize> {
    self.sizes.clear();
    for &c in text {
        if !self.sizes.contains_key(cast(c).unwrap()) {
            self.sizes.insert(cast(c).unwrap(), 0);
        }
        *(self.sizes.get_mut(cast(c).unwrap()).unwrap()) += 1;
    }
    let mut out: Vec<usize> = Vec::with_capacity(text.len());
    for &size in self.sizes.values() {
        out.push(size);
    }
    out
}

pub fn mixed(text: &[u8], a: usize, b: usize) -> usize {
    let n = text.len();
    let mut k = 0usize;
    while b + k < n && a + k < n && text[a + k] == text[b + k] {
        k += 1;
    }
    k
}
"""

SELFTEST_UNIT = dict(
    name="SrcSelfTestSa", props="self-test", file="src/selftest.rs", dialect="gensa",
    functions=[
        dict(name="inverse", lean="inverse", header="pub fn inverse(pos: &[usize]) -> LCPArray",
             aliases={"LCPArray": "Vec<isize>"}, params=[("pos", "&[usize]")], ret="LCPArray", locals={"inv": "Vec<isize>"}),
        dict(name="ascents", lean="ascents", header="pub fn ascents(text: &[T]) -> usize", aliases={"T": "u64"},
             params=[("text", "&[T]")], ret="usize", locals={"bits": "Vec<bool>", "count": "usize"}),
        dict(name="histogram", lean="histogram", header="pub fn histogram(&mut self, text: &[T]) -> Vec<usize>",
             aliases={"T": "u64"}, abstract_fns={"cast": dict(lean="castU", args=["T"], ret="Option<usize>")},
             self_fields=[("sizes", "VecMap<usize>")], params=[("text", "&[T]")], ret="Vec<usize>"),
        dict(name="mixed", lean="mixed", header="pub fn mixed(text: &[u8], a: usize, b: usize) -> usize",
             params=[("text", "&[u8]"), ("a", "usize"), ("b", "usize")], ret="usize", fuel=["n + 1"]),
    ])

# (statement text placed in `fn f(v: &[u8], n: usize) -> usize { … }`, substring expected in the refusal)
SELFTEST_REFUSED = [
    ("let m: VecMap<usize> = VecMap::new(); m.resize(n, 0); n", "no meaning|outside|not declared"),
    ("let x = SmallInts::from_elem(-1, n); n", "declared vector type|cannot be read off|without a declared"),
    ("let b = BitVec::new_fill(false, n); n", "BitVec::new_fill|u64|type"),
    ("n.saturating_sub(1)", "saturating_sub"),
]


def selftest(with_lean):
    import tempfile, subprocess, shutil
    import gen_tables

    class Refused(Exception):
        pass

    def refuse(msg):
        raise Refused(msg)
    tmp = tempfile.mkdtemp(prefix="rs2lean-gensa-selftest-", dir="/var/tmp")
    ok = True
    try:
        os.makedirs(os.path.join(tmp, "src"))
        with open(os.path.join(tmp, "src", "selftest.rs"), "w") as f:
            f.write(SELFTEST_RS)
        src = gen_tables.Src(tmp, "src/selftest.rs")
        text, _ = translate_unit(src, SELFTEST_UNIT, refuse)
        text2, _ = translate_unit(gen_tables.Src(tmp, "src/selftest.rs"), SELFTEST_UNIT, refuse)
        if text != text2:
            print("selftest: translation is not deterministic")
            ok = False
        if "def mixed_while1 (text : List Nat) (a : Nat) (b : Nat) (n : Nat)" not in text:
            print("selftest: helper parameters are not in declaration order")
            ok = False
        checks = ["#eval inverse [2, 0, 1]   -- ok [1, 2, 0]", "#eval inverse []   -- panic (assert!)",
                  "#eval inverse [0, 5]   -- panic (set out of range)",
                  "#eval ascents [1, 3, 2, 5, 5, 7]   -- ok 3",
                  "#eval histogram some [] [3, 1, 3, 3, 0, 1]   -- ok (_, [1, 2, 3])",
                  "#eval histogram (fun _ => none) [] [3]   -- panic (cast)",
                  "#eval mixed [1, 2, 3, 1, 2, 4] 0 3   -- ok 2"]
        lean_text = text.replace("end RbV.Gen.SrcSelfTestSa", "\n".join(checks) + "\nend RbV.Gen.SrcSelfTestSa")
        if with_lean:
            lf = os.path.join(tmp, "SelfTestSa.lean")
            with open(lf, "w") as f:
                f.write(lean_text)
            lean_dir = os.path.join(os.path.dirname(os.path.dirname(os.path.abspath(__file__))), "lean")
            p = subprocess.run(["lake", "env", "lean", lf], cwd=lean_dir, stdout=subprocess.PIPE, stderr=subprocess.STDOUT,
                               text=True, timeout=600)
            print(p.stdout.strip())
            want = ["Res.ok [1, 2, 0]", "Res.panic", "Res.ok 3", "[1, 2, 3])", "Res.ok 2"]
            if p.returncode != 0 or any(w not in p.stdout for w in want) or p.stdout.count("Res.panic") != 3:
                print("selftest: the generated Lean does not compile or evaluates differently")
                ok = False
        else:
            sys.stdout.write(lean_text)
        for body, expect in SELFTEST_REFUSED:
            with open(os.path.join(tmp, "src", "selftest.rs"), "w") as f:
                f.write("fn f(v: &[u8], n: usize) -> usize {\n    %s\n}\n" % body)
            u = dict(name="SrcNeg", props="self-test", file="src/selftest.rs", dialect="gensa",
                     functions=[dict(name="f", lean="f", header="fn f(v: &[u8], n: usize) -> usize",
                                     params=[("v", "&[u8]"), ("n", "usize")], ret="usize")])
            try:
                translate_unit(gen_tables.Src(tmp, "src/selftest.rs"), u, refuse)
                print("selftest: NOT refused: %s" % body)
                ok = False
            except Refused as r:
                if not re.search(expect, str(r)):
                    print("selftest: refused for another reason: %s: %s" % (body, r))
                    ok = False
    finally:
        shutil.rmtree(tmp, ignore_errors=True)
    print("selftest: " + ("ok" if ok else "FAILED"))
    sys.exit(0 if ok else 1)


def main():
    ap = argparse.ArgumentParser()
    ap.add_argument("--repo", default=os.environ.get("VERIF_REPO", "/repo"))
    ap.add_argument("--unit", help="one of: " + ", ".join(sorted(UNITS)))
    ap.add_argument("--selftest", action="store_true")
    ap.add_argument("--lean", action="store_true")
    a = ap.parse_args()
    if a.selftest:
        selftest(a.lean)
    import gen_tables
    if a.unit not in UNITS:
        gen_tables.fail("rs2lean_gensa: unknown unit %s" % a.unit)
    u = UNITS[a.unit]
    src = gen_tables.Src(a.repo, u["file"])
    text, _ = translate_unit(src, u, gen_tables.fail)
    sys.stdout.write(text)


if __name__ == "__main__":
    main()
