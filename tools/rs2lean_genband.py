#!/usr/bin/env python3
"""Rust -> Lean translator, dialect "band" (builder genband): `alignment/pairwise/banded.rs` (property C02).

Built on dialect "sp" (tools/rs2lean_gensparse.py: parser `P`, generator `Fn`, the type classes), semantics
`lean/RbV/Basic/RsSem.lean`, `RsSemInt.lean`, `RsSemGensparse.lean`, `RsSemGenband.lean`.  docs/notes/GEN.md, section
"Dialect band", is the reference.  What it adds to dialect "sp":

  methods      `&self` / `&mut self` methods of a struct of the spec: `self` is an ordinary variable holding the struct
               value (a tuple in the pinned field order); a `&mut self` method returns the new value of `self` (after its
               own return value, if any): `def f … (self : S) (params…) : Res ([Ret ×] S)`; a call `recv.m(args)` on a
               place (`self`, a local, a field path `self.band`) re-binds / writes back the place.  Trait methods on
               tuples (`impl MatchPair for (u32, u32)`) are functions whose first parameter is the receiver.
  places       assignments to nested places `self.ranges[j].start = e`, `self.scoring.xclip_prefix = e`, `a.mode = e`
               (read the container, replace the component, write it back: `Rs.idx` / `Rs.setIdx` for vector elements);
               `v.clear()`, `v.resize(n, x)`, `v.push(x)` on a field path
  `Range<T>`   the struct `(start, end)`; `a..b` in value position (`vec![m + 1..0; n + 1]`, `resize(n, 0..rows)`)
  control      `loop { … if c { …; break; } … }` = recursive helper `<fn>_loop<k>` on fuel (numbering shared with
               `while`; `break` as the last statement of an `if` without `else` directly in the loop body);
               `match a.cmp(&b) { Ordering::Greater => …, Ordering::Less => …, Ordering::Equal => … }` with pure arms
               = `Rs.cmp3 a b gt lt eq` (arms in canonical order whatever their order in the text);
               a `let` in a nested block may shadow an outer variable (fresh Lean name)
  values       `Some(e)` / `None`, array literals `[a, b, c, d]` (lists), constants of the spec (`MAX_CELLS`, … = the
               definitions of `Gen/Limits.lean`), enums of the spec (Lean `inductive`s generated from the spec, or — with
               `enums_external` — the ones of `RsSemGenalign.lean`: the trusted reading of bio-types), signed `*`
               (`Rs.imul`), opaque types (`generics` of a function: Lean type variables)
  holes        `let_holes`: the initialiser of a function-level `let` named in the spec becomes a separate definition
               `<fn>_<var>` over **all** parameters of the function (the tuning constant `lazy_extend` of
               `set_boundaries`); the function calls it.  Equality theorems are stated for every value it returns.
  abstract     `abs_calls`: calls of functions translated elsewhere or not at all (`sparse::sdpkpp`,
               `sparse::find_kmer_matches`, `self.compute_alignment`) are parameters of the translated function
  prefix       `rest_call`: the statements from a pinned marker statement on are replaced by one call of an abstract
               function (the budget guard + empty-input test of `compute_alignment` in front of the DP)

Everything else raises `Unsupported` -> `gen_tables: ... cannot translate ...` -> the unit is `translation_unavailable`.
"""
import sys, os, re

sys.path.insert(0, os.path.dirname(os.path.abspath(__file__)))
import rs2lean_gensparse as sp
from rs2lean_gensparse import (N, P, Fn, Blk, Var, Ty, TInt, TBool, TUnit, TVec, TTup, TStruct, TOpt, TGen, proj, tup, atom,
                               paren, walk, root_name, Unsupported, tokenize, Tok, header_regex, dedent, tokens_regex)


def path_text(e):
    """`self.a.b` for a chain of fields on a variable, else None"""
    if e.kind == "var":
        return e.name
    if e.kind == "field":
        r = path_text(e.recv)
        return None if r is None else r + "." + e.name
    return None


class TEnum(Ty):
    def __init__(self, name, ctors):
        self.name, self.ctors = name, ctors          # ctors: [(name, [arg types as text])]

    def lean(self):
        return self.name

    def __eq__(self, o):
        return isinstance(o, TEnum) and o.name == self.name

    def __repr__(self):
        return self.name


# ================================================================================================== parser

class BP(P):
    def pattern(self):
        x = self.peek()
        if x.kind == "id" and self.peek(1).kind == "op" and self.peek(1).text == "::":
            segs = [self.ident().text]
            while self.at("::"):
                self.next()
                segs.append(self.ident().text)
            items = []
            if self.at("("):
                self.next()
                while not self.at(")"):
                    items.append(self.pattern())
                    if self.at(","):
                        self.next()
                self.expect(")")
            return N("pctor", x.pos, name="::".join(segs), items=items)
        return P.pattern(self)

    def stmt(self):
        x = self.peek()
        if self.at("loop"):
            self.next()
            return N("loop", x.pos, body=self.block())
        if self.at("break"):
            self.next()
            if not self.at(";") and not self.at("}"):
                raise Unsupported("`break` with a label / value", x.pos)
            if self.at(";"):
                self.next()
            return N("break", x.pos)
        return P.stmt(self)

    def primary(self, no_struct):
        x = self.peek()
        if x.kind == "op" and x.text == "[":
            self.next()
            items = []
            while not self.at("]"):
                items.append(self.expr())
                if self.at(";"):
                    raise Unsupported("array repeat expression", x.pos)
                if self.at(","):
                    self.next()
            self.expect("]")
            return N("array", x.pos, items=items)
        return P.primary(self, no_struct)


# ================================================================================================== generator

class BFn(Fn):
    def __init__(self, unit, fspec, sigs):
        Fn.__init__(self, unit, fspec, sigs)
        self.n_shadow = 0
        self.holes = []
        self.self_var = None
        self.self_mut = bool(fspec.get("self_mut"))
        self.params = []
        self.mut_methods = set(k.split("::")[-1] for k, s in sigs.items() if s.get("self_mut"))

    # ---------------------------------------------------------------- types
    def ty(self, n):
        nm, args = n.name, n.args
        if nm == "TextSlice":
            return TVec(TInt("u8"))
        if nm == "Range" and len(args) == 1:
            t = self.ty(args[0])
            return TStruct("Range", [("start", t), ("end", t)])
        if nm == "Self" and self.f.get("self"):
            return self.ty_of_text(self.f["self"])
        en = self.unit.get("enums", {}).get(nm)
        if en is not None:
            return TEnum(nm, en)
        return Fn.ty(self, n)

    def zero(self, t, node=None):
        if isinstance(t, TStruct) and t.name == "Range":
            return "(0, 0)"
        return Fn.zero(self, t, node)

    def declare(self, name, ty, node=None, loop_pat=False):
        if name == "_":
            return Var("_", "_", ty, -1)
        outer = len(self.scopes) > 1 and any(name in sc for sc in self.scopes[:-1])
        self.n_seq += 1
        prev = self.scopes[-1].get(name)
        lean = self.lean_name(name)
        if outer:
            self.n_shadow += 1
            lean = "%s_s%d" % (lean, self.n_shadow)
        v = Var(name, lean, ty, prev.seq if prev is not None else self.n_seq)
        self.scopes[-1][name] = v
        return v

    def assigned_outer(self, node):
        names = []

        def f(n):
            r = None
            if n.kind == "assign":
                r = root_name(n.lhs)
            elif n.kind == "mcall" and (n.name in sp.MUTATING or n.name in self.mut_methods or
                                        n.name in ("set_i_bits", "set_d_bits", "set_s_bits", "set_all")):
                r = root_name(n.recv)
            if r is not None and r not in names:
                names.append(r)
        walk(node, f)
        vs = [self.lookup(r) for r in names if self.visible(r)]
        return sorted(vs, key=lambda v: v.seq)

    # ---------------------------------------------------------------- expressions
    def ex(self, e, blk, exp=None):
        k = e.kind
        if k == "var":
            if e.name == "None" and not self.visible("None"):
                if not isinstance(exp, TOpt):
                    self.err("the type of `None` cannot be read off the text", e)
                return "(none : %s)" % exp.lean(), exp
            c = self.unit.get("consts", {}).get(e.name)
            if c is not None and not self.visible(e.name):
                return c[1], self.ty_of_text(c[0])
            return Fn.ex(self, e, blk, exp)
        if k == "range":
            if e.hi is None or e.incl:
                self.err("range value outside the subset", e)
                                                              # `a..b` as a value: the struct `Range { start, end }`
            et = exp.items[0] if isinstance(exp, TStruct) and exp.name == "Range" else TInt("usize")
            lo, hi, t = self.pair(e.lo, e.hi, blk, et)
            return "(%s, %s)" % (lo, hi), TStruct("Range", [("start", t), ("end", t)])
        if k == "array":
            et = exp.elem if isinstance(exp, TVec) else None
            parts = []
            for x in e.items:
                s, t = self.ex(x, blk, et)
                if et is not None and t != et:
                    self.err("array literal with items of type %r and %r" % (et, t), e)
                et = t
                parts.append(s)
            if et is None:
                self.err("empty array literal", e)
            return "[%s]" % ", ".join(parts), TVec(et)
        if k == "path":
            return self.path_value(e, [], blk, exp)
        if k == "if" and exp is None:
            exp = self.probe_type([e.then, e.els] if e.els is not None else [e.then])
        return Fn.ex(self, e, blk, exp)

    def probe_type(self, bodies):
        """type of the first branch whose value is not an untyped literal (translated into a scratch block)"""
        for b in bodies:
            tail = b
            if b.kind == "block":
                if not b.stmts or b.stmts[-1].kind != "expr" or b.stmts[-1].semi:
                    continue
                if len(b.stmts) != 1:
                    continue
                tail = b.stmts[-1].e
            if self.is_lit(tail):
                continue
            saved = (self.n_tmp, self.n_for, self.n_while, len(self.helpers), self.n_seq, self.n_shadow, len(self.holes))
            try:
                self.scopes.append({})
                _, t = self.ex(tail, Blk(), None)
                return t
            except Unsupported:
                return None
            finally:
                self.scopes.pop()
                self.n_tmp, self.n_for, self.n_while, nh, self.n_seq, self.n_shadow, nho = saved
                del self.helpers[nh:]
                del self.holes[nho:]
        return None

    def path_value(self, e, args, blk, exp):
        path = e.path
        if len(path) == 2 and path[0] in self.unit.get("enums", {}):
            en = TEnum(path[0], self.unit["enums"][path[0]])
            for cn, cargs in en.ctors:
                if cn == path[1]:
                    if len(cargs) != len(args):
                        self.err("constructor `%s` with %d arguments" % ("::".join(path), len(args)), e)
                    parts = []
                    for a, at in zip(args, cargs):
                        s, t = self.ex(a, blk, self.ty_of_text(at))
                        if t != self.ty_of_text(at):
                            self.err("argument of type %r of `%s`" % (t, "::".join(path)), e)
                        parts.append(atom(s))
                    return " ".join(["%s.%s" % (path[0], cn)] + parts), en
            self.err("`%s` is not a constructor of the enum in the translation spec" % "::".join(path), e)
        self.err("path `%s` outside the subset" % "::".join(path), e)

    def call(self, e, blk, exp):
        path = "::".join(e.path)
        if path == "Some" and len(e.args) == 1:
            s, t = self.ex(e.args[0], blk, exp.elem if isinstance(exp, TOpt) else None)
            return "some %s" % atom(s), TOpt(t)
        if len(e.path) == 2 and e.path[0] in self.unit.get("enums", {}):
            return self.path_value(e, e.args, blk, exp)
        ac = self.f.get("abs_calls", {}).get(path)
        if ac is not None:
            return self.abs_call(ac, None, e.args, blk, e)
        if path == "TracebackCell::new" and not e.args and self.struct_ty("TracebackCell") is not None:
            return "(0, 0, 0)", self.struct_ty("TracebackCell")
        return Fn.call(self, e, blk, exp)

    def abs_call(self, ac, recv, args, blk, node):
        pts = [self.ty_of_text(t) for t in ac["params"]]
        if len(pts) != len(args):
            self.err("call of the abstract function `%s` with %d arguments" % (ac["lean"], len(args)), node)
        if ac["lean"] not in [n for n, _ in self.abs]:
            self.err("abstract function `%s` is not a parameter of this function in the translation spec" % ac["lean"], node)
        parts = [] if recv is None else [atom(recv)]
        for a, pt in zip(args, pts):
            s, t = self.ex(a, blk, pt)
            if t != pt:
                self.err("argument of type %r where the abstract function `%s` takes %r" % (t, ac["lean"], pt), node)
            parts.append(atom(s))
        rt = self.ty_of_text(ac["ret"]) if ac.get("ret") else TUnit()
        tv = self.tmp()
        if ac.get("self_mut"):
            if isinstance(rt, TUnit):
                (blk.bind if ac.get("monadic", True) else blk.let)(tv, "%s %s" % (ac["lean"], " ".join(parts)))
                return None, rt, tv
            ts = self.tmp()
            blk.bind("(%s, %s)" % (tv, ts), "%s %s" % (ac["lean"], " ".join(parts)))
            return tv, rt, ts
        if ac.get("monadic", True):
            blk.bind(tv, "%s %s" % (ac["lean"], " ".join(parts)))
        else:
            blk.let(tv, "%s %s" % (ac["lean"], " ".join(parts)))
        return tv, rt

    def mcall(self, e, blk, exp):
        if e.name in sp.TRANSPARENT and not e.args:
            return self.ex(e.recv, blk, exp)
        r = self.method_call(e, blk)
        if r is not None:
            return r
        return Fn.mcall(self, e, blk, exp)

    def method_call(self, e, blk):
        """call of a translated / abstract method; None when `e` is not one"""
        pt = path_text(e.recv)
        if pt is not None:
            ac = self.f.get("abs_calls", {}).get(pt + "." + e.name)
            if ac is not None:
                return self.abs_call(ac, None, e.args, blk, e)
        saved = (len(blk.lines), self.n_tmp)
        s, t = self.ex(e.recv, blk)
        if isinstance(t, TStruct) and t.name == "TracebackCell":
            r = self.cell_method(e, s, t, blk)
            if r is not None:
                return r
        key = "%r::%s" % (t, e.name)
        if isinstance(t, TGen):
            key = "%s::%s" % (t.lean_name, e.name)
        ac = self.f.get("abs_calls", {}).get(key)
        if ac is not None:
            r = self.abs_call(ac, s, e.args, blk, e)
            if len(r) == 3:
                self.place_write(e.recv, r[2], blk)
                return ("()", r[1]) if r[0] is None else (r[0], r[1])
            return r
        sg = self.sigs.get(key)
        if sg is None or "self_ty" not in sg:
            del blk.lines[saved[0]:]
            self.n_tmp = saved[1]
            return None
        if len(e.args) != len(sg["params"]):
            self.err("call of `%s` with %d arguments" % (key, len(e.args)), e)
        for n in sg["abs"]:
            if n not in [a for a, _ in self.abs]:
                self.err("`%s` needs the abstract function `%s`, which is not a parameter of this function in the "
                         "translation spec" % (key, n), e)
        args = []
        for a, pt in zip(e.args, sg["params"]):
            x, xt = self.ex(a, blk, pt)
            if xt != pt:
                self.err("argument of type %r where `%s` takes %r" % (xt, key, pt), a)
            args.append(atom(x))
        callee = "%s%s %s%s" % (sg["lean"], "".join(" " + n for n in sg["abs"]), atom(s), "".join(" " + a for a in args))
        if sg.get("fuel_param"):
            callee += " fuel"
            self.uses_fuel = True
        if sg["self_mut"]:
            if isinstance(sg["ret"], TUnit):
                if e.recv.kind == "var":
                    blk.bind(self.lookup(e.recv.name, e).lean, callee)
                else:
                    tv = self.tmp()
                    blk.bind(tv, callee)
                    self.place_write(e.recv, tv, blk)
                return "()", TUnit()
            tv, ts = self.tmp(), self.tmp()
            blk.bind("(%s, %s)" % (tv, ts), callee)
            self.place_write(e.recv, ts, blk)
            return tv, sg["ret"]
        tv = self.tmp()
        blk.bind(tv, callee)
        return tv, sg["ret"]

    def binary(self, e, blk, exp):
        if e.op == "*":
            saved = (len(blk.lines), self.n_tmp)
            l, r, t = self.pair(e.l, e.r, blk, exp if isinstance(exp, TInt) else None)
            if isinstance(t, TInt) and t.signed:
                tv = self.tmp()
                blk.bind(tv, "Rs.imul %d %s %s" % (t.w, atom(l), atom(r)))
                return tv, t
            del blk.lines[saved[0]:]
            self.n_tmp = saved[1]
        return Fn.binary(self, e, blk, exp)

    CELL_FIELDS = {"i": 0, "d": 1, "s": 2}

    def cell_method(self, e, s, t, blk):
        """`TracebackCell` read as its three 4-bit fields `(i, d, s)` (the bit packing is the subject of `Thm/GenTbCodes.lean`):
        `set_x_bits(v)` writes field x, `get_x_bits()` reads it, `set_all(v)` writes all three"""
        u16 = TInt("u16")
        m = re.fullmatch(r"(set|get)_([ids])_bits", e.name)
        if m and m.group(1) == "get" and not e.args:
            return proj(s, self.CELL_FIELDS[m.group(2)], 3), u16
        if m and m.group(1) == "set" and len(e.args) == 1:
            v, vt = self.ex(e.args[0], blk, u16)
            if vt != u16:
                self.err("`%s(%r)`" % (e.name, vt), e)
            parts = [proj(s, q, 3) for q in range(3)]
            parts[self.CELL_FIELDS[m.group(2)]] = atom(v) if " " in v else v
            self.cell_put(e.recv, tup(parts), blk)
            return "()", TUnit()
        if e.name == "set_all" and len(e.args) == 1:
            v, vt = self.ex(e.args[0], blk, u16)
            if vt != u16:
                self.err("`set_all(%r)`" % (vt,), e)
            self.cell_put(e.recv, tup([v, v, v]), blk)
            return "()", TUnit()
        return None

    def cell_put(self, recv, val, blk):
        """write a cell value back: to a local, or through `self.traceback.get_mut(i, j)` (= abstract `set`)"""
        if recv.kind == "mcall" and recv.name == "get_mut" and len(recv.args) == 2:
            ac = self.f.get("abs_calls", {}).get("Tbm::set")
            s, t = self.ex(recv.recv, blk)
            if ac is None or not isinstance(t, TGen):
                self.err("`get_mut(..)` on %r" % (t,), recv)
            a0, t0 = self.ex(recv.args[0], blk, TInt("usize"))
            a1, t1 = self.ex(recv.args[1], blk, TInt("usize"))
            tv = self.tmp()
            blk.let(tv, "%s %s %s %s %s" % (ac["lean"], atom(s), atom(a0), atom(a1), atom(val)))
            return self.place_write(recv.recv, tv, blk)
        return self.place_write(recv, val, blk)

    def match_value(self, e, blk, exp):
        sc = e.scrut
        if sc.kind == "mcall" and sc.name == "cmp" and len(sc.args) == 1:
            l, r, t = self.pair(sc.recv, sc.args[0], blk)
            if not isinstance(t, TInt):
                self.err("`.cmp()` on %r" % (t,), e)
            arms = {}
            for pat, body in e.arms:
                if pat.kind != "pctor" or pat.items or pat.name.split("::")[-1] not in ("Greater", "Less", "Equal"):
                    self.err("arm of a `match` on `.cmp()`", e)
                if pat.name.split("::")[-1] in arms:
                    self.err("duplicate arm of a `match` on `.cmp()`", e)
                arms[pat.name.split("::")[-1]] = body
            if len(arms) != 3:
                self.err("`match` on `.cmp()` without the three arms `Greater`, `Less`, `Equal`", e)
            if exp is None:
                exp = self.probe_type(list(arms.values()))
            vals = []
            for nm in ("Greater", "Less", "Equal"):
                sub = Blk()
                v, vt = self.ex(arms[nm], sub, exp)
                if sub.lines:
                    self.err("arm of a `match` on `.cmp()` that is not a pure expression", e)
                if exp is not None and vt != exp:
                    self.err("arms of type %r and %r" % (exp, vt), e)
                exp = vt
                vals.append(atom(v))
            return "Rs.cmp3 %s %s %s" % (atom(l), atom(r), " ".join(vals)), exp
        if exp is None:
            exp = self.probe_type([b for _, b in e.arms])
        return Fn.match_value(self, e, blk, exp)

    # ---------------------------------------------------------------- places
    def place_write(self, lhs, val, blk):
        """write the value `val` (Lean text) to the place `lhs` (variable, field, tuple component, vector element)"""
        if lhs.kind == "var":
            v = self.lookup(lhs.name, lhs)
            blk.let(v.lean, val)
            return
        if lhs.kind == "mcall" and lhs.name in sp.TRANSPARENT and not lhs.args:
            return self.place_write(lhs.recv, val, blk)
        if lhs.kind == "field":
            s, t = self.ex(lhs.recv, blk)
            if isinstance(t, TStruct):
                names = [f for f, _ in t.fields]
                if lhs.name not in names:
                    self.err("`%s` has no field `%s` in the translation spec" % (t.name, lhs.name), lhs)
                i = names.index(lhs.name)
            elif isinstance(t, TTup) and lhs.name.isdigit() and int(lhs.name) < len(t.items):
                i = int(lhs.name)
            else:
                self.err("assignment to `.%s` of a value of type %r" % (lhs.name, t), lhs)
            n = len(t.items)
            parts = [proj(s, q, n) for q in range(n)]
            parts[i] = val
            return self.place_write(lhs.recv, tup(parts), blk)
        if lhs.kind == "index" and lhs.idx.kind != "range":
            s, t = self.ex(lhs.recv, blk)
            i, it = self.ex(lhs.idx, blk, TInt("usize"))
            if not isinstance(t, TVec) or it != TInt("usize"):
                self.err("element assignment on %r with an index of type %r" % (t, it), lhs)
            tv = self.tmp()
            blk.bind(tv, "Rs.setIdx %s %s %s" % (atom(s), atom(i), atom(val)))
            return self.place_write(lhs.recv, tv, blk)
        self.err("assignment target outside the subset", lhs)

    def assign(self, s, blk):
        lhs = s.lhs
        if lhs.kind == "var":
            return Fn.assign(self, s, blk)
        rhs = s.rhs if s.op is None else N("bin", s.pos, op=s.op, l=lhs, r=s.rhs)
        probe = Blk()
        saved = self.n_tmp
        _, lt = self.ex(lhs, probe)
        self.n_tmp = saved
        x, t = self.ex(rhs, blk, lt)
        if t != lt:
            self.err("assignment of %r to a place of type %r" % (t, lt), s)
        self.place_write(lhs, x, blk)

    # ---------------------------------------------------------------- statements
    def final(self, v):
        parts = []
        if not isinstance(self.ret, TUnit):
            parts.append(v)
        if self.self_mut:
            parts.append(self.self_var.lean)
        return "pure " + (tup(parts) if parts else "()")

    def ret_value(self, e, blk, node):
        if e is None:
            if not isinstance(self.ret, TUnit):
                self.err("`return;` in a function returning %r" % (self.ret,), node)
            blk.add(self.final(None))
            return
        v, t = self.ex(e, blk, self.ret)
        if t != self.ret:
            self.err("the function returns %r, its header says %r" % (t, self.ret), node)
        blk.add(self.final(atom(v)))

    def seq(self, stmts, blk, fn_level, fin, brk=None):
        for idx, s in enumerate(stmts):
            last = idx == len(stmts) - 1
            plain_if = s.kind == "expr" and s.e.kind == "if" and s.e.els is None and s.e.cond.kind != "iflet"
            if fn_level and plain_if and self.ends_in_return(s.e.then):
                c = self.cond(s.e.cond, blk)
                tb = Blk()
                self.scopes.append({})
                for x in s.e.then.stmts[:-1]:
                    if self.has_return(x):
                        self.err("`return` is only translated as the last statement of an `if` at function level", x)
                    self.stmt(x, tb)
                self.ret_value(s.e.then.stmts[-1].e, tb, s)
                self.scopes.pop()
                eb = Blk()
                self.seq(stmts[idx + 1:], eb, True, fin)
                blk.add("if %s then do" % c)
                blk.extend(tb, 4)
                blk.add("  else do")
                blk.extend(eb, 4)
                return
            if brk is not None and plain_if and s.e.then.stmts and s.e.then.stmts[-1].kind == "break":
                c = self.cond(s.e.cond, blk)
                tb = Blk()
                self.scopes.append({})
                for x in s.e.then.stmts[:-1]:
                    if self.has_jump(x):
                        self.err("`break` / `return` is only translated as the last statement of an `if` directly in a `loop`", x)
                    self.stmt(x, tb)
                tb.add(brk)
                self.scopes.pop()
                eb = Blk()
                self.seq(stmts[idx + 1:], eb, False, fin, brk)
                blk.add("if %s then do" % c)
                blk.extend(tb, 4)
                blk.add("  else do")
                blk.extend(eb, 4)
                return
            if fn_level and last and fin is None and s.kind == "expr" and not s.semi and isinstance(self.ret, TUnit):
                s = N("expr", s.pos, e=s.e, semi=True)         # unit function ending in a block-like expression
            elif fn_level and last and fin is None and ((s.kind == "expr" and not s.semi) or s.kind == "return"):
                self.ret_value(s.e, blk, s)
                return
            if (self.has_return(s) if s.kind == "loop" else self.has_jump(s)):
                self.err("`return` / `break` is only translated as the last statement of the function, of an `if` at function "
                         "level, or (`break`) of an `if` directly in a `loop`", s)
            self.stmt(s, blk)
        if fin is not None:
            blk.add(fin)
        elif fn_level:
            if not isinstance(self.ret, TUnit):
                self.err("the function falls off its end without a value")
            blk.add(self.final(None))

    def has_jump(self, node):
        found = []
        walk(node, lambda n: found.append(1) if n.kind in ("return", "break") else None)
        return bool(found)

    def stmt(self, s, blk):
        if s.kind == "loop":
            return self.loop_(s, blk)
        if s.kind == "break":
            self.err("`break` outside the translated shape", s)
        return Fn.stmt(self, s, blk)

    def let(self, s, blk):
        holes = self.f.get("let_holes", [])
        if s.pat.kind == "pvar" and s.pat.name in holes and len(self.scopes) == 1 and s.init is not None:
            ann = self.ty(s.ty) if s.ty is not None else None
            if ann is None:
                self.err("the hole `let %s` needs a type annotation" % s.pat.name, s)
            ps = set(v.rust for v in self.params)
            for v in self.mentioned(s.init, []):
                if v.rust not in ps or self.scopes[0].get(v.rust) is not v:
                    self.err("the initialiser of the hole `let %s` mentions `%s`, which is not a parameter" % (s.pat.name, v.rust), s)
            sub = Blk()
            x, t = self.ex(s.init, sub, ann)
            if t != ann:
                self.err("`let %s`: the initialiser has type %r, declared is %r" % (s.pat.name, t, ann), s)
            sub.add("pure " + atom(x))
            name = "%s_%s" % (self.lean, s.pat.name)
            self.holes.append("/-- the initialiser of `let %s` (a tuning constant: the equality theorems hold for every value) -/\n"
                              "def %s%s%s : Res %s := do\n%s" % (
                                  s.pat.name, name, self.abs_decl(),
                                  "".join(" (%s : %s)" % (v.lean, v.ty.lean()) for v in self.params), paren(ann.lean()),
                                  "\n".join("  " + l for l in sub.lines)))
            v = self.declare(s.pat.name, ann, s)
            blk.bind(v.lean, "%s%s%s" % (name, self.abs_use(), "".join(" " + p.lean for p in self.params)))
            return
        loc = self.f.get("locals", {})
        if s.init is not None and s.ty is None and s.pat.kind == "ptuple" and s.init.kind == "tuple" \
                and len(s.pat.items) == len(s.init.items) and all(q.kind == "pvar" and q.name in loc for q in s.pat.items):
            tys = [self.ty_of_text(loc[q.name]) for q in s.pat.items]
            x, t = self.ex(s.init, blk, TTup(tys))
            if t != TTup(tys):
                self.err("`let (…)`: the initialiser has type %r, the spec declares %r" % (t, TTup(tys)), s)
            blk.let(self.bind_pat(s.pat, t, s), x)
            return
        return Fn.let(self, s, blk)

    def expr_stmt(self, e, blk):
        if e.kind == "mcall":
            r = self.method_call(e, blk)
            if r is not None:
                return
            if e.recv.kind != "var" and e.name in ("clear", "resize", "push"):
                s, t = self.ex(e.recv, blk)
                a = e.args
                if isinstance(t, TVec):
                    if e.name == "clear" and not a:
                        return self.place_write(e.recv, self.zero(t), blk)
                    if e.name == "resize" and len(a) == 2:
                        n, nt = self.ex(a[0], blk, TInt("usize"))
                        x, xt = self.ex(a[1], blk, t.elem)
                        if nt != TInt("usize") or xt != t.elem:
                            self.err("`resize(%r, %r)` on %r" % (nt, xt, t), e)
                        return self.place_write(e.recv, "Rs.resize %s %s %s" % (atom(s), atom(n), atom(x)), blk)
                    if e.name == "push" and len(a) == 1:
                        x, xt = self.ex(a[0], blk, t.elem)
                        if xt != t.elem:
                            self.err("`push(%r)` on %r" % (xt, t), e)
                        return self.place_write(e.recv, "%s ++ [%s]" % (atom(s), x), blk)
        if e.kind == "call":
            path = "::".join(e.path)
            if path in self.f.get("abs_calls", {}) or path in self.sigs:
                self.call(e, blk, None)
                return
        return Fn.expr_stmt(self, e, blk)

    def if_stmt(self, e, blk):
        """`named_ifs` (spec): an `if` *statement* at function level becomes a named helper `<fn>_if<k>` over the variables it
        mentions (captures) and assigns (state) — so that the equality proofs can treat the blocks of a long function one by one"""
        lvl = getattr(self, "_body_level", None)
        if not self.f.get("named_ifs") or not (len(self.scopes) == 1 or (self.f.get("named_ifs") == "loops" and lvl == len(self.scopes))):
            return Fn.if_stmt(self, e, blk)
        loop_no = getattr(self, "_cur_for", None) if len(self.scopes) != 1 else None
        if loop_no is None:
            self.n_if = getattr(self, "n_if", 0) + 1
            name = "%s_if%d" % (self.lean, self.n_if)
        else:                                                 # numbered per loop body: an edit elsewhere does not rename them
            cnt = self.__dict__.setdefault("_if_per_loop", {})
            cnt[loop_no] = cnt.get(loop_no, 0) + 1
            self.n_if = cnt[loop_no]
            name = "%s_for%d_if%d" % (self.lean, loop_no, cnt[loop_no])
        state = self.assigned_outer([e.then, e.els] if e.els is not None else [e.then])
        caps = self.mentioned(e, state)
        hb = Blk()
        self.scopes.append({})
        saved_lvl = getattr(self, "_body_level", None)
        self._body_level = None
        try:
            if state:
                hb.let(self.state_text(state), "st")
            Fn.if_stmt(self, e, hb)
            hb.add("pure " + self.state_text(state))
        finally:
            self.scopes.pop()
            self._body_level = saved_lvl
        sty = self.state_ty(state)
        head = "def %s%s%s (st : %s) : Res %s := do" % (
            name, self.abs_decl(), "".join(" (%s : %s)" % (v.lean, v.ty.lean()) for v in caps), paren(sty), paren(sty))
        self.helpers.append("/-- the %s `if` statement of the function body (state: %s) -/\n%s\n%s" % (
            {1: "first", 2: "second", 3: "third"}.get(self.n_if, "%d-th" % self.n_if), ", ".join(v.rust for v in state) or "none",
            head, "\n".join("  " + l for l in hb.lines)))
        blk.bind(self.state_text(state) if state else "_", "%s%s%s %s" % (
            name, self.abs_use(), "".join(" " + v.lean for v in caps), self.state_text(state)))

    # ---------------------------------------------------------------- loops
    def loop_source(self, it, blk):
        if it.kind == "range" and it.incl and it.hi is not None:
            lo, hi, t = self.pair(it.lo, it.hi, blk, None)
            if not isinstance(t, TInt) or t.signed:
                self.err("range over %r" % (t,), it)
            return "List.range' %s (%s + 1 - %s)" % (atom(lo), atom(hi), atom(lo)), t, False
        return Fn.loop_source(self, it, blk)

    def for_(self, s, blk):
        names = []
        walk(s.pat, lambda n: names.append(n.name) if n.kind == "pvar" else None)
        self._excl = set(names)                               # the pattern variables are not captures of the body
        saved = getattr(self, "_body_level", None)
        saved_for = getattr(self, "_cur_for", None)
        self._cur_for = self.n_for + 1
        self._body_level = len(self.scopes) + 1               # statements directly in this loop body
        try:
            return Fn.for_(self, s, blk)
        finally:
            self._excl = set()
            self._body_level = saved
            self._cur_for = saved_for

    def mentioned(self, node, exclude):
        vs = Fn.mentioned(self, node, exclude)
        ex = getattr(self, "_excl", set())
        if ex:
            self._excl = set()
        return [v for v in vs if v.rust not in ex]

    def loop_(self, s, blk):
        self.n_while += 1
        name = "%s_loop%d" % (self.lean, self.n_while)
        fuels = self.f.get("fuel", [])
        if len(fuels) < self.n_while:
            self.err("`loop` without a fuel expression in the translation spec", s)
        state = self.assigned_outer(s.body)
        caps = self.mentioned(s.body, state)
        hb = Blk()
        self.scopes.append({})
        try:
            if state:
                hb.let(self.state_text(state), "st")
            stmts = [N("expr", x.pos, e=x.e, semi=True) if (x.kind == "expr" and not x.semi) else x for x in s.body.stmts]
            rec = "%s%s%s fuel %s" % (name, self.abs_use(), "".join(" " + v.lean for v in caps), self.state_text(state))
            self.seq(stmts, hb, False, rec, "pure " + self.state_text(state))
        finally:
            self.scopes.pop()
        sty = self.state_ty(state)
        fuel = fuels[self.n_while - 1]
        for sc in self.scopes:
            for v in sc.values():
                fuel = re.sub(r"\{%s\}" % re.escape(v.rust), v.lean, fuel)
        head = "def %s%s%s : Nat → %s → Res %s" % (
            name, self.abs_decl(), "".join(" (%s : %s)" % (v.lean, v.ty.lean()) for v in caps), paren(sty), paren(sty))
        self.helpers.append("/-- `loop { … }` (state: %s); fuel: `%s` -/\n%s\n  | 0, _ => Res.fuel\n  | fuel + 1, st => do\n%s" % (
            ", ".join(v.rust for v in state) or "none", fuel, head, "\n".join("    " + l for l in hb.lines)))
        blk.bind(self.state_text(state) if state else "_", "%s%s%s (%s) %s" % (
            name, self.abs_use(), "".join(" " + v.lean for v in caps), fuel, self.state_text(state)))

    # ---------------------------------------------------------------- the function
    def translate(self, body_text, body_pos):
        self.body_text, self.body_pos = body_text, body_pos
        rg = self.f.get("region")
        if rg is not None:
            a = list(re.finditer(tokens_regex(rg[0]), body_text))
            if len(a) < 1:
                raise Unsupported("`%s` (start of the translated region: its first occurrence) not found" % rg[0], body_pos)
            b = [m for m in re.finditer(tokens_regex(rg[1]), body_text) if m.start() > a[0].start()]
            if not b:
                raise Unsupported("`%s` (end of the translated region) not found" % rg[1], body_pos)
            body_pos = body_pos + a[0].start()
            body_text = body_text[a[0].start():b[0].start()]
            self.body_text, self.body_pos = body_text, body_pos
        rc = self.f.get("rest_call")
        rest = None
        if rc is not None:
            ms = list(re.finditer(tokens_regex(rc["marker"]), body_text))
            if len(ms) != 1:
                raise Unsupported("expected exactly one statement `%s` (the translation stops there), found %d"
                                  % (rc["marker"], len(ms)), body_pos)
            body_text_cut = body_text[:ms[0].start()]
            rest = rc
        else:
            body_text_cut = body_text
        toks = tokenize(body_text_cut, body_pos)
        stmts = BP(toks).body()
        params = []
        if self.f.get("self"):
            self.self_var = self.declare("self", self.ty_of_text(self.f["self"]))
            params.append(self.self_var)
        for n, t in self.f["params"]:
            params.append(self.declare(n, self.ty_of_text(t)))
        self.params = params
        self.ret = self.ty_of_text(self.f["ret"]) if self.f.get("ret") else TUnit()
        blk = Blk()
        if rest is not None:
            # the rest of the function = one call of an abstract function over the listed variables
            sub = Blk()
            self.seq(stmts, sub, True, "__REST__")
            args = []
            for a in rest["args"]:
                args.append(self.lookup(a).lean)
            if rest["lean"] not in [n for n, _ in self.abs]:
                raise Unsupported("abstract function `%s` is not a parameter in the translation spec" % rest["lean"], body_pos)
            blk.lines = [l.replace("__REST__", "%s %s" % (rest["lean"], " ".join(args))) for l in sub.lines]
        else:
            self.seq(stmts, blk, True, None)
        parts = []
        if not isinstance(self.ret, TUnit):
            parts.append(self.ret)
        if self.self_mut:
            parts.append(self.self_var.ty)
        rty = TTup(parts).lean() if len(parts) > 1 else (parts[0].lean() if parts else "Unit")
        head = "def %s%s%s : Res %s := do" % (self.lean, self.abs_decl(),
                                             "".join(" (%s : %s)" % (v.lean, v.ty.lean()) for v in params), paren(rty))
        main = head + "\n" + "\n".join("  " + l for l in blk.lines)
        sig = dict(lean=self.lean, params=[v.ty for v in params if v is not self.self_var], ret=self.ret,
                   abs=[n for n, _ in self.abs], self_mut=self.self_mut)
        if self.self_var is not None:
            sig["self_ty"] = self.self_var.ty
        return self.holes + self.helpers, main, sig


def enum_decl(name, ctors, lean_ty):
    lines = ["inductive %s where" % name]
    for cn, cargs in ctors:
        lines.append("  | %s%s" % (cn, "".join(" (a%d : %s)" % (i, lean_ty(a)) for i, a in enumerate(cargs))))
    lines.append("  deriving DecidableEq, Repr")
    return "\n".join(lines)


def translate_unit(src, unit, fail):
    """src: gen_tables.Src of unit['file']; returns (lean text, snippets dict); calls `fail(msg)` on anything outside the subset"""
    rel = unit["file"]
    out_fns, snippets, sigs = [], {}, {}
    for item in unit.get("pinned_items", []):
        code = src.code
        if isinstance(item, tuple):
            if REPO is None:
                continue                                      # (self-test: no tree)
            import gen_tables as gt
            code, item = gt.Src(REPO, item[0]).code, item[1]
        n_found = len(re.findall(tokens_regex(item), code))
        if n_found != 1:
            fail("%s: expected exactly one item `%s`, found %d (the translation spec in tools/rs2lean_genband.py pins it; "
                 "cannot translate)" % (rel, " ".join(item.split())[:140], n_found))
    for f in unit["functions"]:
        what = "fn %s" % f["name"]
        rx = header_regex(f["header"])
        ms = list(re.finditer(rx, src.code))
        if len(ms) != 1:
            fail("%s: %s: expected exactly one function with the header `%s`, found %d (signature changed, renamed or "
                 "restructured: the translation spec in tools/rs2lean_genband.py pins the header; cannot translate)"
                 % (rel, what, " ".join(f["header"].split()), len(ms)))
        body, line = src.fn_body(rx, what)
        start = src.code.find("{", ms[0].end() - 1) + 1
        snippets[f.get("key", f["name"])] = ms[0].group(0)[:-1].strip() + " {" + body + "}"
        try:
            tr = BFn(unit, f, sigs)
            helpers, main, sig = tr.translate(body, start)
        except Unsupported as u:
            where = "%s:%d" % (rel, src.line_of(u.pos)) if u.pos is not None else "%s:%d" % (rel, line)
            fail("%s: %s: cannot translate: %s (outside the subset of tools/rs2lean_genband.py; the equality theorem %s can "
                 "no longer be regenerated)" % (where, what, u.msg, f.get("theorem", "")))
        sigs[f["callkey"]] = sig
        out_fns.append((f, line, body, helpers, main))
    name = unit["name"]
    txt = ["import RbV.Basic.RsSemGenband"] + ["import " + m for m in unit.get("imports", [])] + [
        "/-! GENERATED by tools/rs2lean_genband.py (tools/gen_tables.py, %s) — do not edit." % unit["props"],
        "Translation of the *text* of the following functions of `%s` (comments blanked) into Lean, regenerated from" % rel,
        "the source tree on every `./check`.  Semantics of the operations: `RbV/Basic/RsSem.lean`, `RsSemInt.lean`,",
        "`RsSemGensparse.lean`, `RsSemGenband.lean` (`Res.panic` = the Rust code panics: index out of bounds, checked",
        "arithmetic, failed (debug) assertion — the harness is compiled with overflow checks and debug assertions;",
        "`Res.fuel` = the fuel of a translated `loop` ran out).  A struct is the tuple of its fields in the pinned order,",
        "`Range<usize>` is `(start, end)`, a `&mut self` method returns the new `self`.",
        "Equality with the hand-written mirror model: `RbV/Thm/GenSrc%s.lean`." % name[3:],
        ""]
    for f, line, body, helpers, main in out_fns:
        txt.append("`%s` (line %d):" % (" ".join(f["header"].split()), line))
        txt.append("```")
        for l in dedent(body).splitlines():
            if l.strip():
                txt.append(l.rstrip().replace("-/", "- /").replace("/-", "/ -"))
        txt.append("```")
    txt.append("-/")
    txt.append("set_option linter.unusedVariables false")
    txt.append("namespace RbV.Gen.%s" % name)
    txt.append("open RbV RbV.Rs")
    txt.append("")
    h = BFn(unit, dict(lean="_", params=[]), {})
    for en, ctors in ({} if unit.get("enums_external") else unit.get("enums", {})).items():
        txt.append(enum_decl(en, ctors, lambda a: h.ty_of_text(a).lean()))
        txt.append("")
    for f, line, body, helpers, main in out_fns:
        for hp in helpers:
            txt.append(hp)
            txt.append("")
        txt.append("/-- `%s` (%s, line %d) -/" % (" ".join(f["header"].split()).replace("-/", "- /"), rel, line))
        txt.append(main)
        txt.append("")
    txt.append("end RbV.Gen.%s" % name)
    return "\n".join(txt) + "\n", snippets


# ================================================================================================== translation specs

UNITS = {}
REPO = None          # set by tools/gen_tables.py (registration block of genband): the tree under test, for items pinned in other files


def unit(**kw):
    UNITS[kw["name"]] = kw


BANDED = "src/alignment/pairwise/banded.rs"
BAND_STRUCTS = {
    "Band": [("rows", "usize"), ("cols", "usize"), ("ranges", "Vec<Range<usize>>")],
    "Scoring": [("gap_open", "i32"), ("gap_extend", "i32"), ("match_scores", "Option<(i32, i32)>"), ("xclip_prefix", "i32"),
                ("xclip_suffix", "i32"), ("yclip_prefix", "i32"), ("yclip_suffix", "i32")],
    "SparseAlignmentResult": [("path", "Vec<usize>"), ("score", "u32"), ("dp_vector", "Vec<(u32, i32)>")],
    # `bio_types::alignment::Alignment` (external crate: the field order of the tuple is this spec's)
    "Alignment": [("score", "i32"), ("ystart", "usize"), ("xstart", "usize"), ("yend", "usize"), ("xend", "usize"),
                  ("ylen", "usize"), ("xlen", "usize"), ("operations", "Vec<AlignmentOperation>"), ("mode", "AlignmentMode")],
    # `banded::Aligner`: the fields the glue reads; `dp` stands for `S, I, D, Lx, Ly, Sn, traceback` (opaque)
    "Aligner": [("scoring", "Scoring"), ("band", "Band"), ("k", "usize"), ("w", "usize"), ("dp", "Dp")],
}
BAND_ENUMS = {"AlignmentOperation": [("Match", []), ("Subst", []), ("Del", []), ("Ins", []), ("Xclip", ["usize"]), ("Yclip", ["usize"])],
              "AlignmentMode": [("Local", []), ("Semiglobal", []), ("Global", []), ("Custom", [])]}
ALN_T = "Int × Nat × Nat × Nat × Nat × Nat × Nat × (List AlignmentOperation) × AlignmentMode"
ALIGNER_T = "(Int × Int × (Option (Int × Int)) × Int × Int × Int × Int) × (Nat × Nat × (List (Nat × Nat))) × Nat × Nat × Dp"
BAND_PINNED = [
    "struct Band { rows: usize, cols: usize, ranges: Vec<Range<usize>>, }",
    "trait MatchPair { fn continues(&self, p: Option<(u32, u32)>) -> bool; }",
    "impl MatchPair for (u32, u32) {",
    ("src/alignment/pairwise/mod.rs",
     "pub struct Scoring<F: MatchFunc> { pub gap_open: i32, pub gap_extend: i32, pub match_fn: F, pub match_scores: "
     "Option<(i32, i32)>, pub xclip_prefix: i32, pub xclip_suffix: i32, pub yclip_prefix: i32, pub yclip_suffix: i32, }"),
    ("src/alignment/sparse.rs",
     "pub struct SparseAlignmentResult { pub path: Vec<usize>, pub score: u32, pub dp_vector: Vec<(u32, i32)>, }"),
]
BAND_CONSTS = {"MAX_CELLS": ("usize", "RbV.Gen.Limits.maxCells"),
               "DEFAULT_MATCH_SCORE": ("i32", "RbV.Gen.Limits.defaultMatchScore"),
               "MIN_SCORE": ("i32", "RbV.Gen.Limits.minScorePairwise")}
SDPKPP_T = "List (Nat × Nat) → Nat → Nat → Int → Int → Res (List Nat × Nat × List (Nat × Int))"
FKM_T = "List Nat → List Nat → Nat → Res (List (Nat × Nat))"
SDPKPP_CALL = {"sparse::sdpkpp": dict(lean="sdpkpp", params=["&[(u32, u32)]", "usize", "u32", "i32", "i32"],
                                      ret="SparseAlignmentResult", monadic=True)}
KHASH = "&HashMapFx<&[u8], Vec<u32>>"
SD = ("sdpkpp", SDPKPP_T)
FKM = ("findKmerMatches", FKM_T)
FS2 = ("findSeq2Hashed", "List Nat → Rs.HMap (List Nat) (List Nat) → Nat → Res (List (Nat × Nat))")
EXP = ("expandKmerMatches", "List Nat → List Nat → Nat → List (Nat × Nat) → Nat → Res (List (Nat × Nat))")
UN = ("unionPath", "List (Nat × Nat) → Nat → Nat → Int → Int → Res (List Nat)")
P_XYKWS = [("x", "TextSlice"), ("y", "TextSlice"), ("k", "usize"), ("w", "usize"), ("scoring", "&Scoring<F>")]

FT = ("fillTrace", "%s → List Nat → List Nat → Nat → Nat → Res ((%s) × (%s))" % (ALIGNER_T, ALN_T, ALIGNER_T))
FC = ("filterClip", "%s → %s" % (ALN_T, ALN_T))
FC_CALL = {"Alignment::filter_clip_operations": dict(lean="filterClip", params=[], self_mut=True, monadic=False)}

unit(
    name="SrcBand", props="property C02", file=BANDED, imports=["RbV.Gen.Limits"],
    structs=BAND_STRUCTS, pinned_items=BAND_PINNED + [
        "pub struct Aligner<F: MatchFunc> { S: [Vec<i32>; 2], I: [Vec<i32>; 2], D: [Vec<i32>; 2], Lx: Vec<usize>, Ly: Vec<usize>, "
        "Sn: Vec<i32>, traceback: Traceback, scoring: Scoring<F>, band: Band, k: usize, w: usize, }"],
    consts=BAND_CONSTS, enums=BAND_ENUMS, enums_external=True,
    functions=[
        dict(name="continues", lean="continues", callkey="(u32, u32)::continues", self="(u32, u32)",
             header="fn continues(&self, p: Option<(u32, u32)>) -> bool", params=[("p", "Option<(u32, u32)>")], ret="bool",
             theorem="RbV.Thm.GenSrcBand.continues_eq_model"),
        dict(name="Band::new", lean="new", callkey="Band::new", header="fn new(m: usize, n: usize) -> Self",
             self_type="Band", params=[("m", "usize"), ("n", "usize")], ret="Band",
             theorem="RbV.Thm.GenSrcBand.new_eq_model"),
        dict(name="Band::add_kmer", lean="addKmer", callkey="Band::add_kmer", self="Band", self_mut=True,
             header="fn add_kmer(&mut self, start: (u32, u32), k: usize, w: usize)",
             params=[("start", "(u32, u32)"), ("k", "usize"), ("w", "usize")], fuel=["{j} + 1"],
             theorem="RbV.Thm.GenSrcBand.addKmer_eq_model"),
        dict(name="Band::add_entry", lean="addEntry", callkey="Band::add_entry", self="Band", self_mut=True,
             header="fn add_entry(&mut self, pos: (u32, u32), w: usize)",
             params=[("pos", "(u32, u32)"), ("w", "usize")], theorem="RbV.Thm.GenSrcBand.addEntry_eq_model"),
        dict(name="Band::add_gap", lean="addGap", callkey="Band::add_gap", self="Band", self_mut=True,
             header="fn add_gap(&mut self, start: (u32, u32), end: (u32, u32), w: usize)",
             params=[("start", "(u32, u32)"), ("end", "(u32, u32)"), ("w", "usize")],
             theorem="RbV.Thm.GenSrcBand.addGap_eq_model"),
        dict(name="Band::set_boundaries", lean="setBoundaries", callkey="Band::set_boundaries", self="Band", self_mut=True,
             header="fn set_boundaries<F: MatchFunc>( &mut self, start: (u32, u32), end: (u32, u32), k: usize, w: usize, "
                    "scoring: &Scoring<F>, )",
             params=[("start", "(u32, u32)"), ("end", "(u32, u32)"), ("k", "usize"), ("w", "usize"), ("scoring", "&Scoring<F>")],
             let_holes=["lazy_extend"], named_ifs=True, theorem="RbV.Thm.GenSrcBand.setBoundaries_eq_model"),
        dict(name="Band::full_matrix", lean="fullMatrix", callkey="Band::full_matrix", self="Band", self_mut=True,
             header="fn full_matrix(&mut self)", params=[], theorem="RbV.Thm.GenSrcBand.fullMatrix_eq_model"),
        dict(name="Band::num_cells", lean="numCells", callkey="Band::num_cells", self="Band",
             header="fn num_cells(&self) -> usize", params=[], ret="usize", locals={"banded_cells": "usize"},
             theorem="RbV.Thm.GenSrcBand.numCells_eq_model"),
        dict(name="Band::create_from_match_path", lean="createFromMatchPath", callkey="Band::create_from_match_path",
             header="fn create_from_match_path<F: MatchFunc>( x: TextSlice<'_>, y: TextSlice<'_>, k: usize, w: usize, "
                    "scoring: &Scoring<F>, path: &[usize], matches: &[(u32, u32)], ) -> Band",
             params=P_XYKWS + [("path", "&[usize]"), ("matches", "&[(u32, u32)]")], ret="Band",
             theorem="RbV.Thm.GenSrcBand.createFromMatchPath_eq_model"),
        dict(name="Band::create_with_matches", lean="createWithMatches", callkey="Band::create_with_matches",
             header="fn create_with_matches<F: MatchFunc>( x: TextSlice<'_>, y: TextSlice<'_>, k: usize, w: usize, "
                    "scoring: &Scoring<F>, matches: &[(u32, u32)], ) -> Band",
             params=P_XYKWS + [("matches", "&[(u32, u32)]")], ret="Band", abstract=[SD],
             abs_calls=SDPKPP_CALL, theorem="RbV.Thm.GenSrcBand.createWithMatches_eq_model"),
        dict(name="Band::create", lean="create", callkey="Band::create",
             header="fn create<F: MatchFunc>( x: TextSlice<'_>, y: TextSlice<'_>, k: usize, w: usize, scoring: &Scoring<F>, ) -> Band",
             params=P_XYKWS, ret="Band", abstract=[SD, FKM],
             abs_calls={"sparse::find_kmer_matches": dict(lean="findKmerMatches", params=["TextSlice", "TextSlice", "usize"],
                                                          ret="Vec<(u32, u32)>", monadic=True)},
             theorem="RbV.Thm.GenSrcBand.create_eq_model"),
        dict(name="Band::create_with_prehash", lean="createWithPrehash", callkey="Band::create_with_prehash",
             header="fn create_with_prehash<F: MatchFunc>( x: TextSlice<'_>, y: TextSlice<'_>, k: usize, w: usize, "
                    "scoring: &Scoring<F>, y_kmer_hash: &HashMapFx<&[u8], Vec<u32>>, ) -> Band",
             params=P_XYKWS + [("y_kmer_hash", KHASH)], ret="Band", abstract=[SD, FS2],
             abs_calls={"sparse::find_kmer_matches_seq2_hashed": dict(lean="findSeq2Hashed", params=["TextSlice", KHASH, "usize"],
                                                                      ret="Vec<(u32, u32)>", monadic=True)},
             theorem="RbV.Thm.GenSrcBandGlue.createWithPrehash_eq"),
        dict(name="Aligner::degenerate_alignment", lean="degenerateAlignment", callkey="Aligner::degenerate_alignment",
             self="Aligner", generics={"Dp": "Dp"}, header="fn degenerate_alignment(&self, m: usize, n: usize) -> Alignment",
             params=[("m", "usize"), ("n", "usize")], ret="Alignment",
             locals={"operations": "Vec<AlignmentOperation>", "xstart": "usize", "xend": "usize", "ystart": "usize",
                     "yend": "usize", "score": "i32"},
             theorem="RbV.Thm.GenSrcBandGlue.degenerate_eq_model"),
        # `compute_alignment`: budget guard and empty-input test; the DP itself (from `self.traceback.init(m, n);` on) is the
        # abstract parameter `fillTrace`
        dict(name="Aligner::compute_alignment", lean="computeAlignment", callkey="Aligner::compute_alignment", self="Aligner",
             self_mut=True, generics={"Dp": "Dp"},
             header="fn compute_alignment(&mut self, x: TextSlice<'_>, y: TextSlice<'_>) -> Alignment",
             params=[("x", "TextSlice"), ("y", "TextSlice")], ret="Alignment", abstract=[FT],
             rest_call=dict(marker="self.traceback.init(m, n);", lean="fillTrace", args=["self", "x", "y", "m", "n"]),
             theorem="RbV.Thm.GenSrcBand.computeAlignment_guard_eq"),
        # the nine entry points
        dict(name="Aligner::custom", lean="custom", callkey="Aligner::custom", self="Aligner", self_mut=True, generics={"Dp": "Dp"},
             header="pub fn custom(&mut self, x: TextSlice<'_>, y: TextSlice<'_>) -> Alignment",
             params=[("x", "TextSlice"), ("y", "TextSlice")], ret="Alignment", abstract=[SD, FKM, FT]),
        dict(name="Aligner::custom_with_prehash", lean="customWithPrehash", callkey="Aligner::custom_with_prehash", self="Aligner",
             self_mut=True, generics={"Dp": "Dp"},
             header="pub fn custom_with_prehash( &mut self, x: TextSlice<'_>, y: TextSlice<'_>, "
                    "y_kmer_hash: &HashMapFx<&[u8], Vec<u32>>, ) -> Alignment",
             params=[("x", "TextSlice"), ("y", "TextSlice"), ("y_kmer_hash", KHASH)], ret="Alignment", abstract=[SD, FS2, FT]),
        dict(name="Aligner::custom_with_matches", lean="customWithMatches", callkey="Aligner::custom_with_matches", self="Aligner",
             self_mut=True, generics={"Dp": "Dp"},
             header="pub fn custom_with_matches( &mut self, x: TextSlice<'_>, y: TextSlice<'_>, matches: &[(u32, u32)], ) -> Alignment",
             params=[("x", "TextSlice"), ("y", "TextSlice"), ("matches", "&[(u32, u32)]")], ret="Alignment", abstract=[SD, FT]),
        dict(name="Aligner::custom_with_expanded_matches", lean="customWithExpandedMatches",
             callkey="Aligner::custom_with_expanded_matches", self="Aligner", self_mut=True, generics={"Dp": "Dp"},
             header="pub fn custom_with_expanded_matches( &mut self, x: TextSlice<'_>, y: TextSlice<'_>, matches: Vec<(u32, u32)>, "
                    "allowed_mismatches: Option<usize>, use_lcskpp_union: bool, ) -> Alignment",
             params=[("x", "TextSlice"), ("y", "TextSlice"), ("matches", "Vec<(u32, u32)>"),
                     ("allowed_mismatches", "Option<usize>"), ("use_lcskpp_union", "bool")], ret="Alignment",
             abstract=[SD, EXP, UN, FT],
             abs_calls={"sparse::expand_kmer_matches": dict(lean="expandKmerMatches", ret="Vec<(u32, u32)>", monadic=True,
                                                            params=["TextSlice", "TextSlice", "usize", "&[(u32, u32)]", "usize"]),
                        "sparse::sdpkpp_union_lcskpp_path": dict(lean="unionPath", ret="Vec<usize>", monadic=True,
                                                                 params=["&[(u32, u32)]", "usize", "u32", "i32", "i32"])}),
        dict(name="Aligner::custom_with_match_path", lean="customWithMatchPath", callkey="Aligner::custom_with_match_path",
             self="Aligner", self_mut=True, generics={"Dp": "Dp"},
             header="pub fn custom_with_match_path( &mut self, x: TextSlice, y: TextSlice, matches: &[(u32, u32)], "
                    "path: &[usize], ) -> Alignment",
             params=[("x", "TextSlice"), ("y", "TextSlice"), ("matches", "&[(u32, u32)]"), ("path", "&[usize]")],
             ret="Alignment", abstract=[FT]),
    ] + [
        dict(name="Aligner::" + nm, lean=ln, callkey="Aligner::" + nm, self="Aligner", self_mut=True, generics={"Dp": "Dp"},
             header="pub fn %s(&mut self, x: TextSlice<'_>, y: TextSlice<'_>) -> Alignment" % nm,
             params=[("x", "TextSlice"), ("y", "TextSlice")], ret="Alignment", abstract=[SD, FKM, FT, FC], abs_calls=FC_CALL)
        for nm, ln in (("global", "globalMode"), ("semiglobal", "semiglobalMode"), ("local", "localMode"))
    ] + [
        dict(name="Aligner::semiglobal_with_prehash", lean="semiglobalWithPrehash", callkey="Aligner::semiglobal_with_prehash",
             self="Aligner", self_mut=True, generics={"Dp": "Dp"},
             header="pub fn semiglobal_with_prehash( &mut self, x: TextSlice<'_>, y: TextSlice<'_>, "
                    "y_kmer_hash: &HashMapFx<&[u8], Vec<u32>>, ) -> Alignment",
             params=[("x", "TextSlice"), ("y", "TextSlice"), ("y_kmer_hash", KHASH)], ret="Alignment",
             abstract=[SD, FS2, FT, FC], abs_calls=FC_CALL),
    ])


# --- the per-column loop of `compute_alignment` (task step 3): a unit of its own, so that a restructuring of the DP (seeded
# C02-H4: `rotate_columns()`) makes only this unit unavailable, not the band construction
TB_CONSTS = {n: ("u16", "RbV.Gen.TbCodes." + l) for n, l in (
    ("TB_START", "tbStart"), ("TB_INS", "tbIns"), ("TB_DEL", "tbDel"), ("TB_SUBST", "tbSubst"), ("TB_MATCH", "tbMatch"),
    ("TB_XCLIP_PREFIX", "tbXclipPrefix"), ("TB_XCLIP_SUFFIX", "tbXclipSuffix"), ("TB_YCLIP_PREFIX", "tbYclipPrefix"),
    ("TB_YCLIP_SUFFIX", "tbYclipSuffix"))}
DP_STRUCTS = dict(BAND_STRUCTS)
DP_STRUCTS["Aligner"] = [("S", "Vec<Vec<i32>>"), ("I", "Vec<Vec<i32>>"), ("D", "Vec<Vec<i32>>"), ("Lx", "Vec<usize>"),
                         ("Ly", "Vec<usize>"), ("Sn", "Vec<i32>"), ("traceback", "Traceback"), ("scoring", "Scoring"),
                         ("band", "Band"), ("k", "usize"), ("w", "usize")]
DP_STRUCTS["TracebackCell"] = [("i", "u16"), ("d", "u16"), ("s", "u16")]
CELL_T = "Nat × Nat × Nat"
DP_ABS = [("matchFn", "Nat → Nat → Int"), ("tbGet", "Tbm → Nat → Nat → " + CELL_T), ("tbSet", "Tbm → Nat → Nat → " + CELL_T + " → Tbm")]
DP_CALLS = {"self.scoring.match_fn.score": dict(lean="matchFn", params=["u8", "u8"], ret="i32", monadic=False),
            "Tbm::get": dict(lean="tbGet", params=["usize", "usize"], ret="TracebackCell", monadic=False),
            "Tbm::get_mut": dict(lean="tbGet", params=["usize", "usize"], ret="TracebackCell", monadic=False),
            "Tbm::set": dict(lean="tbSet", params=["usize", "usize", "TracebackCell"], self_mut=True, monadic=False)}
DP_GEN = {"Traceback": "Tbm"}

unit(
    name="SrcBandedFill", props="property C02", file=BANDED, imports=["RbV.Gen.Limits", "RbV.Gen.TbCodes"],
    structs=DP_STRUCTS, consts=dict(BAND_CONSTS, **TB_CONSTS),
    pinned_items=["struct Band { rows: usize, cols: usize, ranges: Vec<Range<usize>>, }",
                  "pub struct Aligner<F: MatchFunc> { S: [Vec<i32>; 2], I: [Vec<i32>; 2], D: [Vec<i32>; 2], Lx: Vec<usize>, "
                  "Ly: Vec<usize>, Sn: Vec<i32>, traceback: Traceback, scoring: Scoring<F>, band: Band, k: usize, w: usize, }"],
    functions=[
        dict(name="Aligner::gap_open_after_yclip", lean="gapOpenAfterYclip", callkey="Aligner::gap_open_after_yclip",
             self="Aligner", generics=DP_GEN, abstract=DP_ABS, abs_calls=DP_CALLS,
             header="fn gap_open_after_yclip(&self, i: usize, n: usize) -> i32", params=[("i", "usize"), ("n", "usize")], ret="i32"),
        dict(name="Aligner::gap_open_after_xclip", lean="gapOpenAfterXclip", callkey="Aligner::gap_open_after_xclip",
             self="Aligner", generics=DP_GEN, abstract=DP_ABS, abs_calls=DP_CALLS,
             header="fn gap_open_after_xclip(&self, m: usize, j: usize) -> i32", params=[("m", "usize"), ("j", "usize")], ret="i32"),
        # the statements `for j in 1..=n { … }` of `compute_alignment` (everything between the two markers), read as a method
        # `fill_columns(&mut self, x, y, m, n)`
        dict(name="Aligner::compute_alignment[for j in 1..=n]", key="compute_alignment_columns", lean="fillColumns",
             callkey="Aligner::fill_columns", self="Aligner", self_mut=True, generics=DP_GEN, abstract=DP_ABS, abs_calls=DP_CALLS,
             header="fn compute_alignment(&mut self, x: TextSlice<'_>, y: TextSlice<'_>) -> Alignment",
             region=("for j in 1..=n {", "for i in 0..=m {"), named_ifs="loops",
             params=[("x", "TextSlice"), ("y", "TextSlice"), ("m", "usize"), ("n", "usize")],
             locals={"best_i_score": "i32", "best_d_score": "i32"},
             theorem="RbV.Thm.GenSrcBandedFill.cell_values_eq_model"),
    ])


# ================================================================================================== self-test

SELFTEST_RS = r"""
struct Grid {
    rows: usize,
    spans: Vec<Range<usize>>,
}

impl Grid {
    fn widen(&mut self, at: (u32, u32), w: usize) {
        let (r, c) = (at.0 as usize, at.1 as usize);
        if w == 0 {
            return;
        }
        let step: usize = 2 * w;
        let mut i = r + step;
        let mut j = c;
        loop {
            if j == 0 {
                break;
            }
            j -= 1;
            i -= 1;
            self.spans[j].end = max(self.spans[j].end, min(i, self.rows));
        }
        let tag = match r.cmp(&c) {
            Ordering::Less => 1,
            Ordering::Greater => self.rows,
            Ordering::Equal => 0,
        };
        for j in 0..self.spans.len() {
            self.spans[j].start = min(self.spans[j].start, tag);
        }
    }

    fn twice(&mut self, at: (u32, u32), w: usize) -> usize {
        self.widen(at, w);
        let prev: Option<usize> = if w > 1 { Some(w) } else { None };
        if let Some(p) = prev {
            self.widen(at, p - 1);
        }
        self.spans.len()
    }

    fn fresh(n: usize) -> Self {
        let mut g = Grid { rows: n, spans: vec![n..0; n] };
        g.spans.resize(n + 1, 0..n);
        g
    }
}
"""

SELFTEST_UNIT = dict(
    name="SrcSelfTestBand", props="self-test", file="src/selftest.rs",
    structs={"Grid": [("rows", "usize"), ("spans", "Vec<Range<usize>>")]},
    pinned_items=["struct Grid { rows: usize, spans: Vec<Range<usize>>, }"],
    functions=[
        dict(name="widen", lean="widen", callkey="Grid::widen", self="Grid", self_mut=True,
             header="fn widen(&mut self, at: (u32, u32), w: usize)", params=[("at", "(u32, u32)"), ("w", "usize")],
             fuel=["{j} + 1"], let_holes=["step"]),
        dict(name="twice", lean="twice", callkey="Grid::twice", self="Grid", self_mut=True,
             header="fn twice(&mut self, at: (u32, u32), w: usize) -> usize", params=[("at", "(u32, u32)"), ("w", "usize")],
             ret="usize"),
        dict(name="fresh", lean="fresh", callkey="Grid::fresh", header="fn fresh(n: usize) -> Self", self_type="Grid",
             params=[("n", "usize")], ret="Grid"),
    ])

SELFTEST_REFUSED = [
    ("loop { n -= 1; }", "fuel"),
    ("loop { if n == 0 { break; } else { n -= 1; } }", "fuel|`break`"),
    ("for i in 0..n { if i == 3 { break; } }", "`break`"),
    ("let c = |a: usize| a + 1;", "closure"),
    ("let t = match n.cmp(&n) { Ordering::Less => 1usize, _ => 2usize };", "arm of a `match` on `.cmp\\(\\)`"),
    ("self.rows = self.rows.pow(2);", "method `.pow"),
    ("self.spans[0].middle = 1;", "no field `middle`"),
    ("let q: usize = n + 1; let step: usize = q + self.rows;", "is not a parameter"),
    ("self.shrink(n);", "method call `.shrink"),
]


def selftest(with_lean):
    text, _ = translate_unit(sp._FakeSrc(SELFTEST_RS), SELFTEST_UNIT, sp._fail)
    text2, _ = translate_unit(sp._FakeSrc(SELFTEST_RS), SELFTEST_UNIT, sp._fail)
    assert text == text2, "translation is not deterministic"
    n_ok = 0
    for stmt, why in SELFTEST_REFUSED:
        rs = "struct Grid { rows: usize, spans: Vec<Range<usize>>, }\nfn f(&mut self, n: usize) {\nlet mut n = n;\n%s\n}\n" % stmt
        u = dict(name="SrcRefused", props="self-test", file="src/selftest.rs", structs=SELFTEST_UNIT["structs"],
                 functions=[dict(name="f", lean="f", callkey="Grid::f", self="Grid", self_mut=True,
                                 header="fn f(&mut self, n: usize)", params=[("n", "usize")], let_holes=["step"])])
        try:
            translate_unit(sp._FakeSrc(rs), u, sp._fail)
        except sp._Fail as e:
            if not re.search(why, str(e)):
                print("selftest: `%s` refused for another reason: %s" % (stmt, e))
                return 1
            n_ok += 1
            continue
        print("selftest: `%s` was not refused" % stmt)
        return 1
    print("selftest: 3 synthetic functions translated (deterministic), %d non-subset snippets refused" % n_ok)
    if with_lean:
        import subprocess
        lean_dir = os.path.join(os.path.dirname(os.path.dirname(os.path.abspath(__file__))), "lean")
        wd = os.path.join(os.path.dirname(lean_dir), ".work")
        os.makedirs(wd, exist_ok=True)
        path = os.path.join(wd, "selftest_genband_%d.lean" % os.getpid())
        checks = """
open RbV RbV.Rs RbV.Gen.SrcSelfTestBand
#guard fresh 2 = Res.ok (2, [(2, 0), (2, 0), (0, 2)])
#guard widen (3, [(3, 0), (3, 0), (3, 0)]) (1, 2) 1 = Res.ok (3, [(1, 1), (1, 2), (1, 0)])
#guard widen (3, [(3, 0), (3, 0), (3, 0)]) (1, 2) 0 = Res.ok (3, [(3, 0), (3, 0), (3, 0)])
#guard widen (3, [(3, 0)]) (1, 2) 1 = Res.panic
#guard twice (3, [(3, 0), (3, 0), (3, 0)]) (2, 2) 2 = Res.ok (3, (3, [(0, 3), (0, 3), (0, 0)]))
"""
        with open(path, "w") as f:
            f.write(text + checks)
        p = subprocess.run(["lake", "env", "lean", path], cwd=lean_dir, stdout=subprocess.PIPE, stderr=subprocess.STDOUT, text=True)
        os.remove(path)
        if p.returncode != 0:
            print(p.stdout[-3000:])
            print("selftest: the translated functions do not compile / evaluate as expected")
            return 1
        print("selftest: translated text compiles, 5 evaluations as expected")
    return 0


def main():
    if "--selftest" in sys.argv:
        sys.exit(selftest("--lean" in sys.argv))
    if len(sys.argv) >= 2:
        sys.path.insert(0, os.path.dirname(os.path.abspath(__file__)))
        import gen_tables as gt
        repo = sys.argv[2] if len(sys.argv) > 2 else "/repo"
        global REPO
        REPO = repo
        u = UNITS[sys.argv[1]]
        text, _ = translate_unit(gt.Src(repo, u["file"]), u, gt.fail)
        sys.stdout.write(text)
        return
    print(__doc__)


if __name__ == "__main__":
    main()
