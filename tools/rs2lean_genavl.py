#!/usr/bin/env python3
"""Dialect "avl" of the Rust→Lean translator (builder genavl; docs/notes/GEN.md, "Dialect avl: recursive structures").

Own module (docs/BUILDER.md): the tokenizer, the AST and the parser are the classes of tools/rs2lean_cf.py /
rs2lean_cfbase.py (imported, `AvlParser` subclasses `IoParser`); the translation itself (`TreeFn`) is a small
self-contained translator in continuation style for code that works on a **recursive owned structure**:

  types        the `struct`s the unit lists are emitted as Lean `structure`s generated from their declarations in the
               source (`struct Node { …, left: Option<Box<Node<N, D>>>, … }` becomes a recursive structure with
               `left : Option Node`); `Box<T>`, `&T`, `&mut T` are `T`; `Option<T>` = `Option`, `Vec<T>` = `List` (top = last);
               `Interval<N>` = `(start, end)`; generic `N`, `D` are read at `Int` (as the unit SrcIit does), `i64` = `Int`
               with checked `+` / `-` / `.abs()` (`Rs.iadd 64`, `Rs.isub 64`, `Rs.iabs 64`)
  functions    `&mut self` / `&mut` parameters are returned: `def f … (self : S) (params…) : Res (Ret × S × muts…)`
  mutation     every variable is a value; `x.f = e` re-binds `x := { x with f := e }`.  A variable that is a `&mut` into a
               place (`let r = self.right.as_mut().expect(..)`, `if let Some(ref mut son) = self.left`, `match child
               { Some(son) => … }`, `let child = if c { &mut self.left } else { &mut self.right }`) remembers the place and
               every update of the variable is written back at once (`self := { self with right := some r }`)
  calls        methods / functions of the unit (also with `&mut` arguments: `swap_interval_data(self, &mut *new_root)`),
               `mem::swap` on two places, `o.take()`, `o.unwrap()` / `.expect(..)` (`Rs.expect`), `o.as_ref().map_or(d, |n| e)`
               (`Option.elim`), `cmp::max`, `.clone()`, `.into()` (identity: `Into<Interval<N>>` is read at `Interval<N>`),
               `Box::new`, `Some`, `None`, `vec![…]`, `v.push(e)`, `v.pop()` (`Rs.vecPop`), struct literals
  control      `if` / `if let` / `match` on an `Option` (statement or `let` initialiser, arms may `return`), block
               expressions, a final `loop { … }` whose only exits are `return`s (recursive helper on fuel), **recursion**
               (a method that calls itself: recursion on the fuel argument; callers pass a ghost `fuel`)
  holes        `cond_hole`: the condition of the first `if` of the function is emitted as `<fn>_<name>` and the function
               (and its callers) take it as a parameter (seeded change C07-H1: the tie-break of `Node::insert`)
Anything else raises `Unsupported` → the unit is `translation_unavailable` (soft).
"""
import sys, os, re

sys.path.insert(0, os.path.dirname(os.path.abspath(__file__)))
import rs2lean_cfbase as rb
import rs2lean_cf as cf

N, Unsupported, tokenize = rb.N, rb.Unsupported, rb.tokenize
LEAN_KEYWORDS = set(rb.LEAN_KEYWORDS) - {"fuel"} | {"max", "min", "id", "default"}


# ================================================================================================== parser

class AvlParser(cf.IoParser):
    def pattern(self):
        x = self.peek()
        if x.kind == "id" and x.text == "ref":
            self.next()
            if self.at("mut"):
                self.next()
            return N("pid", x.pos, name=self.ident().text, mut=True)
        if x.kind == "id" and x.text == "_":
            self.next()
            return N("pid", x.pos, name="_", mut=False)
        return cf.IoParser.pattern(self)

    def stmt0(self):
        x = self.peek()
        if x.kind == "id" and x.text == "loop":
            self.next()
            return N("loop", x.pos, body=self.block())
        return cf.IoParser.stmt0(self)

    def match_(self):
        x = self.expect("match")
        scrut = self.expr(no_struct=True)
        self.expect("{")
        arms = []
        while not self.at("}"):
            pats = [self.match_pat()]
            if self.at("|"):
                raise Unsupported("`match` arm with alternatives", self.peek().pos)
            if self.at("if"):
                raise Unsupported("`match` arm with a guard", self.peek().pos)
            self.expect("=>")
            if self.at("{"):
                body = self.block()
            elif self.at("return"):
                r = self.next()
                e = None if (self.at(",") or self.at("}")) else self.expr()
                body = N("block", r.pos, stmts=[N("return", r.pos, e=e)], tail=None)
            else:
                e = self.expr()
                if self.peek().kind == "op" and self.peek().text in rb.ASSIGN_OPS:
                    op = self.next()
                    r = self.expr()
                    body = N("block", e.pos, stmts=[N("assign", e.pos, lhs=e, op=rb.ASSIGN_OPS[op.text], rhs=r)], tail=None)
                else:
                    body = N("block", e.pos, stmts=[], tail=e)
            if self.at(","):
                self.next()
            arms.append((pats, body))
        self.expect("}")
        return N("match", x.pos, scrut=scrut, arms=arms)


# ================================================================================================== types

# ("i64",) ("N",) ("D",) ("bool",) ("unit",) ("interval",) ("lit",) ("cmp",) ("opt", t) ("vec", t) ("struct", name)
I64, TN, TD, BOOL, UNIT, IVL, LIT, CMP = ("i64",), ("N",), ("D",), ("bool",), ("unit",), ("interval",), ("lit",), ("cmp",)


def lean_ty(t):
    k = t[0]
    if k in ("i64", "N", "D", "lit"):
        return "Int"
    if k in ("bool", "cmp"):
        return "Bool"
    if k == "unit":
        return "Unit"
    if k == "interval":
        return "(Int × Int)"
    if k == "opt":
        return "(Option %s)" % lean_ty(t[1]) if t[1] is not None else "(Option _)"
    if k == "vec":
        return "(List %s)" % lean_ty(t[1]) if t[1] is not None else "(List _)"
    if k == "struct":
        return t[1]
    raise Unsupported("type %r" % (t,))


def ty_eq(a, b):
    if a is None or b is None:
        return True
    if a == b:
        return True
    ints = ("i64", "lit")
    if a[0] in ints and b[0] in ints:
        return True
    if a[0] in ("N", "D", "lit") and b[0] in ("N", "D", "lit"):
        return a[0] == b[0] or "lit" in (a[0], b[0])
    if a[0] == b[0] and a[0] in ("opt", "vec"):
        return ty_eq(a[1], b[1])
    if {a[0], b[0]} == {"bool", "cmp"}:
        return True
    return False


class TyParser:
    """types of headers and struct declarations (token level: lifetimes, `&`, `mut`, `Box`, generic arguments)"""

    def __init__(self, toks, generics, self_ty, structs):
        self.t, self.i, self.generics, self.self_ty, self.structs = toks, 0, generics, self_ty, structs

    def peek(self):
        return self.t[min(self.i, len(self.t) - 1)]

    def at(self, s):
        x = self.peek()
        return x.kind in ("op", "id") and x.text == s

    def next(self):
        x = self.t[self.i]
        self.i += 1
        return x

    def ty(self):
        x = self.peek()
        if self.at("&"):
            self.next()
            if self.peek().kind == "life":
                self.next()
            is_mut = False
            if self.at("mut"):
                self.next()
                is_mut = True
            t = self.ty()
            self.last_ref_mut = is_mut
            return t
        if self.at("("):
            self.next()
            if self.at(")"):
                self.next()
                return UNIT
            raise Unsupported("tuple type", x.pos)
        nm = self.next()
        if nm.kind != "id":
            raise Unsupported("type starting with `%s`" % nm.text, nm.pos)
        args = []
        if self.at("<"):
            self.next()
            while not self.at(">") and not self.at(">>"):
                if self.peek().kind == "life":
                    self.next()
                else:
                    args.append(self.ty())
                if self.at(","):
                    self.next()
            if self.at(">>"):
                # split the token: leave one `>` for the enclosing list
                tk = self.t[self.i]
                self.t[self.i] = rb.Tok("op", ">", tk.pos)
            else:
                self.next()
        name = nm.text
        if name in self.generics:
            return TyParser(tokenize(self.generics[name], nm.pos)[:-1], {}, self.self_ty, self.structs).ty()
        if name == "Self":
            if self.self_ty is None:
                raise Unsupported("`Self` outside an impl of the spec", nm.pos)
            return ("struct", self.self_ty)
        if name == "i64":
            return I64
        if name == "bool":
            return BOOL
        if name == "N":
            return TN
        if name == "D":
            return TD
        if name == "Interval":
            return IVL
        if name == "Box" and len(args) == 1:
            return args[0]
        if name == "Option" and len(args) == 1:
            return ("opt", args[0])
        if name == "Vec" and len(args) == 1:
            return ("vec", args[0])
        if name in self.structs:
            return ("struct", name)
        raise Unsupported("type `%s`" % name, nm.pos)


# ================================================================================================== code trees

def atom(s):
    s = s.strip()
    if re.fullmatch(r"[\w.'«»]+", s) or (s[:1] in "([{" and rb.matching_close(s) == len(s) - 1):
        return s
    return "(" + s + ")"


def emit_tree(tree, ind, out):
    """tree = ("seq", items, final) | ("pure", text) | ("call", text) | ("if", cond, t, e) | ("match", scrut, arms)"""
    pad = "  " * ind
    k = tree[0]
    if k == "seq":
        for it in tree[1]:
            if it[0] == "let":
                out.append("%slet %s := %s" % (pad, it[1], it[2]))
            elif it[0] == "bind" and isinstance(it[2], str):
                out.append("%slet %s ← %s" % (pad, it[1], it[2]))
            else:
                out.append("%slet %s ← (do" % (pad, it[1]))
                emit_tree(it[2], ind + 1, out)
                out[-1] += ")"
        emit_tree(tree[2], ind, out)
    elif k == "pure":
        out.append("%spure %s" % (pad, atom(tree[1])))
    elif k == "call":
        out.append("%s%s" % (pad, tree[1]))
    elif k == "if":
        out.append("%sif %s then do" % (pad, tree[1]))
        emit_tree(tree[2], ind + 1, out)
        out.append("%selse do" % pad)
        emit_tree(tree[3], ind + 1, out)
    elif k == "match":
        out.append("%s(match %s with" % (pad, tree[1]))
        for pat, t in tree[2]:
            out.append("%s| %s => do" % (pad, pat))
            emit_tree(t, ind + 1, out)
        out[-1] += ")"
    else:
        raise AssertionError(k)


def tup(xs):
    xs = list(xs)
    if not xs:
        return "()"
    if len(xs) == 1:
        return xs[0]
    return "(" + ", ".join(xs) + ")"


def tup_ty(xs):
    xs = list(xs)
    if not xs:
        return "Unit"
    if len(xs) == 1:
        return xs[0]
    return "(" + " × ".join(xs) + ")"


# ================================================================================================== signatures

class V:
    def __init__(self, lean, ty, alias=None):
        self.lean, self.ty, self.alias = lean, ty, alias


class Sig:
    def __init__(self, fspec, unit, structs):
        self.spec, self.name, self.lean = fspec, fspec["name"], fspec["lean"]
        self.self_ty = fspec.get("self_ty")
        self.fuel = bool(fspec.get("fuel"))
        self.rec = bool(fspec.get("recursive"))
        self.extra = []           # [(lean name, lean type)] hole parameters (own + inherited from callees)
        toks = tokenize(fspec["header"], 0)[:-1]
        i = 0
        while toks[i].text != "fn":
            i += 1
        i += 2
        if toks[i].text == "<":
            depth = 0
            while True:
                if toks[i].text == "<":
                    depth += 1
                elif toks[i].text == ">":
                    depth -= 1
                elif toks[i].text == ">>":
                    depth -= 2
                i += 1
                if depth <= 0:
                    break
        if toks[i].text != "(":
            raise Unsupported("header of fn %s" % self.name)
        i += 1
        generics = dict(unit.get("generics", {}))
        generics.update(fspec.get("generics", {}))
        self.self_kind, self.params = None, []
        tp = TyParser(toks, generics, self.self_ty, structs)
        tp.i = i
        while not tp.at(")"):
            if tp.at("&") or tp.at("self") or (tp.at("mut") and tp.t[tp.i + 1].text == "self"):
                save = tp.i
                kind = "val"
                if tp.at("&"):
                    tp.next()
                    kind = "ref"
                    if tp.peek().kind == "life":
                        tp.next()
                if tp.at("mut"):
                    tp.next()
                    kind = "mut" if kind == "ref" else "val"
                if tp.at("self"):
                    tp.next()
                    self.self_kind = kind
                    if tp.at(","):
                        tp.next()
                    continue
                tp.i = save
            if tp.at("mut"):
                tp.next()
            nm = tp.next()
            if nm.kind != "id" or not tp.at(":"):
                raise Unsupported("parameter list of fn %s" % self.name, nm.pos)
            tp.next()
            is_ref_mut = tp.at("&") and (tp.t[tp.i + 1].text == "mut" or (tp.t[tp.i + 1].kind == "life" and tp.t[tp.i + 2].text == "mut"))
            t = tp.ty()
            self.params.append((nm.text, t, is_ref_mut))
            if tp.at(","):
                tp.next()
        tp.next()
        self.ret = UNIT
        if tp.at("->"):
            tp.next()
            self.ret = tp.ty()
        if self.self_kind is not None and self.self_ty is None:
            raise Unsupported("fn %s takes self but the spec gives no self_ty" % self.name)

    def outs(self):
        """names of what is handed back besides the return value"""
        return (["self"] if self.self_kind == "mut" else []) + [p for p, _, m in self.params if m]

    def out_tys(self):
        return ([("struct", self.self_ty)] if self.self_kind == "mut" else []) + [t for _, t, m in self.params if m]

    def res_ty(self):
        return "Res " + atom(tup_ty(([lean_ty(self.ret)] if self.ret != UNIT else []) + [lean_ty(t) for t in self.out_tys()]))


def lname(rust):
    return rust + "_" if rust in LEAN_KEYWORDS else rust


def struct_fields(src, name, generics, structs, fail_pos=None):
    ms = list(re.finditer(r"(?<![\w])struct\s+%s\s*(?:<[^{;]*>)?\s*\{" % re.escape(name), src.code))
    if len(ms) != 1:
        raise Unsupported("expected exactly one declaration `struct %s {…}`, found %d" % (name, len(ms)))
    start = ms[0].end() - 1
    depth, end = 0, None
    for i in range(start, len(src.code)):
        if src.code[i] == "{":
            depth += 1
        elif src.code[i] == "}":
            depth -= 1
            if depth == 0:
                end = i
                break
    toks = tokenize(src.code[start + 1:end], start + 1)[:-1]
    tp = TyParser(toks + [rb.Tok("eof", "", end)], generics, name, structs)
    fields = []
    while tp.peek().kind != "eof":
        if tp.at("pub"):
            tp.next()
            if tp.at("("):
                while not tp.at(")"):
                    tp.next()
                tp.next()
        nm = tp.next()
        if nm.kind != "id" or not tp.at(":"):
            raise Unsupported("field list of struct %s" % name, nm.pos)
        tp.next()
        fields.append((nm.text, tp.ty()))
        if tp.at(","):
            tp.next()
    return fields, src.code[ms[0].start():end + 1]


# ================================================================================================== translator

def strip(e):
    while e.kind == "paren" or (e.kind == "un" and e.op in ("&", "*")):
        e = e.e
    return e


def has_jump(n):
    found = []

    def f(x):
        if x.kind == "closure":
            return False
        if x.kind in ("return", "break", "continue", "try"):
            found.append(x)
    cf.walk(n, f)
    return bool(found)


class TreeFn:
    def __init__(self, unit, sig, sigs, structs, src):
        self.unit, self.sig, self.sigs, self.structs, self.src = unit, sig, sigs, structs, src
        self.tmpn, self.loopn = 0, 0
        self.tprefix = "t"
        self.touched, self.helpers, self.used = [], [], []
        self.hole = sig.spec.get("cond_hole")
        self.hole_used = False
        self.probe_tys = None

    def err(self, msg, node=None):
        raise Unsupported(msg, getattr(node, "pos", None))

    def tmp(self):
        self.tmpn += 1
        return "%s%d" % (self.tprefix, self.tmpn)

    # ------------------------------------------------------------------ places
    def place_of(self, e, env):
        e = strip(e)
        if e.kind == "var" and e.name in env:
            return (e.name, [])
        if e.kind == "field":
            p = self.place_of(e.e, env)
            if p is not None:
                return (p[0], p[1] + [e.name])
        return None

    def place_ty(self, place, env, node=None):
        t = env[place[0]].ty
        for f in place[1]:
            t = self.field_ty(t, f, node)
        return t

    def field_ty(self, t, f, node=None):
        if t == IVL and f in ("start", "end"):
            return TN
        if t[0] == "struct":
            for fn, ft in self.structs[t[1]]:
                if fn == f:
                    return ft
        self.err("no field `%s` on a value of type %r" % (f, t), node)

    def place_text(self, place, env):
        s = env[place[0]].lean
        t = env[place[0]].ty
        for f in place[1]:
            s = "%s.%s" % (atom(s), {"start": "1", "end": "2"}[f] if t == IVL else f)
            t = self.field_ty(t, f)
        return s

    def write_place(self, place, text, env, items, node=None):
        root, path = place
        v = env[root]
        if path:
            t = v.ty
            for f in path:
                if t == IVL:
                    self.err("assignment to a component of an interval", node)
                t = self.field_ty(t, f, node)

            def upd(base, fs):
                if len(fs) == 1:
                    return "{ %s with %s := %s }" % (base, fs[0], text)
                return "{ %s with %s := %s }" % (base, fs[0], upd("%s.%s" % (atom(base), fs[0]), fs[1:]))
            text = upd(v.lean, path)
        items.append(("let", v.lean, text))
        self.after_write(root, env, items, node)

    def after_write(self, root, env, items, node=None):
        """`root` has just been re-bound: record it, write it back to the place it borrows"""
        v = env[root]
        self.touched.append(v)
        if v.alias is None:
            return
        if v.alias[0] == "some":
            self.write_place(v.alias[1], "some " + atom(v.lean), env, items, node)
        elif v.alias[0] == "sel":
            _, c, pa, pb = v.alias
            if pa[0] != pb[0] or len(pa[1]) != 1 or len(pb[1]) != 1:
                self.err("a selected `&mut` between places of different variables", node)
            r = env[pa[0]]
            items.append(("let", r.lean, "if %s then { %s with %s := %s } else { %s with %s := %s }"
                          % (c, r.lean, pa[1][0], v.lean, r.lean, pb[1][0], v.lean)))
            self.after_write(pa[0], env, items, node)

    # ------------------------------------------------------------------ expressions
    def as_bool(self, t, ty, node=None):
        if ty == CMP:
            return "decide (%s)" % t
        if ty == BOOL:
            return t
        self.err("a boolean was expected", node)

    def as_cond(self, t, ty, node=None):
        if ty == CMP:
            return t
        if ty == BOOL:
            return "%s = true" % atom(t)
        self.err("a condition was expected", node)

    def ev_pure(self, e, env, what):
        items = []
        t, ty = self.ev(e, env, items)
        if items:
            self.err("%s with an effect (checked arithmetic, call, mutation)" % what, e)
        return t, ty

    def ev(self, e, env, items):
        k = e.kind
        if k == "paren":
            t, ty = self.ev(e.e, env, items)
            return atom(t), ty
        if k == "un" and e.op in ("&", "*"):
            return self.ev(e.e, env, items)
        if k == "un" and e.op == "!":
            t, ty = self.ev(e.e, env, items)
            return "!" + atom(self.as_bool(t, ty, e)), BOOL
        if k == "un" and e.op == "-" and e.e.kind == "lit":
            return "(-%d)" % e.e.v, LIT
        if k == "lit":
            return str(e.v), (I64 if e.suf == "i64" else LIT)
        if k == "blit":
            return ("true" if e.v else "false"), BOOL
        if k == "var":
            if e.name == "None":
                return "none", ("opt", None)
            if e.name in env:
                return env[e.name].lean, env[e.name].ty
            self.err("unknown variable `%s`" % e.name, e)
        if k == "field":
            t, ty = self.ev(e.e, env, items)
            fty = self.field_ty(ty, e.name, e)
            if ty == IVL:
                return "%s.%s" % (atom(t), {"start": "1", "end": "2"}[e.name]), fty
            return "%s.%s" % (atom(t), e.name), fty
        if k == "bin":
            return self.binary(e, env, items)
        if k == "call":
            return self.call(e, env, items)
        if k == "mcall":
            return self.mcall(e, env, items)
        if k == "struct":
            return self.struct_lit(e, env, items)
        if k == "macro":
            if e.name == "vec" and e.sep != ";":
                xs = [self.ev(a, env, items) for a in e.args]
                ety = xs[0][1] if xs else None
                return "[" + ", ".join(x[0] for x in xs) + "]", ("vec", ety)
            self.err("macro `%s!`" % e.name, e)
        if k in ("if", "iflet", "match", "blockx"):
            self.err("`%s` in the middle of an expression (only as a statement, a `let` initialiser or a tail value)"
                     % {"blockx": "block"}.get(k, k), e)
        self.err("expression `%s`" % k, e)

    def binary(self, e, env, items):
        op = e.op
        if op in ("&&", "||"):
            lt, lty = self.ev(e.l, env, items)
            n0 = len(items)
            rt, rty = self.ev(e.r, env, items)
            if len(items) != n0:
                self.err("`%s` whose right operand has an effect" % op, e)
            return "(%s %s %s)" % (self.as_bool(lt, lty, e.l), op, self.as_bool(rt, rty, e.r)), BOOL
        lt, lty = self.ev(e.l, env, items)
        rt, rty = self.ev(e.r, env, items)
        if op in ("<", "<=", ">", ">=", "==", "!="):
            if not ty_eq(lty, rty) or lty[0] not in ("i64", "N", "D", "lit"):
                self.err("comparison `%s` between %r and %r" % (op, lty, rty), e)
            return "%s %s %s" % (atom(lt), {"<=": "≤", ">=": "≥", "!=": "≠", "==": "="}.get(op, op), atom(rt)), CMP
        if op in ("+", "-"):
            if lty[0] in ("i64", "lit") and rty[0] in ("i64", "lit") and (lty == I64 or rty == I64):
                t = self.tmp()
                items.append(("bind", t, "Rs.%s 64 %s %s" % ({"+": "iadd", "-": "isub"}[op], atom(lt), atom(rt))))
                return t, I64
            self.err("arithmetic `%s` on %r and %r (only `i64` is translated)" % (op, lty, rty), e)
        self.err("operator `%s`" % op, e)

    def struct_lit(self, e, env, items):
        name = e.name
        if name == "Self":
            name = self.sig.self_ty
        if name not in self.structs:
            self.err("struct literal of `%s` (not a struct of the translation unit)" % e.name, e)
        given = {}
        for f, x in e.fields:
            given[f] = self.ev(x, env, items)
        decl = [f for f, _ in self.structs[name]]
        if sorted(given) != sorted(decl):
            self.err("struct literal of `%s` does not give exactly its fields" % name, e)
        for f, ft in self.structs[name]:
            if not ty_eq(given[f][1], ft):
                self.err("field `%s` of `%s`: %r for %r" % (f, name, given[f][1], ft), e)
        return "({ %s } : %s)" % (", ".join("%s := %s" % (f, given[f][0]) for f, _ in e.fields), name), ("struct", name)

    def find_sig(self, name, self_ty):
        for s in self.sigs:
            if s.name == name and s.self_ty == self_ty:
                return s
        return None

    def do_call(self, sig, recv, args, env, items, node):
        """recv: AST or None; emits the call, writes the `&mut` outputs back; returns (value, type)"""
        if sig.fuel and not self.sig.fuel:
            self.err("call of `%s`, which needs fuel, from a function without a fuel parameter (spec)" % sig.name, node)
        if sig not in self.used:
            self.used.append(sig)
        if len(args) != len(sig.params):
            self.err("call of `%s` with %d arguments" % (sig.name, len(args)), node)
        texts, out_places = [], []
        if sig.self_kind is not None:
            if recv is None:
                self.err("`%s` needs a receiver" % sig.name, node)
            rt, rty = self.ev(recv, env, items)
            if rty != ("struct", sig.self_ty):
                self.err("receiver of `%s` has type %r" % (sig.name, rty), node)
            texts.append(atom(rt))
            if sig.self_kind == "mut":
                p = self.place_of(recv, env)
                if p is None:
                    self.err("`&mut self` method `%s` on something that is not a place" % sig.name, node)
                out_places.append(p)
        for a, (pn, pt, pm) in zip(args, sig.params):
            at, aty = self.ev(a, env, items)
            if not ty_eq(aty, pt):
                self.err("argument `%s` of `%s`: %r for %r" % (pn, sig.name, aty, pt), a)
            texts.append(atom(at))
            if pm:
                p = self.place_of(a, env)
                if p is None:
                    self.err("`&mut` argument of `%s` that is not a place" % sig.name, a)
                out_places.append(p)
        extras = [n for n, _ in sig.extra]
        callee = " ".join([sig.lean] + extras + (["fuel"] if sig.fuel else []) + texts)
        pats, post = [], []
        val = "()"
        if sig.ret != UNIT:
            val = self.tmp()
            pats.append(val)
        for p in out_places:
            if not p[1]:
                pats.append(env[p[0]].lean)
                post.append((p, None))
            else:
                t = self.tmp()
                pats.append(t)
                post.append((p, t))
        items.append(("bind", tup(pats) if pats else "_", callee))
        for p, t in post:
            if t is None:
                self.after_write(p[0], env, items, node)
            else:
                self.write_place(p, t, env, items, node)
        return val, sig.ret

    def call(self, e, env, items):
        path = e.path
        name = path[-1]
        if path == ["Some"] and len(e.args) == 1:
            t, ty = self.ev(e.args[0], env, items)
            return "some " + atom(t), ("opt", ty)
        if path == ["Box", "new"] and len(e.args) == 1:
            return self.ev(e.args[0], env, items)
        if name in ("max", "min") and path[:-1] in ([], ["cmp"], ["std", "cmp"]) and len(e.args) == 2:
            a, aty = self.ev(e.args[0], env, items)
            b, bty = self.ev(e.args[1], env, items)
            if not ty_eq(aty, bty) or aty[0] not in ("i64", "N", "lit"):
                self.err("`%s` on %r and %r" % (name, aty, bty), e)
            return "%s %s %s" % (name, atom(a), atom(b)), (aty if aty != LIT else bty)
        if name == "swap" and path[:-1] in ([], ["mem"], ["std", "mem"]) and len(e.args) == 2:
            pa, pb = self.place_of(e.args[0], env), self.place_of(e.args[1], env)
            if pa is None or pb is None:
                self.err("`swap` of something that is not a place", e)
            if not ty_eq(self.place_ty(pa, env, e), self.place_ty(pb, env, e)):
                self.err("`swap` of places of different types", e)
            ta, tb = self.tmp(), self.tmp()
            items.append(("let", ta, self.place_text(pa, env)))
            items.append(("let", tb, self.place_text(pb, env)))
            self.write_place(pa, tb, env, items, e)
            self.write_place(pb, ta, env, items, e)
            return "()", UNIT
        if len(path) == 2 and path[0] == "Default" and name == "default" and not e.args:
            sig = self.find_sig("default", self.sig.self_ty)
            if sig is not None:
                return self.do_call(sig, None, [], env, items, e)
        if len(path) == 2:
            sty = self.sig.self_ty if path[0] == "Self" else path[0]
            sig = self.find_sig(name, sty)
            if sig is not None and sig.self_kind is None:
                return self.do_call(sig, None, e.args, env, items, e)
        if len(path) == 1:
            sig = self.find_sig(name, None)
            if sig is not None:
                return self.do_call(sig, None, e.args, env, items, e)
        self.err("call of `%s` (not a function of the translation unit)" % "::".join(path), e)

    def mcall(self, e, env, items):
        name, recv = e.name, e.recv
        if name in ("clone", "into", "as_ref", "borrow") and not e.args:
            return self.ev(recv, env, items)
        if name == "map_or" and len(e.args) == 2 and e.args[1].kind == "closure":
            rt, rty = self.ev(recv, env, items)
            if rty[0] != "opt":
                self.err("`map_or` on %r" % (rty,), e)
            d, dty = self.ev_pure(e.args[0], env, "default of `map_or`")
            cl = e.args[1]
            if len(cl.params) != 1 or cl.params[0].kind != "pid" or cl.body.stmts or cl.body.tail is None:
                self.err("closure of `map_or` (only `|x| expression`)", cl)
            env2 = dict(env)
            pn = lname(cl.params[0].name)
            env2[cl.params[0].name] = V(pn, rty[1])
            b, bty = self.ev_pure(cl.body.tail, env2, "closure of `map_or`")
            if not ty_eq(dty, bty):
                self.err("`map_or`: %r and %r" % (dty, bty), e)
            if bty == CMP:
                b, bty = self.as_bool(b, bty), BOOL
            return "Option.elim %s %s (fun %s => %s)" % (atom(rt), atom(d), pn, b), (bty if bty != LIT else dty)
        if name == "take" and not e.args:
            p = self.place_of(recv, env)
            if p is None or self.place_ty(p, env, e)[0] != "opt":
                self.err("`take()` on something that is not an `Option` place", e)
            t = self.tmp()
            items.append(("let", t, self.place_text(p, env)))
            ty = self.place_ty(p, env, e)
            self.write_place(p, "none", env, items, e)
            return t, ty
        if name in ("unwrap", "expect") and len(e.args) <= 1:
            rt, rty = self.ev(recv, env, items)
            if rty[0] != "opt":
                self.err("`%s` on %r" % (name, rty), e)
            t = self.tmp()
            items.append(("bind", t, "Rs.expect " + atom(rt)))
            return t, rty[1]
        if name in ("is_some", "is_none") and not e.args:
            rt, rty = self.ev(recv, env, items)
            if rty[0] != "opt":
                self.err("`%s` on %r" % (name, rty), e)
            return "%s.%s" % (atom(rt), {"is_some": "isSome", "is_none": "isNone"}[name]), BOOL
        if name == "abs" and not e.args:
            rt, rty = self.ev(recv, env, items)
            if rty != I64:
                self.err("`abs` on %r" % (rty,), e)
            t = self.tmp()
            items.append(("bind", t, "Rs.iabs 64 " + atom(rt)))
            return t, I64
        if name == "pop" and not e.args:
            p = self.place_of(recv, env)
            if p is None or self.place_ty(p, env, e)[0] != "vec":
                self.err("`pop()` on something that is not a `Vec` place", e)
            ty = self.place_ty(p, env, e)
            t, t2 = self.tmp(), self.tmp()
            items.append(("let", "(%s, %s)" % (t, t2), "Rs.vecPop " + atom(self.place_text(p, env))))
            self.write_place(p, t2, env, items, e)
            return t, ("opt", ty[1])
        if name == "push" and len(e.args) == 1:
            p = self.place_of(recv, env)
            if p is None or self.place_ty(p, env, e)[0] != "vec":
                self.err("`push` on something that is not a `Vec` place", e)
            at, aty = self.ev(e.args[0], env, items)
            if not ty_eq(aty, self.place_ty(p, env, e)[1]):
                self.err("`push` of %r" % (aty,), e)
            self.write_place(p, "%s ++ [%s]" % (atom(self.place_text(p, env)), at), env, items, e)
            return "()", UNIT
        # method of the translation unit
        p = self.place_of(recv, env)
        rty = self.place_ty(p, env, e) if p is not None else None
        if rty is None:
            n0 = len(items)
            _, rty = self.ev(recv, env, [])
        if rty is not None and rty[0] == "struct":
            sig = self.find_sig(name, rty[1])
            if sig is not None and sig.self_kind is not None:
                return self.do_call(sig, recv, e.args, env, items, e)
        self.err("method `.%s(…)` on %r" % (name, rty), e)

    # ------------------------------------------------------------------ statements
    def declare(self, env, name, ty, alias=None):
        v = V(lname(name), ty, alias)
        env[name] = v
        return v

    def block(self, ss, tail, env, k):
        return self.seq(ss, 0, tail, dict(env), k)

    def seq(self, ss, i, tail, env, k):
        items = []
        while i < len(ss):
            s = ss[i]
            if s.kind == "loop" and (i != len(ss) - 1 or tail is not None):
                self.err("`loop` that is not the last statement of the function", s)
            r = self.stmt(s, env, items, lambda env2, j=i + 1: self.seq(ss, j, tail, env2, k))
            if r is not None:
                return ("seq", items, r)
            i += 1
        if tail is None:
            return ("seq", items, k(env, "()", UNIT))
        if tail.kind in ("if", "iflet", "match", "blockx"):
            return ("seq", items, self.branching(tail, env, items, k))
        t, ty = self.ev(tail, env, items)
        return ("seq", items, k(env, t, ty))

    def stmt(self, s, env, items, rest):
        k = s.kind
        if k == "let":
            return self.let(s, env, items, rest)
        if k == "assign":
            if s.op is not None:
                self.err("compound assignment", s)
            p = self.place_of(s.lhs, env)
            if p is None:
                self.err("assignment to something that is not a place", s)
            t, ty = self.ev(s.rhs, env, items)
            if not ty_eq(ty, self.place_ty(p, env, s)):
                self.err("assignment of %r to a place of type %r" % (ty, self.place_ty(p, env, s)), s)
            self.write_place(p, t, env, items, s)
            return None
        if k == "exprs":
            if s.e.kind in ("if", "iflet", "match", "blockx"):
                return self.branching(s.e, env, items, lambda env2, t, ty: rest(env2))
            self.ev(s.e, env, items)
            return None
        if k in ("ifs", "matchs"):
            return self.branching(s.e, env, items, lambda env2, t, ty: rest(env2))
        if k == "blocks":
            return self.branching(N("blockx", s.pos, b=s.b), env, items, lambda env2, t, ty: rest(env2))
        if k == "return":
            if s.e is None:
                return self.k_ret(env, "()", UNIT)
            if s.e.kind in ("if", "iflet", "match", "blockx"):
                self.err("`return` of a branching expression", s)
            t, ty = self.ev(s.e, env, items)
            return self.k_ret(env, t, ty)
        if k == "loop":
            return self.loop(s, env, items)
        self.err("statement `%s`" % k, s)

    def let(self, s, env, items, rest):
        if s.pat.kind != "pid":
            self.err("`let` with a pattern", s)
        name, init = s.pat.name, s.init
        # `let r = P.as_mut().expect(..)`: a `&mut` into the content of the `Option` place P
        if init.kind == "mcall" and init.name in ("expect", "unwrap") and init.recv.kind == "mcall" \
                and init.recv.name == "as_mut" and not init.recv.args:
            p = self.place_of(init.recv.recv, env)
            if p is None or self.place_ty(p, env, s)[0] != "opt":
                self.err("`as_mut()` on something that is not an `Option` place", init)
            pt = self.place_ty(p, env, s)
            src_text = self.place_text(p, env)
            v = self.declare(env, name, pt[1], ("some", p))
            items.append(("bind", v.lean, "Rs.expect " + atom(src_text)))
            return None
        # `let c = if cond { &mut P1 } else { &mut P2 }`: a `&mut` selected between two places
        if init.kind == "if" and init.els is not None and not init.then.stmts and not init.els.stmts \
                and init.then.tail is not None and init.els.tail is not None \
                and init.then.tail.kind == "un" and init.then.tail.op == "&" \
                and init.els.tail.kind == "un" and init.els.tail.op == "&":
            pa, pb = self.place_of(init.then.tail, env), self.place_of(init.els.tail, env)
            if pa is None or pb is None or not ty_eq(self.place_ty(pa, env, s), self.place_ty(pb, env, s)):
                self.err("`if c { &mut a } else { &mut b }` on something that is not a pair of places of one type", init)
            c, cty = self.cond(init.cond, env, items)
            sel = lname(name) + "_sel"
            items.append(("let", sel, self.as_bool(c, cty, init)))
            ta, tb = self.place_text(pa, env), self.place_text(pb, env)
            v = self.declare(env, name, self.place_ty(pa, env, s), ("sel", sel, pa, pb))
            items.append(("let", v.lean, "if %s then %s else %s" % (sel, ta, tb)))
            return None
        if init.kind in ("if", "iflet", "match", "blockx"):
            def kval(env2, t, ty):
                env3 = dict(env2)
                v = self.declare(env3, name, ty)
                return ("seq", [("let", v.lean, t)], rest(env3))
            return self.branching(init, env, items, kval)
        t, ty = self.ev(init, env, items)
        if ty == CMP:
            t, ty = self.as_bool(t, ty), BOOL
        v = self.declare(env, name, ty)
        if t != v.lean:
            items.append(("let", v.lean, t))
        return None

    def cond(self, e, env, items):
        """condition of an `if`; the first one of the function may be a hole"""
        if self.hole and not self.hole_used:
            self.hole_used = True
            t, ty = self.ev_pure(e, env, "the condition the spec reads as a hole")
            free = []

            def f(x):
                if x.kind == "var" and x.name in env and x.name not in free:
                    free.append(x.name)
            cf.walk(e, f)
            args = self.hole["args"]
            if any(a not in env for a in args) or any(x not in args for x in free):
                self.err("the condition read as the hole `%s` mentions %s (spec: %s)" % (self.hole["name"], free, args), e)
            hname = "%s_%s" % (self.sig.lean, self.hole["name"])
            self.helpers.append("/-- the condition hole `%s` of `%s` (the condition of its first `if`) -/\ndef %s %s : Bool :=\n  %s" % (
                self.hole["name"], self.sig.name, hname,
                " ".join("(%s : %s)" % (env[a].lean, lean_ty(env[a].ty)) for a in args), self.as_bool(t, ty, e)))
            return "%s %s" % (self.hole["name"], " ".join(env[a].lean for a in args)), BOOL
        return self.ev(e, env, items)

    # ------------------------------------------------------------------ branching
    def branching(self, e, env, items, kval):
        if has_jump(e):
            return self.branch_tree(e, env, kval)
        # join: the branches hand back the outer variables they re-bind (and their value)
        save = (self.tmpn, self.hole_used, list(self.touched), list(self.helpers), list(self.used), self.loopn)
        self.touched, tys = [], []
        self.branch_tree(e, env, lambda env2, t, ty: (tys.append(ty), ("pure", "()"))[1])
        touched = self.touched
        self.tmpn, self.hole_used, self.touched, self.helpers, self.used, self.loopn = save
        outer = [v for v in env.values() if any(v is w for w in touched)]
        seen, A = set(), []
        for v in outer:
            if v.lean not in seen:
                seen.add(v.lean)
                A.append(v)
        vty = next((t for t in tys if t is not None and t != LIT), tys[0] if tys else UNIT)
        has_val = vty != UNIT
        if vty == CMP:
            vty = BOOL

        def kj(env2, t, ty):
            if has_val and ty == CMP:
                t = self.as_bool(t, ty)
            return ("pure", tup(([t] if has_val else []) + [v.lean for v in A]))
        tree = self.branch_tree(e, env, kj)
        tv = self.tmp() if has_val else None
        items.append(("bind", tup(([tv] if has_val else []) + [v.lean for v in A]) if (has_val or A) else "_", tree))
        self.touched.extend(A)
        return kval(env, tv or "()", vty)

    def opt_pat(self, p, sty, place, env, node):
        """pattern of an arm over an `Option` scrutinee → (lean pattern, env of the arm)"""
        env2 = dict(env)
        if p.kind == "pctor" and p.name == "Some" and len(p.items) == 1 and p.items[0].kind == "pid":
            nm = p.items[0].name
            if nm == "_":
                return "some _", env2
            v = self.declare(env2, nm, sty[1], ("some", place) if place is not None else None)
            return "some " + v.lean, env2
        if p.kind == "pid" and p.name == "None":
            return "none", env2
        if p.kind == "pid" and p.name == "_":
            return "_", env2
        self.err("pattern over an `Option` (only `Some(x)`, `Some(ref [mut] x)`, `None`, `_`)", node)

    def branch_tree(self, e, env, kval):
        k = e.kind
        if k == "blockx":
            return self.block(e.b.stmts, e.b.tail, env, kval)
        if k == "if":
            items = []
            c, cty = self.cond(e.cond, env, items)
            th = self.block(e.then.stmts, e.then.tail, env, kval)
            el = self.block(e.els.stmts, e.els.tail, env, kval) if e.els is not None else kval(dict(env), "()", UNIT)
            return ("seq", items, ("if", self.as_cond(c, cty, e), th, el))
        if k in ("iflet", "match"):
            items = []
            scrut = e.e if k == "iflet" else e.scrut
            place = self.place_of(scrut, env)
            st, sty = self.ev(scrut, env, items)
            if sty[0] != "opt":
                self.err("`%s` on %r (only on an `Option`)" % ({"iflet": "if let"}.get(k, k), sty), e)
            arms = []
            if k == "iflet":
                pat, env2 = self.opt_pat(e.pat, sty, place, env, e)
                arms.append((pat, self.block(e.then.stmts, e.then.tail, env2, kval)))
                other = "none" if pat.startswith("some") else "_"
                arms.append((other, self.block(e.els.stmts, e.els.tail, env, kval) if e.els is not None
                             else kval(dict(env), "()", UNIT)))
            else:
                for pats, body in e.arms:
                    pat, env2 = self.opt_pat(pats[0], sty, place, env, e)
                    arms.append((pat, self.block(body.stmts, body.tail, env2, kval)))
                pl = [a[0].split()[0] for a in arms]
                if "_" not in pl and not ("some" in pl and "none" in pl):
                    self.err("`match` on an `Option` that does not cover `Some` and `None`", e)
            return ("seq", items, ("match", st, arms))
        self.err("branching on `%s`" % k, e)

    # ------------------------------------------------------------------ loop, function
    def k_ret(self, env, t, ty):
        sig = self.sig
        if not ty_eq(ty, sig.ret) and not (ty == UNIT and sig.ret == UNIT):
            self.err("the function returns %r where %r is declared" % (ty, sig.ret))
        if ty == CMP:
            t = self.as_bool(t, ty)
        outs = [env[o].lean for o in sig.outs()]
        return ("pure", tup(([t] if sig.ret != UNIT else []) + outs))

    def fn_params(self):
        sig = self.sig
        ps = []
        if sig.self_kind is not None:
            ps.append(("self", ("struct", sig.self_ty)))
        ps += [(n, t) for n, t, _ in sig.params]
        return ps

    def loop(self, s, env, items):
        if not self.sig.fuel:
            self.err("`loop` in a function without fuel (spec)", s)
        if self.in_loop:
            self.err("nested `loop`", s)
        self.in_loop = True
        self.loopn += 1
        hname = "%s_loop%d" % (self.sig.lean, self.loopn)
        # state = the variables of the function the body re-binds
        save = (self.tmpn, self.hole_used, list(self.touched), list(self.helpers), list(self.used))
        self.touched = []
        self.block(s.body.stmts, s.body.tail, env, lambda env2, t, ty: ("pure", "()"))
        touched = self.touched
        self.tmpn, self.hole_used, self.touched, self.helpers, self.used = save
        state, seen = [], set()
        for nm, v in env.items():
            if any(v is w for w in touched) and v.lean not in seen:
                seen.add(v.lean)
                state.append(v)
        caps = [v for nm, v in env.items() if v.lean not in seen and not seen.add(v.lean)]
        extras = " ".join("(%s : %s)" % x for x in self.sig.extra)
        cap_sig = " ".join("(%s : %s)" % (v.lean, lean_ty(v.ty)) for v in caps)
        call = " ".join([hname] + [n for n, _ in self.sig.extra] + [v.lean for v in caps] + ["fuel"] + [v.lean for v in state])
        body = self.block(s.body.stmts, s.body.tail, env, lambda env2, t, ty: ("call", call))
        out = []
        emit_tree(body, 2, out)
        hdr = "def %s %s : Nat → %s → %s" % (hname, " ".join(x for x in (extras, cap_sig) if x),
                                             " → ".join(lean_ty(v.ty) for v in state), self.sig.res_ty())
        self.helpers.append("/-- the `loop` of `%s`: one more round per unit of fuel -/\n%s\n  | 0, %s => Res.fuel\n  | fuel + 1, %s => do\n%s"
                            % (self.sig.name, " ".join(hdr.split()), ", ".join("_" for _ in state),
                               ", ".join(v.lean for v in state), "\n".join(out)))
        self.in_loop = False
        self.touched.extend(state)
        return ("call", call)

    def translate(self, body_toks):
        sig = self.sig
        ids = set(t.text for t in body_toks if t.kind == "id") | set(n for n, _, _ in sig.params)
        self.tprefix = next(p for p in ("t", "u", "w", "tmp", "tmp_") if not any(re.fullmatch(p + r"\d+", i) for i in ids))
        ast = AvlParser(body_toks).body()
        env = {}
        for n, t in self.fn_params():
            self.declare(env, n, t)
        self.in_loop = False
        if sig.ret != UNIT and ast.tail is None and not (ast.stmts and ast.stmts[-1].kind in ("loop", "return")):
            self.err("the function has a return type but no tail value")
        tree = self.block(ast.stmts, ast.tail, env, lambda env2, t, ty: self.k_ret(env2, t, ty))
        if self.hole and not self.hole_used:
            self.err("the spec reads the first `if` of the function as the hole `%s`, but there is no `if`" % self.hole["name"])
        out = []
        extras = " ".join("(%s : %s)" % x for x in sig.extra)
        ps = self.fn_params()
        if sig.rec:
            emit_tree(tree, 2, out)
            hdr = "def %s %s : Nat → %s" % (sig.lean, extras, " → ".join([lean_ty(t) for _, t in ps] + [sig.res_ty()]))
            main = "%s\n  | 0, %s => Res.fuel\n  | fuel + 1, %s => do\n%s" % (
                " ".join(hdr.split()), ", ".join("_" for _ in ps), ", ".join(env[n].lean for n, _ in ps), "\n".join(out))
        else:
            emit_tree(tree, 1, out)
            pstr = " ".join("(%s : %s)" % (env[n].lean, lean_ty(t)) for n, t in ps)
            hdr = "def %s %s %s %s : %s := do" % (sig.lean, extras, "(fuel : Nat)" if sig.fuel else "", pstr, sig.res_ty())
            main = "%s\n%s" % (" ".join(hdr.split()), "\n".join(out))
        return self.helpers, main


# ================================================================================================== units

def translate_unit(src, unit, fail):
    """src: gen_tables.Src of unit['file']; returns (lean text, snippets).  Calls `fail(msg)` (which exits) on anything
    outside the subset."""
    rel = unit["file"]
    snippets, structs, struct_txt = {}, {}, []
    try:
        for sname in unit["structs"]:
            structs[sname] = None
        for sname in unit["structs"]:
            fields, text = struct_fields(src, sname, unit.get("generics", {}), structs)
            structs[sname] = fields
            snippets["struct " + sname] = text
            struct_txt.append((sname, fields, text))
    except Unsupported as u:
        where = "%s:%d" % (rel, src.line_of(u.pos)) if u.pos is not None else rel
        fail("%s: cannot translate: %s (outside the subset of tools/rs2lean_genavl.py)" % (where, u.msg))
    sigs, out_fns = [], []
    for f in unit["functions"]:
        what = "fn %s" % f["name"]
        rx = rb.header_regex(f["header"])
        ms = list(re.finditer(rx, src.code))
        if len(ms) != 1:
            fail("%s: %s: expected exactly one function with the header `%s`, found %d (signature changed, renamed or "
                 "restructured: the translation spec in tools/rs2lean_genavl.py pins the header)" % (rel, what, f["header"], len(ms)))
        body, line = src.fn_body(rx, what)
        start = src.code.find("{", ms[0].end() - 1) + 1
        snippets[f["lean"]] = ms[0].group(0)[:-1].strip() + " {" + body + "}"
        try:
            sig = Sig(f, unit, structs)
            sigs.append(sig)
            if f.get("cond_hole"):
                h = f["cond_hole"]
                ptys = dict([("self", ("struct", sig.self_ty))] + [(n, t) for n, t, _ in sig.params])
                sig.extra = [(h["name"], "(" + " → ".join([lean_ty(ptys[a]) for a in h["args"]] + ["Bool"]) + ")")]
            own = list(sig.extra)
            for _ in range(3):
                tr = TreeFn(unit, sig, sigs, structs, src)
                helpers, main = tr.translate(tokenize(body, start))
                extra = list(own)
                for s in tr.used:
                    for x in s.extra:
                        if x not in extra:
                            extra.append(x)
                if extra == sig.extra:
                    break
                sig.extra = extra
            else:
                raise Unsupported("hole parameters of %s do not stabilise" % f["name"])
        except Unsupported as u:
            where = "%s:%d" % (rel, src.line_of(u.pos)) if u.pos is not None else "%s:%d" % (rel, line)
            fail("%s: %s: cannot translate: %s (outside the subset of tools/rs2lean_genavl.py; the equality theorem %s can "
                 "no longer be regenerated)" % (where, what, u.msg, f.get("theorem", "")))
        out_fns.append((f, line, body, helpers, main))
    name = unit["name"]
    txt = ["import RbV.Basic.RsSemGenavl",
           "/-! GENERATED by tools/rs2lean_genavl.py (dialect avl; tools/gen_tables.py, %s) — do not edit." % unit["props"],
           "Translation of the *text* of the following structs and functions of `%s` (comments blanked) into Lean," % rel,
           "regenerated from the source tree on every `./check`.  Semantics: `RbV/Basic/RsSem.lean`, `RsSemInt.lean`,",
           "`RsSemGenavl.lean` (`Res.panic` = the Rust code panics: `unwrap()` / `expect(..)` on `None`, checked `i64` arithmetic;",
           "`Res.fuel` = the fuel of a recursion / of a `loop` ran out).  `N`, `D` are read at `Int`; an `Interval<N>` is the pair",
           "`(start, end)`; `Box<T>`, `&T`, `&mut T` are `T`.  Equality with the mirror model: `RbV/Thm/GenSrc%s*.lean`." % name[3:],
           ""]
    for sname, fields, text in struct_txt:
        txt.append("```")
        txt.extend(l.rstrip() for l in rb.dedent(text).splitlines() if l.strip())
        txt.append("```")
    for f, line, body, helpers, main in out_fns:
        txt.append("`%s` (line %d):" % (" ".join(f["header"].split()), line))
        txt.append("```")
        for l in rb.dedent(body).splitlines():
            if l.strip():
                txt.append(l.rstrip().replace("-/", "- /").replace("/-", "/ -"))
        txt.append("```")
    txt.append("-/")
    txt.append("set_option linter.unusedVariables false")
    txt.append("namespace RbV.Gen.%s" % name)
    txt.append("open RbV RbV.Rs")
    txt.append("")
    for sname, fields, text in struct_txt:
        txt.append("/-- `struct %s` -/" % sname)
        txt.append("structure %s where" % sname)
        for fn, ft in fields:
            t = lean_ty(ft)
            txt.append("  %s : %s" % (fn, t[1:-1] if t.startswith("(") and rb.matching_close(t) == len(t) - 1 else t))
        txt.append("")
    for f, line, body, helpers, main in out_fns:
        for h in helpers:
            txt.append(h)
            txt.append("")
        txt.append("/-- `%s` (%s, line %d) -/" % (" ".join(f["header"].split()).replace("-/", "- /"), rel, line))
        txt.append(main)
        txt.append("")
    txt.append("end RbV.Gen.%s" % name)
    return "\n".join(txt) + "\n", snippets


UNITS = {}

_AVL = "src/data_structures/interval_tree/avl_interval_tree.rs"


def _fn(name, lean, header, **kw):
    return dict(name=name, lean=lean, header=header, **kw)


UNITS["SrcAvl"] = dict(
    name="SrcAvl", file=_AVL, props="property C07", dialect="avl",
    structs=["Node", "IntervalTree", "Entry", "IntervalTreeIterator", "EntryMut", "IntervalTreeIteratorMut"],
    generics={"I": "Interval<N>"},
    functions=[
        _fn("new", "nodeNew", "fn new(interval: Interval<N>, data: D) -> Self", self_ty="Node", theorem="nodeNew_eq_model"),
        _fn("update_height", "updateHeight", "fn update_height(&mut self)", self_ty="Node", theorem="updateHeight_eq_model"),
        _fn("update_max", "updateMax", "fn update_max(&mut self)", self_ty="Node", theorem="updateMax_eq_model"),
        _fn("swap_interval_data", "swapIntervalData",
            "fn swap_interval_data<N: Ord + Clone, D>(node_1: &mut Node<N, D>, node_2: &mut Node<N, D>)"),
        _fn("rotate_left", "rotateLeft", "fn rotate_left(&mut self)", self_ty="Node", theorem="rotateLeft_eq_model"),
        _fn("rotate_right", "rotateRight", "fn rotate_right(&mut self)", self_ty="Node", theorem="rotateRight_eq_model"),
        _fn("repair", "repair", "fn repair(&mut self)", self_ty="Node", theorem="repair_eq_model"),
        _fn("insert", "nodeInsert", "fn insert(&mut self, interval: Interval<N>, data: D)", self_ty="Node", fuel=True,
            recursive=True, cond_hole=dict(name="goLeft", args=["interval", "self"]), theorem="nodeInsert_eq_model"),
        _fn("default", "treeDefault", "fn default() -> Self", self_ty="IntervalTree"),
        _fn("insert", "treeInsert", "pub fn insert<I: Into<Interval<N>>>(&mut self, interval: I, data: D)",
            self_ty="IntervalTree", fuel=True, theorem="treeInsert_eq_model"),
        _fn("intersect", "intersect", "fn intersect<N: Ord + Clone>(range_1: &Interval<N>, range_2: &Interval<N>) -> bool",
            theorem="intersect_eq_model"),
        _fn("find", "treeFind", "pub fn find<I: Into<Interval<N>>>(&self, interval: I) -> IntervalTreeIterator<'_, N, D>",
            self_ty="IntervalTree", theorem="find_init"),
        _fn("next", "iterNext", "fn next(&mut self) -> Option<Entry<'a, N, D>>", self_ty="IntervalTreeIterator", fuel=True,
            theorem="iterNext_eq_model"),
        _fn("find_mut", "treeFindMut", "pub fn find_mut<I: Into<Interval<N>>>( &mut self, interval: I, ) -> IntervalTreeIteratorMut<'_, N, D>",
            self_ty="IntervalTree", theorem="findMut_init"),
        _fn("next", "iterMutNext", "fn next(&mut self) -> Option<EntryMut<'a, N, D>>", self_ty="IntervalTreeIteratorMut",
            fuel=True, theorem="iterMutNext_eq_model"),
    ])


# ================================================================================================== self-test

class _Src:
    def __init__(self, text, rel="selftest.rs"):
        self.rel, self.raw, self.code = rel, text, text

    def line_of(self, pos):
        return self.code.count("\n", 0, pos) + 1

    def fn_body(self, rx, what):
        m = re.search(rx, self.code)
        start = self.code.find("{", m.end() - 1)
        depth = 0
        for i in range(start, len(self.code)):
            if self.code[i] == "{":
                depth += 1
            elif self.code[i] == "}":
                depth -= 1
                if depth == 0:
                    return self.code[start + 1:i], self.line_of(start)


SELFTEST_RS = r"""
struct Cell<N: Ord + Clone, D> {
    key: N,
    count: i64,
    next: Option<Box<Cell<N, D>>>,
    payload: D,
}

impl<N: Ord + Clone, D> Cell<N, D> {
    fn bump(&mut self) {
        self.count = self.count + 1;
    }

    fn add(&mut self, key: N, payload: D) {
        if key < self.key {
            self.bump();
        }
        match self.next {
            Some(ref mut c) => c.add(key, payload),
            None => self.next = Some(Box::new(Cell { key, count: 0, next: None, payload })),
        }
    }

    fn depth(&self) -> i64 {
        let d = self.next.as_ref().map_or(0, |c| c.count);
        (d - self.count).abs()
    }

    fn pick(&mut self, other: &mut Cell<N, D>, first: bool) {
        let c = if first { &mut self.next } else { &mut other.next };
        *c = None;
    }
}
"""

SELFTEST_UNIT = dict(
    name="SelfTestAvl", file="selftest.rs", props="self-test", dialect="avl", structs=["Cell"], generics={},
    functions=[
        _fn("bump", "bump", "fn bump(&mut self)", self_ty="Cell"),
        _fn("add", "add", "fn add(&mut self, key: N, payload: D)", self_ty="Cell", fuel=True, recursive=True,
            cond_hole=dict(name="lt", args=["key", "self"])),
        _fn("depth", "depth", "fn depth(&self) -> i64", self_ty="Cell"),
    ])

REFUSED = [
    ("fn bump(&mut self) { self.count += 1; }", "compound assignment"),
    ("fn bump(&mut self) { for c in self.next.iter() { } }", "for"),
    ("fn bump(&mut self) { self.count = self.count * 2; }", "operator"),
    ("fn bump(&mut self) { while self.count < 3 { } }", "while"),
    ("fn bump(&mut self) { self.next.as_mut().unwrap().bump(); }", "as_mut"),
    ("fn bump(&mut self) { let x = self.payload.frobnicate(); }", "method"),
]


def _die(msg):
    print("rs2lean_genavl: " + msg)
    sys.exit(1)


def selftest(with_lean):
    src = _Src(SELFTEST_RS)
    t1, _ = translate_unit(src, SELFTEST_UNIT, _die)
    t2, _ = translate_unit(src, SELFTEST_UNIT, _die)
    assert t1 == t2, "translation is not deterministic"
    for needle in ("structure Cell where", "next : Option Cell", "def add (lt : (Int → Cell → Bool)) : Nat → Cell → Int → Int → Res Cell",
                   "| 0, _, _, _ => Res.fuel", "Rs.iadd 64", "Rs.iabs 64", "Option.elim", "add lt fuel c key payload",
                   "{ self with next := some c }", "def add_lt (key : Int) (self : Cell) : Bool"):
        assert needle in t1, "self-test: `%s` missing in\n%s" % (needle, t1)
    for text, why in REFUSED:
        rs_text = SELFTEST_RS.replace("    fn bump(&mut self) {\n        self.count = self.count + 1;\n    }", "    " + text)
        got = []

        def refuse(msg):
            got.append(msg)
            raise SystemExit(1)
        try:
            translate_unit(_Src(rs_text), SELFTEST_UNIT, refuse)
        except SystemExit:
            pass
        assert got and why in got[0], "self-test: `%s` should be refused for `%s`, got %r" % (text, why, got)
    print("rs2lean_genavl selftest: translation ok, deterministic, %d non-subset snippets refused" % len(REFUSED))
    if with_lean:
        import subprocess, tempfile
        lean_dir = os.path.join(os.path.dirname(os.path.dirname(os.path.abspath(__file__))), "lean")
        d = os.path.join(lean_dir, ".lake", "genavl-selftest")
        os.makedirs(d, exist_ok=True)
        p = os.path.join(d, "SelfTestAvl.lean")
        with open(p, "w") as f:
            f.write(t1 + "\nopen RbV RbV.Rs RbV.Gen.SelfTestAvl in\n"
                    "example : (add (fun k c => decide (k < c.key)) 3 ⟨5, 0, none, 7⟩ 2 9).toOption.map (fun c => (c.count, c.next.map (·.key))) "
                    "= some (1, some 2) := by decide\n"
                    "open RbV RbV.Rs RbV.Gen.SelfTestAvl in\n"
                    "example : (add (fun k c => decide (k < c.key)) 1 ⟨5, 0, some ⟨1, 0, none, 0⟩, 7⟩ 2 9).toOption.isNone = true := by decide\n"
                    "open RbV RbV.Rs RbV.Gen.SelfTestAvl in\n"
                    "example : depth ⟨5, 3, some ⟨1, 1, none, 0⟩, 7⟩ = Res.ok 2 := by decide\n")
        r = subprocess.run(["lake", "env", "lean", p], cwd=lean_dir, stdout=subprocess.PIPE, stderr=subprocess.STDOUT, text=True)
        if r.returncode != 0:
            _die("self-test: lean rejects the generated file:\n" + r.stdout[-3000:])
        print("rs2lean_genavl selftest: generated file compiles, examples evaluate")


def main():
    if "--selftest" in sys.argv:
        selftest("--lean" in sys.argv)
        return
    print(__doc__)


if __name__ == "__main__":
    main()
