#!/usr/bin/env python3
"""Translate the text of a small Rust function into a Lean 4 definition (docs/notes/GEN.md, "Translated function bodies").

    tools/rs2lean.py --repo <repo> --unit <Name> [--stdout]        (normally called through tools/gen_tables.py)

The translator works on the comment-blanked source text (class `Src` of gen_tables.py: exactly one function with the
pinned header, brace matching) and handles a deliberately small subset of Rust.  Everything outside the subset is an
extraction failure: `Unsupported` is raised with file:line and a one-line reason, the caller exits non-zero.  Nothing
is ever guessed: every local without a type annotation needs a type in the translation spec, every `while` loop needs
a fuel expression in the spec.

Subset
  statements   `let [mut] x[: T] = e;`  `let (a, mut b) = (e1, e2);`  `x = e;`  `x op= e;`  `v[i] = e;`  `v[i] op= e;`
               `*r = e;` (r a loop variable of `iter_mut()`)  `v.push(e);`  `assert!(c, ..);`  `assert_eq!(a, b, ..);`
               `if c {..} [else if ..] [else {..}]`   `while c {..}`   `for pat in iter {..}`   `return e;` (tail
               position of the function body or of an `if` whose continuation is the rest of the function — not in loops)
  iterators    `a..b`  `a..=b`  `(a..b).rev()`  `xs`  `&xs`  `xs.iter()`  `xs.iter().rev()`  `xs.iter().enumerate()`
               `xs[a..b].iter()…`  `xs.iter_mut()`        patterns `i`, `&c`, `c`, `(j, &a)`, `(j, a)`, `_`
  expressions  integer/bool/byte literals, variables, `self.f`, `v[i]`, `v[a..b]` (only as iterator source), `v.len()`,
               `+ - * / %` (checked: `Rs.add w`, `Rs.sub`, `Rs.mul w`, `Rs.div`, `Rs.rem`; `/ %` by a non-zero literal are
               pure), `<< >>` (`Rs.shl w`, `Rs.shr w`), `& | ^ !` (`&&& ||| ^^^ Rs.not w`), comparisons, `&& || !`
               (short-circuit kept when the right operand can panic), `e as T`, `uN::from(e)`, unary `-` on signed bit
               patterns (`Rs.neg w`), `x.wrapping_add(y)` & co., `vec![v; n]`, `[v; N]`, `repeat(v).take(n).collect()`,
               `Vec::new()`, tuples, `if` expressions, `S { a, b: e }` (→ tuple in field order), `*c.borrow()`, `*r`,
               `&e`, `&mut e` (references are transparent), calls of functions declared in the spec (abstract
               parameters such as `Op::operation`, or other translated functions).
Output style: the monad `RbV.Rs.Res` (`ok | panic | fuel`, RbV/Basic/RsSem.lean), `do` blocks of `let x ← …` / `let x := …`
with Rust's mutation expressed by shadowing, `for` loops as `List.foldlM` of a named body function over `List.range'` /
the slice / `zipIdx`, `while` loops as named recursive helpers on fuel.  Loop helpers are named `<fn>_for<k>`,
`<fn>_while<k>` (k-th loop of that kind in source order); temporaries `t<k>`.  Compound assignments are normalised
(`x += e` and `x = x + e` give the same text).

Units with `dialect="cf"` are handled by the subclasses of tools/rs2lean_cf.py (loops with break/continue/return as
recursive helpers, by_ref iterators, VecDeque, Option, match, closures of fold/all/map, structs, opaque containers,
condition holes); this file only chooses the classes (`translate_unit`) and the parser (`parser_class`).
"""
import sys, os, re, argparse

WIDTH = {"u8": 8, "u16": 16, "u32": 32, "u64": 64, "usize": 64, "i8": 8, "i16": 16, "i32": 32, "i64": 64, "isize": 64}
LEAN_KEYWORDS = {"at", "from", "to", "end", "open", "in", "fun", "do", "then", "else", "if", "let", "have", "show", "by",
                 "match", "with", "where", "def", "theorem", "instance", "class", "structure", "namespace", "section",
                 "variable", "universe", "import", "export", "macro", "syntax", "prefix", "infix", "notation", "mut",
                 "return", "for", "unless", "try", "catch", "finally", "Type", "Prop", "Sort", "set", "using", "calc",
                 "nomatch", "exact", "pure", "bind", "fuel", "some", "none", "List", "Nat", "Bool", "true", "false"}


class Unsupported(Exception):
    def __init__(self, msg, pos=None):
        Exception.__init__(self, msg)
        self.msg = msg
        self.pos = pos


# ================================================================================================== types

class Ty:
    pass


class TInt(Ty):
    def __init__(self, name):
        self.name, self.w, self.signed = name, WIDTH[name], name[0] == "i"

    def lean(self):
        return "Nat"

    def __eq__(self, o):
        return isinstance(o, TInt) and o.name == self.name

    def __repr__(self):
        return self.name


class TBool(Ty):
    def lean(self):
        return "Bool"

    def __eq__(self, o):
        return isinstance(o, TBool)

    def __repr__(self):
        return "bool"


class TUnit(Ty):
    def lean(self):
        return "Unit"

    def __eq__(self, o):
        return isinstance(o, TUnit)

    def __repr__(self):
        return "()"


class TSeq(Ty):
    def __init__(self, elem):
        self.elem = elem

    def lean(self):
        return "List " + paren_ty(self.elem.lean())

    def __eq__(self, o):
        return isinstance(o, TSeq) and o.elem == self.elem

    def __repr__(self):
        return "[%r]" % (self.elem,)


class TTuple(Ty):
    def __init__(self, items):
        self.items = items

    def lean(self):
        return tuple_ty(self.items)

    def __eq__(self, o):
        return isinstance(o, TTuple) and o.items == self.items

    def __repr__(self):
        return "(%s)" % ", ".join(map(repr, self.items))


class TAbs(Ty):
    """a generic type parameter of the Rust function (`T`): a Lean type variable"""

    def __init__(self, name, lean_name):
        self.name, self.lean_name = name, lean_name

    def lean(self):
        return self.lean_name

    def __eq__(self, o):
        return isinstance(o, TAbs) and o.name == self.name

    def __repr__(self):
        return self.name


def paren_ty(s):
    return "(%s)" % s if (" " in s) else s


# ================================================================================================== tokens

TOKEN_RX = re.compile(r"""
    (?P<ws>\s+)
  | (?P<byte>b'(?:\\.|[^\\'])')
  | (?P<str>"(?:\\.|[^"\\])*")
  | (?P<num>(?:0x[0-9a-fA-F_]+|0b[01_]+|0o[0-7_]+|[0-9][0-9_]*)(?:(?:u8|u16|u32|u64|usize|i8|i16|i32|i64|isize))?)
  | (?P<id>[A-Za-z_][A-Za-z0-9_]*)
  | (?P<life>'[A-Za-z_][A-Za-z0-9_]*)
  | (?P<op><<=|>>=|\.\.=|\.\.|::|->|=>|==|!=|<=|>=|&&|\|\||\+=|-=|\*=|/=|%=|&=|\|=|\^=|<<|>>|[-+*/%&|^!<>=.,;:(){}\[\]\#?@])
""", re.X)


class Tok:
    __slots__ = ("kind", "text", "pos")

    def __init__(self, kind, text, pos):
        self.kind, self.text, self.pos = kind, text, pos

    def __repr__(self):
        return "%s(%s)" % (self.kind, self.text)


def tokenize(text, base):
    toks, i, n = [], 0, len(text)
    while i < n:
        m = TOKEN_RX.match(text, i)
        if not m:
            raise Unsupported("cannot tokenise `%s`" % text[i:i + 12].split("\n")[0], base + i)
        i = m.end()
        if m.lastgroup == "ws":
            continue
        toks.append(Tok(m.lastgroup, m.group(0), base + m.start()))
    toks.append(Tok("eof", "<end of function>", base + n))
    return toks


# ================================================================================================== AST

class N:
    """AST node: kind + fields"""

    def __init__(self, kind, pos, **kw):
        self.kind, self.pos = kind, pos
        self.__dict__.update(kw)

    def __repr__(self):
        return "N(%s %s)" % (self.kind, {k: v for k, v in self.__dict__.items() if k not in ("kind", "pos")})


BINPREC = [("||",), ("&&",), ("==", "!=", "<", ">", "<=", ">="), ("|",), ("^",), ("&",), ("<<", ">>"), ("+", "-"),
           ("*", "/", "%")]
ASSIGN_OPS = {"=": None, "+=": "+", "-=": "-", "*=": "*", "/=": "/", "%=": "%", "&=": "&", "|=": "|", "^=": "^",
              "<<=": "<<", ">>=": ">>"}


class Parser:
    def __init__(self, toks):
        self.t, self.i = toks, 0

    def peek(self, k=0):
        return self.t[min(self.i + k, len(self.t) - 1)]

    def at(self, text, k=0):
        x = self.peek(k)
        return x.kind in ("op", "id") and x.text == text

    def next(self):
        x = self.t[self.i]
        self.i += 1
        return x

    def expect(self, text):
        x = self.next()
        if not (x.kind in ("op", "id") and x.text == text):
            raise Unsupported("expected `%s`, found `%s`" % (text, x.text), x.pos)
        return x

    def ident(self):
        x = self.next()
        if x.kind != "id":
            raise Unsupported("expected an identifier, found `%s`" % x.text, x.pos)
        return x

    # ---------------------------------------------------------------- types
    def type_(self):
        x = self.peek()
        if self.at("&"):
            self.next()
            if self.peek().kind == "id" and self.peek().text == "mut":
                self.next()
            return N("tref", x.pos, inner=self.type_())
        if self.at("["):
            self.next()
            el = self.type_()
            n = None
            if self.at(";"):
                self.next()
                n = self.expr()
            self.expect("]")
            return N("tslice", x.pos, elem=el, n=n)
        if self.at("("):
            self.next()
            items = []
            while not self.at(")"):
                items.append(self.type_())
                if self.at(","):
                    self.next()
            self.expect(")")
            return N("ttuple", x.pos, items=items)
        nm = self.ident()
        args = []
        if self.at("<"):
            self.next()
            while not self.at(">"):
                args.append(self.type_())
                if self.at(","):
                    self.next()
            self.expect(">")
        if self.at("::"):
            raise Unsupported("qualified type path `%s::…`" % nm.text, nm.pos)
        return N("tname", x.pos, name=nm.text, args=args)

    # ---------------------------------------------------------------- blocks and statements
    def block(self):
        """`{ stmts [tail] }` → N(block, stmts, tail)"""
        b = self.expect("{")
        stmts, tail = [], None
        while not self.at("}"):
            if self.peek().kind == "eof":
                raise Unsupported("unbalanced block", b.pos)
            s = self.stmt()
            if s.kind == "tail":
                if not self.at("}"):
                    raise Unsupported("expected `;` or `}` after the expression", self.peek().pos)
                tail = s.e
            else:
                stmts.append(s)
        self.expect("}")
        return N("block", b.pos, stmts=stmts, tail=tail)

    def body(self):
        """the statements of a function body (tokens between the outer braces)"""
        stmts, tail = [], None
        p0 = self.peek().pos
        while self.peek().kind != "eof":
            s = self.stmt()
            if s.kind == "tail":
                if self.peek().kind != "eof":
                    raise Unsupported("expected `;` after the expression", self.peek().pos)
                tail = s.e
            else:
                stmts.append(s)
        return N("block", p0, stmts=stmts, tail=tail)

    def pattern(self):
        x = self.peek()
        if self.at("("):
            self.next()
            items = []
            while not self.at(")"):
                items.append(self.pattern())
                if self.at(","):
                    self.next()
                elif not self.at(")"):
                    raise Unsupported("pattern", self.peek().pos)
            self.expect(")")
            return N("ptuple", x.pos, items=items)
        if self.at("&"):
            self.next()
            p = self.pattern()
            if p.kind != "pid":
                raise Unsupported("reference pattern other than `&name`", x.pos)
            return p
        if self.at("mut"):
            self.next()
            return N("pid", x.pos, name=self.ident().text, mut=True)
        if x.kind == "id":
            self.next()
            if x.text in ("ref", "box") or self.at("::") or self.at("(") or self.at("{") or self.at("@"):
                raise Unsupported("pattern `%s …` (only names, `&name`, `_` and tuples are translated)" % x.text, x.pos)
            return N("pid", x.pos, name=x.text, mut=False)
        raise Unsupported("pattern starting with `%s`" % x.text, x.pos)

    def stmt(self):
        x = self.peek()
        if x.kind == "id" and x.text == "let":
            self.next()
            pat = self.pattern()
            ty = None
            if self.at(":"):
                self.next()
                ty = self.type_()
            if not self.at("="):
                raise Unsupported("`let` without initialiser", x.pos)
            self.next()
            if self.at("if") or self.at("{"):
                init = self.expr()
            else:
                init = self.expr()
            self.expect(";")
            return N("let", x.pos, pat=pat, ty=ty, init=init)
        if x.kind == "id" and x.text == "if":
            e = self.if_()
            if self.at(";"):
                self.next()
            elif self.at("}") or self.peek().kind == "eof":
                return N("tail", x.pos, e=e)
            return N("ifs", x.pos, e=e)
        if x.kind == "id" and x.text == "while":
            self.next()
            if self.at("let"):
                raise Unsupported("`while let`", x.pos)
            c = self.expr(no_struct=True)
            b = self.block()
            return N("while", x.pos, cond=c, body=b)
        if x.kind == "id" and x.text == "for":
            self.next()
            pat = self.pattern()
            self.expect("in")
            it = self.expr(no_struct=True)
            b = self.block()
            return N("for", x.pos, pat=pat, iter=it, body=b)
        if x.kind == "id" and x.text == "return":
            self.next()
            e = None if self.at(";") else self.expr()
            if self.at(";"):
                self.next()
            return N("return", x.pos, e=e)
        if x.kind == "id" and x.text in ("loop", "match", "break", "continue", "unsafe", "fn", "use", "const", "static",
                                         "struct", "enum", "impl", "type", "mod", "trait", "async", "move"):
            raise Unsupported("`%s` is outside the translated subset" % x.text, x.pos)
        e = self.expr()
        if self.peek().kind == "op" and self.peek().text in ASSIGN_OPS:
            op = self.next()
            r = self.expr()
            self.expect(";")
            return N("assign", x.pos, lhs=e, op=ASSIGN_OPS[op.text], rhs=r)
        if self.at(";"):
            self.next()
            return N("exprs", x.pos, e=e)
        return N("tail", x.pos, e=e)

    def if_(self):
        x = self.expect("if")
        if self.at("let"):
            raise Unsupported("`if let`", x.pos)
        c = self.expr(no_struct=True)
        th = self.block()
        el = None
        if self.at("else"):
            self.next()
            if self.at("if"):
                y = self.peek()
                el = N("block", y.pos, stmts=[], tail=self.if_())
            else:
                el = self.block()
        return N("if", x.pos, cond=c, then=th, els=el)

    # ---------------------------------------------------------------- expressions
    def expr(self, no_struct=False):
        x = self.peek()
        if self.at("..") or self.at("..="):
            op = self.next()
            hi = None if self.range_end() else self.binary(0, no_struct)
            return N("range", x.pos, lo=None, hi=hi, incl=op.text == "..=")
        lo = self.binary(0, no_struct)
        if self.at("..") or self.at("..="):
            op = self.next()
            hi = None if self.range_end() else self.binary(0, no_struct)
            return N("range", x.pos, lo=lo, hi=hi, incl=op.text == "..=")
        return lo

    def range_end(self):
        return self.at("]") or self.at(")") or self.at("{") or self.at(";") or self.at(",")

    def binary(self, level, no_struct):
        if level == len(BINPREC):
            return self.cast(no_struct)
        l = self.binary(level + 1, no_struct)
        while self.peek().kind == "op" and self.peek().text in BINPREC[level]:
            # `a < b` vs generic argument lists never clash here: generics only follow `::` (rejected) or type names
            op = self.next()
            r = self.binary(level + 1, no_struct)
            l = N("bin", op.pos, op=op.text, l=l, r=r)
            if level == 2 and self.peek().kind == "op" and self.peek().text in BINPREC[2]:
                raise Unsupported("chained comparison", self.peek().pos)
        return l

    def cast(self, no_struct):
        e = self.unary(no_struct)
        while self.at("as"):
            a = self.next()
            e = N("cast", a.pos, e=e, ty=self.type_())
        return e

    def unary(self, no_struct):
        x = self.peek()
        if x.kind == "op" and x.text in ("-", "!", "*"):
            self.next()
            return N("un", x.pos, op=x.text, e=self.unary(no_struct))
        if x.kind == "op" and x.text == "&":
            self.next()
            if self.at("mut"):
                self.next()
            return N("un", x.pos, op="&", e=self.unary(no_struct))
        if x.kind == "op" and x.text == "&&":
            raise Unsupported("`&&` as a double reference", x.pos)
        return self.postfix(no_struct)

    def args(self):
        self.expect("(")
        a = []
        while not self.at(")"):
            if self.at("|") or self.at("||") or self.at("move"):
                raise Unsupported("closure argument", self.peek().pos)
            a.append(self.expr())
            if self.at(","):
                self.next()
            elif not self.at(")"):
                raise Unsupported("argument list", self.peek().pos)
        self.expect(")")
        return a

    def postfix(self, no_struct):
        e = self.primary(no_struct)
        while True:
            x = self.peek()
            if self.at("."):
                self.next()
                nm = self.next()
                if nm.kind == "num":
                    raise Unsupported("tuple field access `.%s`" % nm.text, nm.pos)
                if nm.kind != "id":
                    raise Unsupported("after `.`", nm.pos)
                if self.at("::"):
                    raise Unsupported("turbofish", self.peek().pos)
                if self.at("("):
                    e = N("mcall", nm.pos, recv=e, name=nm.text, args=self.args())
                else:
                    e = N("field", nm.pos, e=e, name=nm.text)
            elif self.at("["):
                self.next()
                i = self.expr()
                self.expect("]")
                e = N("index", x.pos, base=e, idx=i)
            elif self.at("?"):
                raise Unsupported("`?` operator", x.pos)
            elif self.at("("):
                raise Unsupported("call of a computed function value", x.pos)
            else:
                return e

    def primary(self, no_struct):
        x = self.next()
        if x.kind == "num":
            m = re.fullmatch(r"(.*?)(u8|u16|u32|u64|usize|i8|i16|i32|i64|isize)?", x.text)
            body, suf = m.group(1).replace("_", ""), m.group(2)
            if body[:2] in ("0x", "0b", "0o"):
                v = int(body[2:], {"0x": 16, "0b": 2, "0o": 8}[body[:2]])
            else:
                v = int(body)
            return N("lit", x.pos, v=v, suf=suf)
        if x.kind == "byte":
            inner = x.text[2:-1]
            esc = {"\\n": 10, "\\r": 13, "\\t": 9, "\\\\": 92, "\\0": 0, "\\'": 39, '\\"': 34}
            if inner in esc:
                v = esc[inner]
            elif len(inner) == 1:
                v = ord(inner)
            elif re.fullmatch(r"\\x[0-9a-fA-F]{2}", inner):
                v = int(inner[2:], 16)
            else:
                raise Unsupported("byte literal %s" % x.text, x.pos)
            return N("lit", x.pos, v=v, suf="u8")
        if x.kind == "str":
            return N("str", x.pos, text=x.text)
        if x.kind == "op" and x.text == "(":
            if self.at(")"):
                self.next()
                return N("tuple", x.pos, items=[])
            e = self.expr()
            if self.at(","):
                items = [e]
                while self.at(","):
                    self.next()
                    if self.at(")"):
                        break
                    items.append(self.expr())
                self.expect(")")
                return N("tuple", x.pos, items=items)
            self.expect(")")
            return N("paren", x.pos, e=e)
        if x.kind == "op" and x.text == "[":
            v = self.expr()
            if not self.at(";"):
                raise Unsupported("array literal other than `[value; count]`", x.pos)
            self.next()
            n = self.expr()
            self.expect("]")
            return N("repeat", x.pos, v=v, n=n)
        if x.kind == "op" and x.text == "{":
            raise Unsupported("block expression", x.pos)
        if x.kind == "op" and x.text in ("|", "||"):
            raise Unsupported("closure", x.pos)
        if x.kind == "id":
            if x.text == "if":
                self.i -= 1
                return self.if_()
            if x.text in ("true", "false"):
                return N("blit", x.pos, v=x.text == "true")
            if x.text in ("match", "loop", "unsafe", "move", "while", "for", "return", "break", "continue", "let"):
                raise Unsupported("`%s` expression is outside the translated subset" % x.text, x.pos)
            path = [x.text]
            while self.at("::"):
                self.next()
                if self.at("<"):
                    raise Unsupported("turbofish / generic arguments in a path", self.peek().pos)
                path.append(self.ident().text)
            if self.at("!"):
                # macro call
                self.next()
                opener = self.next()
                if opener.text not in ("(", "["):
                    raise Unsupported("macro `%s!` with `%s`" % (x.text, opener.text), x.pos)
                closer = ")" if opener.text == "(" else "]"
                args, sep = [], None
                while not self.at(closer):
                    args.append(self.expr())
                    if self.at(",") or self.at(";"):
                        s = self.next().text
                        sep = sep or s
                    elif not self.at(closer):
                        raise Unsupported("macro arguments of `%s!`" % x.text, self.peek().pos)
                self.expect(closer)
                return N("macro", x.pos, name="::".join(path), args=args, sep=sep)
            if self.at("("):
                return N("call", x.pos, path=path, args=self.args())
            if self.at("{") and not no_struct and path[-1][:1].isupper():
                self.next()
                fields = []
                while not self.at("}"):
                    f = self.ident()
                    if self.at(":"):
                        self.next()
                        fields.append((f.text, self.expr()))
                    else:
                        fields.append((f.text, N("var", f.pos, name=f.text)))
                    if self.at(","):
                        self.next()
                    elif not self.at("}"):
                        raise Unsupported("struct literal", self.peek().pos)
                self.expect("}")
                return N("struct", x.pos, name="::".join(path), fields=fields)
            if len(path) > 1:
                raise Unsupported("path `%s` (only calls through `::` are translated)" % "::".join(path), x.pos)
            return N("var", x.pos, name=x.text)
        raise Unsupported("unexpected `%s`" % x.text, x.pos)


# ================================================================================================== intermediate code

class Code:
    """a `do` block under construction: items = ('let', pat, pure-expr) | ('bind', pat, MExpr); then a final MExpr.
    MExpr = ('call', text) | ('pure', text) | ('if', cond, Code, Code)"""

    def __init__(self):
        self.items = []
        self.final = None

    def let(self, pat, e):
        self.items.append(("let", pat, e))

    def bind(self, pat, m):
        self.items.append(("bind", pat, m))


def emit_code(code, ind, out):
    """lines of the items of a do block (each at indentation `ind`)"""
    pad = " " * ind
    for kind, pat, e in code.items:
        if kind == "let":
            out.append("%slet %s := %s" % (pad, pat, e))
        else:
            emit_m("%slet %s ← " % (pad, pat), e, ind, out)
    emit_m(pad, code.final, ind, out)


def emit_m(prefix, m, ind, out):
    if m[0] in ("call", "pure"):
        out.append(prefix + (m[1] if m[0] == "call" else "pure " + atom(m[1])))
        return
    _, cond, th, el = m
    out.append("%sif %s then do" % (prefix, cond))
    emit_code(th, ind + 4, out)
    if not el.items and el.final[0] in ("call", "pure"):
        out.append(" " * (ind + 2) + "else " + (el.final[1] if el.final[0] == "call" else "pure " + atom(el.final[1])))
    else:
        out.append(" " * (ind + 2) + "else do")
        emit_code(el, ind + 4, out)


def atom(s):
    """parenthesise unless atomic"""
    s = s.strip()
    if re.fullmatch(r"[\w.'α-ω]+|\(\)", s):
        return s
    if s[0] in "([" and matching_close(s) == len(s) - 1:
        return s
    return "(" + s + ")"


def matching_close(s):
    depth = 0
    for i, ch in enumerate(s):
        if ch in "([":
            depth += 1
        elif ch in ")]":
            depth -= 1
            if depth == 0:
                return i
    return -1


def tuple_pat(names):
    if not names:
        return "_"
    if len(names) == 1:
        return names[0]
    return "(" + ", ".join(names) + ")"


def tuple_val(names):
    if not names:
        return "()"
    if len(names) == 1:
        return names[0]
    return "(" + ", ".join(names) + ")"


def tuple_ty(tys):
    if not tys:
        return "Unit"
    if len(tys) == 1:
        return tys[0].lean()
    return " × ".join(("(%s)" % t.lean()) if isinstance(t, TTuple) else t.lean() for t in tys)


# ================================================================================================== translation

class Var:
    def __init__(self, rust, lean, ty, mutable=True, ref_elem=False):
        self.rust, self.lean, self.ty, self.mutable = rust, lean, ty, mutable
        self.ref_elem = ref_elem      # loop variable of iter_mut(): `*v = e` writes the element


class FnTranslator:
    def __init__(self, unit, fspec, src, body_text, body_pos):
        self.unit, self.spec, self.src = unit, fspec, src
        self.body_text, self.body_pos = body_text, body_pos
        self.lean_fn = fspec["lean"]
        self.aliases = dict(unit.get("aliases", {}))
        self.aliases.update(fspec.get("aliases", {}))
        self.generics = dict(unit.get("generics", {}))          # rust type parameter -> lean type variable
        self.generics.update(fspec.get("generics", {}))
        self.absfns = dict(unit.get("abstract_fns", {}))        # "Op::operation" -> dict(lean=, args=[ty], ret=ty)
        self.absfns.update(fspec.get("abstract_fns", {}))
        self.calls = dict(unit.get("calls", {}))                # rust fn name -> dict(lean=, args=[ty], ret=ty, extra=[lean exprs])
        self.calls.update(fspec.get("calls", {}))
        self.local_types = dict(fspec.get("locals", {}))
        self.fuels = list(fspec.get("fuel", []))
        self.n_for = self.n_while = self.n_tmp = 0
        self.helpers = []           # lean text of loop helpers, in emission order
        self.scopes = []            # list of dict rust name -> Var
        self.used_abs = []          # abstract fns used (parameters of the generated function)
        self.loop_depth = 0

    # ---------------------------------------------------------------- helpers
    def err(self, msg, node=None):
        raise Unsupported(msg, node.pos if node is not None else None)

    def ty_of_text(self, s):
        toks = tokenize(s, 0)
        p = Parser(toks)
        t = p.type_()
        if p.peek().kind != "eof":
            raise Unsupported("type `%s` in the translation spec" % s)
        return self.ty(t)

    def ty(self, t):
        if t.kind == "tref":
            return self.ty(t.inner)
        if t.kind == "tslice":
            return TSeq(self.ty(t.elem))
        if t.kind == "ttuple":
            return TTuple([self.ty(x) for x in t.items]) if t.items else TUnit()
        nm = t.name
        if nm in WIDTH and not t.args:
            return TInt(nm)
        if nm == "bool" and not t.args:
            return TBool()
        if nm == "Vec" and len(t.args) == 1:
            return TSeq(self.ty(t.args[0]))
        if nm in self.generics and not t.args:
            return TAbs(nm, self.generics[nm])
        if nm in self.aliases and not t.args:
            return self.ty_of_text(self.aliases[nm])
        self.err("type `%s` is not in the translated subset (declare an alias in the spec if it is one)" % nm, t)

    def tmp(self):
        self.n_tmp += 1
        return "t%d" % self.n_tmp

    def lookup(self, name, node):
        for sc in reversed(self.scopes):
            if name in sc:
                return sc[name]
        self.err("unknown variable `%s`" % name, node)

    def declare(self, name, ty, node, mutable=True, ref_elem=False, nested_ok=False):
        if name == "_":
            return Var("_", "_", ty, False)
        # shadowing: allowed in the same scope (old binding dead), refused across scopes inside nested blocks
        # (at the top level of the function body a `let` may shadow a parameter: the parameter is dead from there on)
        top_level = self.loop_depth == 0 and len(self.scopes) == 2
        for sc in self.scopes[:-1]:
            if name in sc and not nested_ok and not top_level:
                self.err("`%s` shadows a variable of an enclosing block (not translated)" % name, node)
        v = Var(name, self.fresh_lean(name), ty, mutable, ref_elem)
        self.scopes[-1][name] = v
        return v

    def fresh_lean(self, name):
        """Lean name for the Rust variable `name`: its own name, primed while another live variable (e.g. the field
        `self.mask` next to a local `mask`) already uses it"""
        lean = lean_name(name)
        live = set(v.lean for sc in self.scopes for k, v in sc.items() if k != name)
        while lean in live:
            lean += "'"
        return lean

    # ---------------------------------------------------------------- variable analysis
    def assigned(self, node, declared=None):
        """rust names of variables declared outside `node` that `node` assigns (in order of first assignment)"""
        out = []
        self._assigned(node, set() if declared is None else set(declared), out)
        return out

    def _lhs_root(self, e):
        while True:
            if e.kind == "index":
                e = e.base
            elif e.kind == "paren":
                e = e.e
            elif e.kind == "un" and e.op == "*":
                e = e.e
            elif e.kind == "field" and e.e.kind == "var" and e.e.name == "self":
                return "self." + e.name
            elif e.kind == "var":
                return e.name
            else:
                self.err("assignment target is not a variable, `self.f`, `v[i]` or `*r`", e)

    def _assigned(self, n, decl, out):
        k = n.kind
        if k == "block":
            d = set(decl)
            for s in n.stmts:
                self._assigned(s, d, out)
                if s.kind == "let":
                    for nm in pat_names(s.pat):
                        d.add(nm)
            if n.tail is not None:
                self._assigned(n.tail, d, out)
        elif k == "assign":
            r = self._lhs_root(n.lhs)
            if n.lhs.kind == "un" and n.lhs.op == "*":
                # `*r = e` where r is an iter_mut loop variable: the write goes to the sequence, handled by the loop
                r = "*" + r
            if r not in decl and r not in out:
                out.append(r)
        elif k == "exprs":
            e = n.e
            if e.kind == "mcall" and e.name in ("push",):
                r = self._lhs_root(e.recv)
                if r not in decl and r not in out:
                    out.append(r)
            else:
                self._assigned(e, decl, out)
        elif k in ("ifs", "tail"):
            self._assigned(n.e, decl, out)
        elif k == "if":
            self._assigned(n.then, decl, out)
            if n.els is not None:
                self._assigned(n.els, decl, out)
        elif k == "while":
            self._assigned(n.body, decl, out)
        elif k == "for":
            d = set(decl) | set(pat_names(n.pat))
            inner = []
            self._assigned(n.body, d, inner)
            it_mut = iter_mut_target(n.iter)
            for r in inner:
                if r.startswith("*"):
                    if it_mut is None or r[1:] not in pat_names(n.pat):
                        self.err("`*%s = …` outside a `for %s in ….iter_mut()` loop" % (r[1:], r[1:]), n)
                    r = self._lhs_root(it_mut)
                if r not in decl and r not in out:
                    out.append(r)
        # expressions do not assign (no nested blocks except `if` expressions, handled above)

    def reads(self, node):
        """rust names read anywhere in `node`"""
        out = []
        self._reads(node, out)
        return out

    def _reads(self, n, out):
        if isinstance(n, N):
            if n.kind == "var":
                if n.name not in out:
                    out.append(n.name)
            elif n.kind == "field" and n.e.kind == "var" and n.e.name == "self":
                nm = "self." + n.name
                if nm not in out:
                    out.append(nm)
            else:
                for k, v in n.__dict__.items():
                    if k in ("kind", "pos"):
                        continue
                    self._reads(v, out)
        elif isinstance(n, (list, tuple)):
            for x in n:
                self._reads(x, out)

    # ---------------------------------------------------------------- expressions
    def lit_type(self, e, expected):
        if e.suf:
            return TInt(e.suf)
        if isinstance(expected, TInt):
            return expected
        self.err("the type of the literal `%d` cannot be read off the text (give the variable a type in the spec)" % e.v, e)

    def is_lit(self, e):
        while e.kind == "paren":
            e = e.e
        return e.kind == "lit" and not e.suf

    def expr(self, e, code, expected=None):
        """translate `e`, appending the needed binds to `code`; returns (pure lean text, type)"""
        k = e.kind
        if k == "paren":
            return self.expr(e.e, code, expected)
        if k == "lit":
            t = self.lit_type(e, expected)
            lo, hi = (-(2 ** (t.w - 1)), 2 ** (t.w - 1) - 1) if t.signed else (0, 2 ** t.w - 1)
            if not (lo <= e.v <= hi):
                self.err("literal %d does not fit %s" % (e.v, t.name), e)
            return str(e.v), t
        if k == "blit":
            return ("true" if e.v else "false"), TBool()
        if k == "var":
            v = self.lookup(e.name, e)
            return v.lean, v.ty
        if k == "field":
            if e.e.kind == "var" and e.e.name == "self":
                v = self.lookup("self." + e.name, e)
                return v.lean, v.ty
            self.err("field access `.%s` on something other than `self`" % e.name, e)
        if k == "index":
            if e.idx.kind == "range":
                self.err("a sub-slice `v[a..b]` is only translated as the source of a `for` loop", e)
            b, bt = self.expr(e.base, code)
            if not isinstance(bt, TSeq):
                self.err("indexing into a value of type %r" % (bt,), e)
            i, it = self.expr(e.idx, code, TInt("usize"))
            if it != TInt("usize"):
                self.err("index of type %r (usize expected)" % (it,), e.idx)
            t = self.tmp()
            code.bind(t, ("call", "Rs.idx %s %s" % (atom(b), atom(i))))
            return t, bt.elem
        if k == "cast":
            target = self.ty(e.ty)
            s, st = self.expr(e.e, code, None if not self.is_lit(e.e) else target)
            if not (isinstance(st, TInt) and isinstance(target, TInt)):
                self.err("cast `as %r` from %r" % (target, st), e)
            if st.signed and target.w > st.w:
                self.err("sign-extending cast %r as %r" % (st, target), e)
            if target.w >= st.w:
                return s, target               # widening of an unsigned value / same-width reinterpretation of the bit pattern
            return "Rs.cast %d %s" % (target.w, atom(s)), target
        if k == "un":
            if e.op in ("&",):
                return self.expr(e.e, code, expected)
            if e.op == "*":
                inner = e.e
                if inner.kind == "mcall" and inner.name == "borrow" and not inner.args:
                    return self.expr(inner.recv, code, expected)
                if inner.kind == "var":
                    return self.expr(inner, code, expected)
                self.err("dereference of something other than a variable or `x.borrow()`", e)
            if e.op == "!":
                s, t = self.expr(e.e, code, expected)
                if isinstance(t, TBool):
                    return "!" + atom(s), t
                if isinstance(t, TInt) and not t.signed:
                    return "Rs.not %d %s" % (t.w, atom(s)), t
                self.err("`!` on %r" % (t,), e)
            if e.op == "-":
                s, t = self.expr(e.e, code, expected)
                if isinstance(t, TInt) and t.signed:
                    r = self.tmp()
                    code.bind(r, ("call", "Rs.neg %d %s" % (t.w, atom(s))))
                    return r, t
                self.err("unary `-` on %r (only signed bit patterns)" % (t,), e)
        if k == "bin":
            return self.binary(e, code, expected)
        if k == "mcall":
            return self.mcall(e, code, expected)
        if k == "call":
            return self.call(e, code, expected)
        if k == "macro":
            return self.macro(e, code, expected)
        if k == "repeat":
            return self.replicate(e.v, e.n, code, expected, e)
        if k == "tuple":
            if not e.items:
                return "()", TUnit()
            exp = expected.items if isinstance(expected, TTuple) and len(expected.items) == len(e.items) else [None] * len(e.items)
            parts = [self.expr(x, code, ex) for x, ex in zip(e.items, exp)]
            return "(" + ", ".join(p[0] for p in parts) + ")", TTuple([p[1] for p in parts])
        if k == "struct":
            want = self.spec.get("struct_fields", {}).get(e.name)
            names = [f for f, _ in e.fields]
            if want is None:
                self.err("struct literal `%s {…}`: the spec does not list its fields (`struct_fields`)" % e.name, e)
            if names != list(want):
                self.err("struct literal `%s` has fields %s, the spec (and the theorems) expect %s in this order"
                         % (e.name, ",".join(names), ",".join(want)), e)
            parts = [self.expr(x, code, None) for _, x in e.fields]
            return "(" + ", ".join(p[0] for p in parts) + ")", TTuple([p[1] for p in parts])
        if k == "if":
            return self.if_expr(e, code, expected)
        if k == "range":
            self.err("a range is only translated as the source of a `for` loop or as a slice bound there", e)
        if k == "str":
            self.err("string literal outside `assert!`", e)
        self.err("expression `%s`" % k, e)

    def binary(self, e, code, expected):
        op = e.op
        if op in ("&&", "||"):
            l, lt = self.expr(e.l, code, TBool())
            sub = Code()
            r, rt = self.expr(e.r, sub, TBool())
            if not (isinstance(lt, TBool) and isinstance(rt, TBool)):
                self.err("`%s` on non-boolean operands" % op, e)
            if not sub.items:
                return "%s %s %s" % (atom(l), op, atom(r)), TBool()
            # the right operand may panic: keep the short circuit
            sub.final = ("pure", r)
            t = self.tmp()
            other = Code()
            other.final = ("pure", "false" if op == "&&" else "true")
            if op == "&&":
                code.bind(t, ("if", l, sub, other))
            else:
                code.bind(t, ("if", l, other, sub))
            return t, TBool()
        if op in ("==", "!=", "<", ">", "<=", ">="):
            lt_hint = None
            if self.is_lit(e.l) and not self.is_lit(e.r):
                r, rt = self.expr(e.r, code)
                l, lt = self.expr(e.l, code, rt)
                # keep source order of evaluation irrelevant: a literal has no effects
            else:
                l, lt = self.expr(e.l, code)
                r, rt = self.expr(e.r, code, lt)
            if lt != rt:
                self.err("comparison of %r with %r" % (lt, rt), e)
            if isinstance(lt, TInt) and lt.signed:
                self.err("comparison of signed values (only bit operations are translated on signed types)", e)
            if op in ("==", "!="):
                if not isinstance(lt, (TInt, TBool, TSeq)):
                    self.err("`%s` on %r" % (op, lt), e)
                return "%s %s %s" % (atom(l), op, atom(r)), TBool()
            if not isinstance(lt, TInt):
                self.err("`%s` on %r" % (op, lt), e)
            return "decide (%s %s %s)" % (atom(l), {"<": "<", ">": ">", "<=": "≤", ">=": "≥"}[op], atom(r)), TBool()
        # arithmetic / bit operations
        if op in ("<<", ">>"):
            l, lt = self.expr(e.l, code, expected)
            r, rt = self.expr(e.r, code, TInt("u32") if self.is_lit(e.r) else None)
            if not (isinstance(lt, TInt) and isinstance(rt, TInt)) or lt.signed or rt.signed:
                self.err("shift on %r by %r" % (lt, rt), e)
            t = self.tmp()
            code.bind(t, ("call", "Rs.%s %d %s %s" % ("shl" if op == "<<" else "shr", lt.w, atom(l), atom(r))))
            return t, lt
        if self.is_lit(e.l) and not self.is_lit(e.r):
            r0 = Code()
            _, rt0 = self.expr(e.r, r0, expected)      # type only (dry run on a scratch block, temporaries re-numbered below)
            self.n_tmp -= sum(1 for it in r0.items if it[0] == "bind" and re.fullmatch(r"t\d+", it[1]))
            l, lt = self.expr(e.l, code, rt0)
            r, rt = self.expr(e.r, code, expected)
        else:
            l, lt = self.expr(e.l, code, expected)
            r, rt = self.expr(e.r, code, lt)
        if lt != rt or not isinstance(lt, TInt):
            self.err("`%s` on %r and %r" % (op, lt, rt), e)
        if op in ("&", "|", "^"):
            return "%s %s %s" % (atom(l), {"&": "&&&", "|": "|||", "^": "^^^"}[op], atom(r)), lt
        if lt.signed:
            self.err("arithmetic `%s` on the signed type %r (only bit operations are translated on signed types)" % (op, lt), e)
        if op in ("/", "%") and self.is_lit(e.r) and int(r) != 0:
            return "%s %s %s" % (atom(l), op, r), lt
        t = self.tmp()
        if op == "+":
            code.bind(t, ("call", "Rs.add %d %s %s" % (lt.w, atom(l), atom(r))))
        elif op == "-":
            code.bind(t, ("call", "Rs.sub %s %s" % (atom(l), atom(r))))
        elif op == "*":
            code.bind(t, ("call", "Rs.mul %d %s %s" % (lt.w, atom(l), atom(r))))
        elif op == "/":
            code.bind(t, ("call", "Rs.div %s %s" % (atom(l), atom(r))))
        elif op == "%":
            code.bind(t, ("call", "Rs.rem %s %s" % (atom(l), atom(r))))
        else:
            self.err("operator `%s`" % op, e)
        return t, lt

    def replicate(self, v, n, code, expected, node):
        el_exp = expected.elem if isinstance(expected, TSeq) else None
        vs, vt = self.expr(v, code, el_exp)
        ns, nt = self.expr(n, code, TInt("usize"))
        if nt != TInt("usize"):
            self.err("repeat count of type %r" % (nt,), node)
        return "List.replicate %s %s" % (atom(ns), atom(vs)), TSeq(vt)

    def mcall(self, e, code, expected):
        nm = e.name
        if nm == "len" and not e.args:
            r, t = self.expr(e.recv, code)
            if not isinstance(t, TSeq):
                self.err("`.len()` on %r" % (t,), e)
            return "%s.length" % atom(r), TInt("usize")
        if nm == "collect" and not e.args:
            # repeat(v).take(n).collect()
            r = e.recv
            if (r.kind == "mcall" and r.name == "take" and len(r.args) == 1 and r.recv.kind == "call"
                    and r.recv.path[-1] == "repeat" and len(r.recv.args) == 1):
                return self.replicate(r.recv.args[0], r.args[0], code, expected, e)
            self.err("`.collect()` other than `repeat(v).take(n).collect()`", e)
        if nm in ("wrapping_add", "wrapping_sub", "wrapping_mul") and len(e.args) == 1:
            l, lt = self.expr(e.recv, code, expected)
            r, rt = self.expr(e.args[0], code, lt)
            if lt != rt or not isinstance(lt, TInt) or lt.signed:
                self.err("`%s` on %r and %r" % (nm, lt, rt), e)
            fn = {"wrapping_add": "wrappingAdd", "wrapping_sub": "wrappingSub", "wrapping_mul": "wrappingMul"}[nm]
            return "Rs.%s %d %s %s" % (fn, lt.w, atom(l), atom(r)), lt
        if nm == "wrapping_neg" and not e.args:
            l, lt = self.expr(e.recv, code, expected)
            if not isinstance(lt, TInt):
                self.err("`wrapping_neg` on %r" % (lt,), e)
            return "Rs.wrappingNeg %d %s" % (lt.w, atom(l)), lt
        if nm in ("borrow", "clone", "to_owned") and not e.args and nm == "borrow":
            return self.expr(e.recv, code, expected)
        self.err("method `.%s(…)` is outside the translated subset" % nm, e)

    def call(self, e, code, expected):
        path = "::".join(e.path)
        if path in self.absfns:
            f = self.absfns[path]
            if len(f["args"]) != len(e.args):
                self.err("`%s` called with %d arguments, the spec says %d" % (path, len(e.args), len(f["args"])), e)
            parts = []
            for a, at in zip(e.args, f["args"]):
                want = self.ty_of_text(at)
                s, t = self.expr(a, code, want)
                if t != want:
                    self.err("argument of `%s` has type %r, the spec says %r" % (path, t, want), a)
                parts.append(atom(s))
            if f["lean"] not in self.used_abs:
                self.used_abs.append(f["lean"])
            return (f["lean"] + "".join(" " + p for p in parts)), self.ty_of_text(f["ret"])
        if len(e.path) == 2 and e.path[1] == "from" and e.path[0] in WIDTH and len(e.args) == 1:
            target = TInt(e.path[0])
            s, st = self.expr(e.args[0], code, None)
            if not isinstance(st, TInt) or st.signed or target.signed or st.w > target.w:
                self.err("`%s::from` of %r" % (e.path[0], st), e)
            return s, target
        if len(e.path) == 2 and e.path == ["Vec", "new"] and not e.args:
            if not isinstance(expected, TSeq):
                self.err("`Vec::new()` without a declared element type", e)
            return "[]", expected
        if len(e.path) == 1 and e.path[0] in self.calls:
            f = self.calls[e.path[0]]
            if len(f["args"]) != len(e.args):
                self.err("`%s` called with %d arguments, the spec says %d" % (path, len(e.args), len(f["args"])), e)
            parts = list(f.get("extra", []))
            for a, at in zip(e.args, f["args"]):
                want = self.ty_of_text(at)
                s, t = self.expr(a, code, want)
                if t != want:
                    self.err("argument of `%s` has type %r, the spec says %r" % (path, t, want), a)
                parts.append(atom(s))
            t = self.tmp()
            code.bind(t, ("call", f["lean"] + "".join(" " + p for p in parts)))
            return t, self.ty_of_text(f["ret"])
        self.err("call of `%s` (not declared in the translation spec)" % path, e)

    def macro(self, e, code, expected):
        if e.name == "vec" and e.sep == ";" and len(e.args) == 2:
            return self.replicate(e.args[0], e.args[1], code, expected, e)
        self.err("macro `%s!` in expression position" % e.name, e)

    def if_expr(self, e, code, expected):
        if e.els is None:
            self.err("`if` expression without `else`", e)
        c, ct = self.expr(e.cond, code, TBool())
        if not isinstance(ct, TBool):
            self.err("condition of type %r" % (ct,), e.cond)
        branches = []
        for b in (e.then, e.els):
            if b.stmts or b.tail is None:
                self.err("`if` expression whose branches are not single expressions", b)
            sub = Code()
            s, t = self.expr(b.tail, sub, expected)
            branches.append((sub, s, t))
        (c1, s1, t1), (c2, s2, t2) = branches
        if t1 != t2:
            self.err("`if` expression with branches of type %r and %r" % (t1, t2), e)
        if not c1.items and not c2.items:
            return "if %s then %s else %s" % (c, s1, s2), t1
        c1.final, c2.final = ("pure", s1), ("pure", s2)
        t = self.tmp()
        code.bind(t, ("if", c, c1, c2))
        return t, t1

    # ---------------------------------------------------------------- statements
    def block(self, b, code, ret_ok):
        """translate the statements of `b` into `code`.  Returns the tail (lean text, type) or None.
        `ret_ok`: this block is in tail position of the function (an early `return` can be expressed)."""
        self.scopes.append({})
        try:
            stmts = list(b.stmts)
            for idx, s in enumerate(stmts):
                rest_empty = idx == len(stmts) - 1 and b.tail is None
                self.stmt(s, code, ret_ok and rest_empty)
            if b.tail is not None:
                if b.tail.kind == "if" and self.assigned(b.tail):
                    self.err("`if` in tail position that also assigns variables", b.tail)
                return self.expr(b.tail, code, self.tail_expected)
            return None
        finally:
            self.scopes.pop()

    def stmt(self, s, code, last):
        k = s.kind
        if k == "let":
            return self.let(s, code)
        if k == "assign":
            return self.assign(s, code)
        if k == "exprs":
            return self.expr_stmt(s.e, code)
        if k == "ifs":
            return self.if_stmt(s.e, code)
        if k == "while":
            return self.while_(s, code)
        if k == "for":
            return self.for_(s, code)
        if k == "return":
            self.err("`return` is only translated as the last statement of the function body", s)
        self.err("statement `%s`" % k, s)

    def declared_type(self, name, ann, node):
        if ann is not None:
            return self.ty(ann)
        if name in self.local_types:
            return self.ty_of_text(self.local_types[name])
        return None

    def let(self, s, code):
        if s.pat.kind == "ptuple":
            if s.init.kind == "paren":
                s.init = s.init.e
            if s.init.kind != "tuple" or len(s.init.items) != len(s.pat.items) or s.ty is not None:
                self.err("tuple `let` whose right-hand side is not a tuple of the same length", s)
            # Rust evaluates the components left to right, then binds: the names on the left must not occur on the right
            names = pat_names(s.pat)
            for nm in self.reads(s.init):
                if nm in names:
                    self.err("tuple `let` that reads `%s` on its right-hand side" % nm, s)
            for p, e in zip(s.pat.items, s.init.items):
                if p.kind != "pid":
                    self.err("nested tuple pattern", p)
                self.let(N("let", s.pos, pat=p, ty=None, init=e), code)
            return
        name = s.pat.name
        want = self.declared_type(name, s.ty, s)
        val, t = self.expr(s.init, code, want)
        if want is not None and t != want:
            self.err("`let %s`: initialiser has type %r, declared %r" % (name, t, want), s)
        v = self.declare(name, t, s, mutable=s.pat.mut)
        if v.lean != "_":
            code.let(v.lean, val)

    def assign(self, s, code):
        lhs = s.lhs
        while lhs.kind == "paren":
            lhs = lhs.e
        if lhs.kind == "un" and lhs.op == "*":
            if lhs.e.kind != "var":
                self.err("`*e = …` where e is not a variable", s)
            v = self.lookup(lhs.e.name, lhs)
            if not v.ref_elem:
                self.err("`*%s = …` where `%s` is not the loop variable of an `iter_mut()` loop" % (v.rust, v.rust), s)
            rhs = s.rhs if s.op is None else N("bin", s.pos, op=s.op, l=N("var", s.pos, name=v.rust), r=s.rhs)
            val, t = self.expr(rhs, code, v.ty)
            if t != v.ty:
                self.err("assignment of %r to `*%s` : %r" % (t, v.rust, v.ty), s)
            code.let(v.lean, val)
            return
        if lhs.kind in ("var", "field"):
            name = lhs.name if lhs.kind == "var" else self._lhs_root(lhs)
            v = self.lookup(name, lhs)
            rhs = s.rhs if s.op is None else N("bin", s.pos, op=s.op, l=lhs, r=s.rhs)
            val, t = self.expr(rhs, code, v.ty)
            if t != v.ty:
                self.err("assignment of %r to `%s` : %r" % (t, name, v.ty), s)
            code.let(v.lean, val)
            return
        if lhs.kind == "index":
            root = self._lhs_root(lhs.base)
            if lhs.base.kind not in ("var", "field"):
                self.err("assignment to a nested element `v[i][j]`", s)
            v = self.lookup(root, lhs)
            if not isinstance(v.ty, TSeq):
                self.err("element assignment into %r" % (v.ty,), s)
            # Rust evaluates the right-hand side of `v[i] = e` before the index expression; both are effect-free apart from
            # panics, and any panic aborts the function, so the order of the binds does not matter for the result
            if s.op is None:
                val, t = self.expr(s.rhs, code, v.ty.elem)
                i, it = self.expr(lhs.idx, code, TInt("usize"))
            else:
                i, it = self.expr(lhs.idx, code, TInt("usize"))
                if not re.fullmatch(r"[\w.']+", i):
                    ti = self.tmp()
                    code.let(ti, i)
                    i = ti
                old = self.tmp()
                code.bind(old, ("call", "Rs.idx %s %s" % (atom(v.lean), atom(i))))
                self.scopes.append({"%old": Var("%old", old, v.ty.elem)})
                try:
                    val, t = self.expr(N("bin", s.pos, op=s.op, l=N("var", s.pos, name="%old"), r=s.rhs), code, v.ty.elem)
                finally:
                    self.scopes.pop()
            if it != TInt("usize"):
                self.err("index of type %r" % (it,), lhs.idx)
            if t != v.ty.elem:
                self.err("assignment of %r to an element of `%s` : %r" % (t, root, v.ty), s)
            code.bind(v.lean, ("call", "Rs.setIdx %s %s %s" % (atom(v.lean), atom(i), atom(val))))
            return
        self.err("assignment target", s)

    def expr_stmt(self, e, code):
        if e.kind == "macro" and e.name in ("assert", "debug_assert") and len(e.args) >= 1:
            c, t = self.expr(e.args[0], code, TBool())
            if not isinstance(t, TBool):
                self.err("`assert!` of a non-boolean", e)
            for x in e.args[1:]:
                if x.kind != "str":
                    self.err("`assert!` with format arguments", e)
            code.bind("_", ("call", "Rs.assert %s" % atom(c)))
            return
        if e.kind == "macro" and e.name in ("assert_eq", "debug_assert_eq") and len(e.args) >= 2:
            cmp_ = N("bin", e.pos, op="==", l=e.args[0], r=e.args[1])
            c, t = self.expr(cmp_, code, TBool())
            for x in e.args[2:]:
                if x.kind != "str":
                    self.err("`assert_eq!` with format arguments", e)
            code.bind("_", ("call", "Rs.assert %s" % atom(c)))
            return
        if e.kind == "mcall" and e.name == "push" and len(e.args) == 1:
            root = self._lhs_root(e.recv)
            v = self.lookup(root, e)
            if not isinstance(v.ty, TSeq):
                self.err("`.push` on %r" % (v.ty,), e)
            val, t = self.expr(e.args[0], code, v.ty.elem)
            if t != v.ty.elem:
                self.err("`.push` of %r onto %r" % (t, v.ty), e)
            code.let(v.lean, "%s ++ [%s]" % (v.lean, val))
            return
        self.err("expression statement outside the translated subset (only `assert!`, `assert_eq!`, `v.push(e)`)", e)

    def unit_block(self, b):
        """a block used as a statement (loop body): a trailing `if … {…} else {…}` without `;` is a statement, any other
        trailing expression would be a discarded value"""
        if b.tail is None:
            return b
        if b.tail.kind == "if":
            return N("block", b.pos, stmts=b.stmts + [N("ifs", b.tail.pos, e=b.tail)], tail=None)
        self.err("value of the block is discarded", b.tail)

    def outer_vars(self, names, node):
        vs = []
        for nm in names:
            if nm.startswith("*"):
                self.err("`%s = …` outside an `iter_mut()` loop" % nm, node)
            vs.append(self.lookup(nm, node))
        return vs

    def if_stmt(self, e, code):
        vs = self.outer_vars(self.assigned(e), e)
        c, ct = self.expr(e.cond, code, TBool())
        if not isinstance(ct, TBool):
            self.err("condition of type %r" % (ct,), e.cond)
        saved_tail = self.tail_expected
        self.tail_expected = None
        subs = []
        for b in (e.then, e.els):
            sub = Code()
            if b is not None:
                if b.tail is not None and not (b.tail.kind == "if"):
                    self.err("value of the `if` branch is discarded", b.tail)
                if b.tail is not None:
                    b = N("block", b.pos, stmts=b.stmts + [N("ifs", b.tail.pos, e=b.tail)], tail=None)
                self.block(b, sub, False)
            sub.final = ("pure", tuple_val([v.lean for v in vs]))
            subs.append(sub)
        self.tail_expected = saved_tail
        code.bind(tuple_pat([v.lean for v in vs]), ("if", c, subs[0], subs[1]))

    def captured(self, node, state_names, local_names):
        """lean parameters (name, type) a loop helper needs: variables read in `node` that are neither loop state nor
        bound by the loop itself — in order of first occurrence in the text"""
        caps = []
        for nm in self.reads(node):
            if nm in state_names or nm in local_names or nm == "self" or nm == "%old":
                continue
            found = None
            for sc in reversed(self.scopes):
                if nm in sc:
                    found = sc[nm]
                    break
            if found is None:
                continue      # declared inside the loop body
            if found not in caps:
                caps.append(found)
        return caps

    def helper_header(self, name, caps):
        params = "".join(" (%s : %s)" % (v.lean, v.ty.lean()) for v in caps)
        absf = "".join(" (%s : %s)" % (f, self.abs_sig(f)) for f in self.absfn_params())
        return "def %s%s%s" % (name, absf, params)

    def absfn_params(self):
        """abstract function parameters: all those the spec declares for this function (stable signature)"""
        return [f["lean"] for f in self.absfns.values() if not f.get("is_value")] + \
               [f["lean"] for f in self.absfns.values() if f.get("is_value")]

    def abs_sig(self, lean):
        for f in self.absfns.values():
            if f["lean"] == lean:
                tys = [self.ty_of_text(a).lean() for a in f["args"]] + [self.ty_of_text(f["ret"]).lean()]
                return " → ".join(paren_ty(t) if "→" in t else t for t in tys)
        raise KeyError(lean)

    def abs_args(self):
        return "".join(" " + f for f in self.absfn_params())

    def while_(self, s, code):
        self.n_while += 1
        k = self.n_while
        name = "%s_while%d" % (self.lean_fn, k)
        if k > len(self.fuels):
            self.err("`while` loop number %d has no fuel expression in the translation spec" % k, s)
        fuel = self.fuels[k - 1]
        state = self.outer_vars(self.assigned(s.body), s)
        state_names = [v.rust for v in state]
        caps = self.captured(N("x", s.pos, a=s.cond, b=s.body), state_names, [])
        # the helper
        saved_scopes, saved_tail = self.scopes, self.tail_expected
        self.tail_expected = None
        self.scopes = [dict((v.rust, Var(v.rust, v.lean, v.ty)) for v in caps + state)]
        self.loop_depth += 1
        try:
            body = Code()
            c, ct = self.expr(s.cond, body, TBool())
            if not isinstance(ct, TBool):
                self.err("condition of type %r" % (ct,), s.cond)
            th = Code()
            self.block(self.unit_block(s.body), th, False)
            th.final = ("call", "%s%s%s fuel %s" % (name, self.abs_args(), "".join(" " + v.lean for v in caps),
                                                   tuple_val([v.lean for v in state])))
            el = Code()
            el.final = ("pure", tuple_val([v.lean for v in state]))
            body.final = ("if", c, th, el)
        finally:
            self.scopes, self.tail_expected = saved_scopes, saved_tail
            self.loop_depth -= 1
        st_ty = tuple_ty([v.ty for v in state])
        lines = ["/-- `while %s` (line %d); fuel: `%s` -/" % (self.src_text(s.cond), self.src.line_of(s.pos), fuel),
                 "%s : Nat → %s → Res %s" % (self.helper_header(name, caps), paren_ty(st_ty), paren_ty(st_ty)),
                 "  | 0, _ => Res.fuel",
                 "  | fuel + 1, %s => do" % tuple_pat([v.lean for v in state])]
        emit_code(body, 4, lines)
        self.helpers.append("\n".join(lines))
        # the call; the fuel expression is a Lean expression over the variables in scope
        for nm in re.findall(r"[A-Za-z_][\w.']*", fuel):
            if nm.split(".")[0] not in [v.lean for sc in self.scopes for v in sc.values()] and not nm[0].isupper() \
                    and nm.split(".")[0] not in ("length",):
                self.err("fuel expression `%s` of `while` loop %d mentions `%s`, which is not a variable in scope" % (fuel, k, nm), s)
        code.bind(tuple_pat([v.lean for v in state]),
                  ("call", "%s%s%s %s %s" % (name, self.abs_args(), "".join(" " + v.lean for v in caps), atom(fuel),
                                            tuple_val([v.lean for v in state]))))

    def src_text(self, node_or_none, end=None):
        """one-line source text starting at a node (up to the `{` of the loop), for doc comments"""
        p = node_or_none.pos - self.body_pos
        # the condition's first token may not be its left-most one (binary operators are positioned at the operator)
        p = leftmost(node_or_none) - self.body_pos
        q = self.body_text.find("{", p)
        txt = " ".join(self.body_text[p:q].split())
        return txt.replace("-/", "- /").replace("/-", "/ -")

    def for_(self, s, code):
        self.n_for += 1
        name = "%s_for%d" % (self.lean_fn, self.n_for)
        it, rev = s.iter, False
        while it.kind == "paren":
            it = it.e
        if it.kind == "mcall" and it.name == "rev" and not it.args:
            rev, it = True, it.recv
            while it.kind == "paren":
                it = it.e
        enum = False
        if it.kind == "mcall" and it.name == "enumerate" and not it.args:
            if rev:
                self.err("`.enumerate().rev()`", s)
            enum, it = True, it.recv
        it_mut = False
        if it.kind == "mcall" and it.name in ("iter", "iter_mut", "into_iter") and not it.args:
            it_mut = it.name == "iter_mut"
            it = it.recv
        elif enum:
            self.err("`.enumerate()` on something other than `.iter()`", s)
        while it.kind == "paren" or (it.kind == "un" and it.op == "&"):
            it = it.e
        if it_mut and (enum or rev):
            self.err("`iter_mut()` combined with `.enumerate()` / `.rev()`", s)
        # --- the list iterated over, and the loop variables
        loopvars = []           # (rust name, lean name, type, ref_elem)
        seq_var = None
        if it.kind == "range":
            if enum or it.lo is None or it.hi is None:
                self.err("range without both bounds as a loop source", s)
            if s.pat.kind != "pid":
                self.err("pattern of a range loop", s.pat)
            want = self.declared_type(s.pat.name, None, s)
            if self.is_lit(it.lo) and not self.is_lit(it.hi):
                hi, ht = self.expr(it.hi, code, want)
                lo, lt = self.expr(it.lo, code, ht)
            else:
                lo, lt = self.expr(it.lo, code, want)
                hi, ht = self.expr(it.hi, code, lt)
            if lt != ht or not isinstance(lt, TInt) or lt.signed:
                self.err("range bounds of type %r and %r" % (lt, ht), s)
            if it.incl:
                lst = "List.range' %s (%s + 1 - %s)" % (atom(lo), atom(hi), atom(lo))
            else:
                lst = "List.range' %s (%s - %s)" % (atom(lo), atom(hi), atom(lo))
            loopvars = [(s.pat.name, lt, False)]
            lam_pat = None
        else:
            # a sequence: variable, self field, or a sub-slice of one
            if it.kind == "index" and it.idx.kind == "range":
                if it_mut:
                    self.err("`iter_mut()` over a sub-slice", s)
                base, bt = self.expr(it.base, code)
                if not isinstance(bt, TSeq):
                    self.err("slice of %r" % (bt,), s)
                r = it.idx
                if r.incl:
                    self.err("inclusive slice bounds", s)
                lo = "0" if r.lo is None else self.expr(r.lo, code, TInt("usize"))[0]
                hi = ("%s.length" % atom(base)) if r.hi is None else self.expr(r.hi, code, TInt("usize"))[0]
                if r.lo is None and r.hi is None:
                    lst, st = base, bt
                else:
                    t = self.tmp()
                    code.bind(t, ("call", "Rs.slice %s %s %s" % (atom(base), atom(lo), atom(hi))))
                    lst, st = t, bt
            else:
                if it.kind not in ("var", "field"):
                    self.err("loop source is not a range, a variable, `self.f` or a sub-slice of one", s)
                lst, st = self.expr(it, code)
                if not isinstance(st, TSeq):
                    self.err("`for` over a value of type %r" % (st,), s)
                seq_var = self.lookup(self._lhs_root(it), it)
            if enum:
                if s.pat.kind != "ptuple" or len(s.pat.items) != 2 or any(p.kind != "pid" for p in s.pat.items):
                    self.err("pattern of an `.enumerate()` loop must be `(j, x)` or `(j, &x)`", s.pat)
                loopvars = [(s.pat.items[1].name, st.elem, False), (s.pat.items[0].name, TInt("usize"), False)]
                lst = "%s.zipIdx" % atom(lst)
            else:
                if s.pat.kind != "pid":
                    self.err("pattern of a loop over a sequence", s.pat)
                loopvars = [(s.pat.name, st.elem, it_mut)]
            if rev:
                lst = "%s.reverse" % atom(lst)
        if rev and it.kind == "range":
            lst = "(%s).reverse" % lst
        # --- state and captured variables
        loop_names = [lv[0] for lv in loopvars]
        assigned = self.assigned(N("for", s.pos, pat=s.pat, iter=s.iter, body=s.body))
        if it_mut:
            # the sequence is rebuilt element by element: state gets an accumulator `<seq>'` for the new prefix
            if seq_var is None:
                self.err("`iter_mut()` over something other than a variable", s)
            assigned = [a for a in assigned if a != seq_var.rust]
            if seq_var.rust in self.reads(s.body):
                self.err("the body of an `iter_mut()` loop reads the sequence itself", s)
        state = self.outer_vars(assigned, s)
        state_names = [v.rust for v in state]
        caps = self.captured(s.body, state_names, loop_names)
        if it_mut and seq_var in caps:
            caps.remove(seq_var)
        saved_scopes, saved_tail = self.scopes, self.tail_expected
        self.tail_expected = None
        self.scopes = [dict((v.rust, Var(v.rust, v.lean, v.ty)) for v in caps + state)]
        lvs = []
        for nm, t, ref in loopvars:
            for sc in saved_scopes:
                if nm in sc and nm != "_":
                    self.err("loop variable `%s` shadows a variable of an enclosing block (not translated)" % nm, s)
            lvs.append(self.declare(nm, t, s, mutable=False, ref_elem=ref, nested_ok=True))
        self.loop_depth += 1
        acc = None
        try:
            body = Code()
            self.block(self.unit_block(s.body), body, False)
            st_names = [v.lean for v in state]
            if it_mut:
                acc = seq_var.lean + "'"
                body.final = ("pure", tuple_val(st_names + ["%s ++ [%s]" % (acc, lvs[0].lean)]))
                st_names_in = st_names + [acc]
                st_tys = [v.ty for v in state] + [seq_var.ty]
            else:
                body.final = ("pure", tuple_val(st_names))
                st_names_in = st_names
                st_tys = [v.ty for v in state]
        finally:
            self.scopes, self.tail_expected = saved_scopes, saved_tail
            self.loop_depth -= 1
        st_ty = tuple_ty(st_tys)
        el_ty = tuple_ty([v.ty for v in lvs])
        lines = ["/-- body of `for %s` (line %d) -/" % (self.src_text(s.pat if False else s, None)[4:].strip(), self.src.line_of(s.pos)),
                 "%s : %s → %s → Res %s" % (self.helper_header(name, caps), paren_ty(st_ty), paren_ty(el_ty), paren_ty(st_ty)),
                 "  | %s, %s => do" % (tuple_pat(st_names_in), tuple_pat([v.lean for v in lvs]))]
        emit_code(body, 4, lines)
        self.helpers.append("\n".join(lines))
        init = tuple_val([v.lean for v in state] + (["[]"] if it_mut else []))
        out_pat = tuple_pat([v.lean for v in state] + ([seq_var.lean] if it_mut else []))
        code.bind(out_pat, ("call", "%s.foldlM %s %s" % (atom(lst), atom(name + self.abs_args() + "".join(" " + v.lean for v in caps)), init)))

    # ---------------------------------------------------------------- the function
    def translate(self, toks):
        p = getattr(self, "parser_class", Parser)(toks)     # dialect "cf": tools/rs2lean_cf.py
        body = p.body()
        sp = self.spec
        params = []      # Var
        self.scopes = [{}]
        for nm, ty in sp.get("self_fields", []):
            t = self.ty_of_text(ty)
            v = Var("self." + nm, lean_name(nm), t)
            self.scopes[0]["self." + nm] = v
            params.append(v)
        for nm, ty in sp["params"]:
            t = self.ty_of_text(ty)
            v = Var(nm, self.fresh_lean(nm), t)
            self.scopes[0][nm] = v
            params.append(v)
        ret = self.ty_of_text(sp["ret"]) if sp.get("ret") else TUnit()
        self.tail_expected = ret
        code = Code()
        # self fields assigned by the body are returned (in spec order), before the declared return value
        # ... and so are `&mut` parameters the body writes to (after the fields, in parameter order)
        all_assigned = self.assigned(body)
        mut_params = [nm for nm, ty in sp["params"] if ty.replace(" ", "").startswith("&mut")]
        assigned_self = [a for a in all_assigned if a.startswith("self.") or a in mut_params]
        ret_fields = [v for v in params if v.rust in assigned_self]
        self.ret, self.ret_fields = ret, ret_fields
        self.scopes.append({})
        out_tys = self.seq(body.stmts, body.tail, code, body)
        self.scopes.pop()
        absf = "".join(" (%s : %s)" % (f, self.abs_sig(f)) for f in self.absfn_params())
        sig = "def %s%s%s : Res %s :=" % (self.lean_fn, absf,
                                         "".join(" (%s : %s)" % (v.lean, v.ty.lean()) for v in params),
                                         paren_ty(tuple_ty(out_tys)))
        lines = [sig + " do"]
        emit_code(code, 2, lines)
        # fewer `while` loops than fuel expressions: the text changed shape; the translation is still determined (the
        # surplus expressions are unused), the equality theorem decides.  More loops than expressions was an error above.
        return self.helpers, "\n".join(lines), [v for v in ret_fields], None

    def seq(self, stmts, tail_node, code, where):
        """the statements of the function body (or of the rest of it after an early `return`): sets `code.final`,
        returns the types of the returned tuple.  An early return `if c { …; return e; }` at this level becomes
        `if c then do …; pure e else do <rest of the function>`; a `return` anywhere else (in a loop, in a nested `if`
        with an `else`) is refused by `stmt`."""
        for idx, st in enumerate(stmts):
            if st.kind == "return":
                if idx != len(stmts) - 1 or tail_node is not None:
                    self.err("statements after `return`", st)
                return self.finish(st.e, code, st)
            if st.kind == "ifs" and st.e.els is None and st.e.then.tail is None and st.e.then.stmts \
                    and st.e.then.stmts[-1].kind == "return":
                e = st.e
                c, ct = self.expr(e.cond, code, TBool())
                if not isinstance(ct, TBool):
                    self.err("condition of type %r" % (ct,), e.cond)
                th = Code()
                self.scopes.append({})
                tys1 = self.seq(e.then.stmts, None, th, e.then)
                self.scopes.pop()
                el = Code()
                tys2 = self.seq(stmts[idx + 1:], tail_node, el, where)
                if tys1 != tys2:
                    self.err("early `return` of type %r, the function returns %r" % (tys1, tys2), st)
                code.final = ("if", c, th, el)
                return tys2
            self.stmt(st, code, False)
        return self.finish(tail_node, code, where)

    def finish(self, e, code, where):
        ret, ret_fields = self.ret, self.ret_fields
        outs, out_tys = [self.lookup(v.rust, where).lean for v in ret_fields], [v.ty for v in ret_fields]
        if e is not None:
            if isinstance(ret, TUnit):
                self.err("the function returns a value but the spec declares no return type", e)
            val, t = self.expr(e, code, ret)
            if not ty_compatible(t, ret):
                self.err("the returned expression has type %r, the spec declares %r" % (t, ret), e)
            outs.append(val)
            out_tys.append(t)
        elif not isinstance(ret, TUnit):
            self.err("the spec declares the return type %r but the function body ends without a value" % (ret,), where)
        code.final = ("pure", tuple_val(outs))
        return out_tys


def ty_compatible(a, b):
    return a == b


def leftmost(n):
    """smallest source position of a node and its children"""
    best = [n.pos]

    def walk(x):
        if isinstance(x, N):
            best[0] = min(best[0], x.pos)
            for k, v in x.__dict__.items():
                if k not in ("kind", "pos"):
                    walk(v)
        elif isinstance(x, (list, tuple)):
            for y in x:
                walk(y)
    walk(n)
    return best[0]


def pat_names(p):
    if p.kind == "pid":
        return [p.name]
    out = []
    for x in p.items:
        out += pat_names(x)
    return out


def iter_mut_target(it):
    """the sequence expression of `seq.iter_mut()`, or None"""
    while it.kind == "paren":
        it = it.e
    if it.kind == "mcall" and it.name == "iter_mut" and not it.args:
        return it.recv
    return None


def lean_name(rust):
    nm = rust.split(".")[-1]
    if nm in LEAN_KEYWORDS:
        return nm + "_"
    return nm


# ================================================================================================== units (= generated files)

def header_regex(header):
    """exact function header (given as Rust text) → regex that ignores white space between tokens, ending at `{`"""
    toks = [t.text for t in tokenize(header, 0)[:-1]]
    parts = []
    for i, t in enumerate(toks):
        parts.append(re.escape(t))
        if i + 1 < len(toks):
            a, b = t[-1], toks[i + 1][0]
            both_word = (a.isalnum() or a == "_") and (b.isalnum() or b == "_")
            parts.append(r"\s+" if both_word else r"\s*")
    return r"(?<![\w])" + "".join(parts) + r"\s*\{"


def translate_unit(src, unit, fail):
    """src: gen_tables.Src of unit['file']; returns (lean text, snippets dict).  Calls `fail(msg)` (which exits) on
    anything outside the subset."""
    rel = unit["file"]
    out_fns, snippets = [], {}
    src_all = src
    for f in unit["functions"]:
        what = "fn %s" % f["name"]
        rx = header_regex(f["header"])
        if unit.get("dialect") == "cf":         # tools/rs2lean_cf.py: control flow, containers; spec key `after`
            import rs2lean_cf
            try:
                src = rs2lean_cf.restrict(src_all, f)
            except Unsupported as u:
                fail("%s: %s: %s" % (rel, what, u.msg))
        ms = list(re.finditer(rx, src.code))
        if len(ms) != 1:
            fail("%s: %s: expected exactly one function with the header `%s`, found %d (signature changed, renamed or "
                 "restructured: the translation spec in tools/rs2lean.py pins the header)" % (rel, what, f["header"], len(ms)))
        body, line = src.fn_body(rx, what)
        start = src.code.find("{", ms[0].end() - 1) + 1
        snippets[f["name"]] = ms[0].group(0)[:-1].strip() + " {" + body + "}"
        try:
            toks = tokenize(body, start)
            if unit.get("dialect") == "cf" and f.get("io"):          # sub-dialect "io" (builder genio): rs2lean_cf.IoFn
                tr = rs2lean_cf.IoFn(unit, f, src, body, start)
            elif unit.get("dialect") == "cf":
                tr = rs2lean_cf.FnTranslatorX(unit, f, src, body, start)
            else:
                tr = FnTranslator(unit, f, src, body, start)
            helpers, main, ret_fields, tail = tr.translate(toks)
        except Unsupported as u:
            where = "%s:%d" % (rel, src.line_of(u.pos)) if u.pos is not None else "%s:%d" % (rel, line)
            fail("%s: %s: cannot translate: %s (outside the subset of tools/rs2lean.py; the equality theorem %s can no "
                 "longer be regenerated)" % (where, what, u.msg, f.get("theorem", "")))
        out_fns.append((f, line, body, helpers, main))
    name = unit["name"]
    txt = ["import RbV.Basic.RsSem"] + ["import " + m for m in unit.get("lean_imports", [])] + [
           "/-! GENERATED by tools/rs2lean.py (tools/gen_tables.py, %s) — do not edit." % unit["props"],
           "Translation of the *text* of the following functions of `%s` (comments blanked) into Lean, regenerated from" % rel,
           "the source tree on every `./check`.  Semantics of the operations: `RbV/Basic/RsSem.lean` (`Res.panic` = the Rust",
           "code panics: index out of bounds, checked arithmetic; `Res.fuel` = the fuel of a translated `while` loop ran out).",
           "Equality with the hand-written mirror model: `RbV/Thm/GenSrc%s.lean`." % name[3:] if name.startswith("Src") else "",
           ""]
    for f, line, body, helpers, main in out_fns:
        txt.append("`%s` (line %d):" % (" ".join(f["header"].split()), line))
        txt.append("```")
        for l in dedent(body).splitlines():
            if l.strip():
                txt.append(l.rstrip().replace("-/", "- /").replace("/-", "/ -"))
        txt.append("```")
    txt.append("-/")
    txt.append("set_option linter.unusedVariables false")
    txt.append("namespace RbV.Gen.%s" % name)
    txt.append("open RbV RbV.Rs")
    gens = sorted(set(list(unit.get("generics", {}).values())
                      + [g for f in unit["functions"] for g in f.get("generics", {}).values()]))
    if gens:
        txt.append("variable " + " ".join("{%s : Type}" % g for g in gens))
    txt.append("")
    if unit.get("dialect") == "cf" and (unit.get("io_structs") or unit.get("io_consts")):
        txt.extend(rs2lean_cf.io_unit_preamble(src_all, unit, fail))
    for f, line, body, helpers, main in out_fns:
        for h in helpers:
            txt.append(h)
            txt.append("")
        txt.append("/-- `%s` (%s, line %d) -/" % (" ".join(f["header"].split()).replace("-/", "- /"), rel, line))
        txt.append(main)
        txt.append("")
    txt.append("end RbV.Gen.%s" % name)
    return "\n".join(txt) + "\n", snippets


def dedent(body):
    lines = [l for l in body.splitlines() if l.strip()]
    ind = min((len(l) - len(l.lstrip()) for l in lines), default=0)
    return "\n".join(l[ind:] if len(l) >= ind else l for l in body.splitlines())


# ================================================================================================== translation specs

UNITS = {}


def unit(**kw):
    UNITS[kw["name"]] = kw
    return kw


unit(name="SrcKmpLps", props="property C08", file="src/pattern_matching/kmp.rs",
     aliases={"Lps": "Vec<usize>"},
     functions=[dict(name="lps", lean="lps", header="fn lps(pattern: &[u8]) -> Lps",
                     params=[("pattern", "&[u8]")], ret="Lps", locals={"q": "usize"},
                     fuel=["q + 1"], theorem="RbV.Thm.GenSrcKmpLps.lps_eq_model"),
                dict(name="KMP::delta", lean="delta", header="fn delta(&self, mut q: usize, a: u8) -> usize",
                     aliases={"TextSlice": "&[u8]"},
                     self_fields=[("m", "usize"), ("lps", "Lps"), ("pattern", "TextSlice")],
                     params=[("q", "usize"), ("a", "u8")], ret="usize",
                     fuel=["q + 1"], theorem="RbV.Thm.GenSrcKmpLps.delta_eq_model")])


unit(name="SrcShiftAndMasks", props="property C08", file="src/pattern_matching/shift_and.rs",
     functions=[dict(name="masks", lean="masks",
                     header="pub fn masks<C, P>(pattern: P) -> ([u64; 256], u64) where C: Borrow<u8>, P: IntoIterator<Item = C>,",
                     # `P: IntoIterator<Item = C>, C: Borrow<u8>`: the items are read through `*c.borrow()` only, a `u8` each
                     params=[("pattern", "&[u8]")], ret="([u64; 256], u64)",
                     locals={"masks": "[u64; 256]", "accept": "u64"},
                     theorem="RbV.Thm.GenSrcShiftAndMasks.masks_eq_model")])


unit(name="SrcHorspoolNew", props="property C08", file="src/pattern_matching/horspool.rs",
     functions=[dict(name="Horspool::new", lean="new", header="pub fn new(pattern: TextSlice<'a>) -> Self",
                     aliases={"TextSlice": "&[u8]"},
                     params=[("pattern", "&[u8]")], ret="(usize, Vec<usize>, &[u8])",
                     struct_fields={"Horspool": ["m", "shift", "pattern"]},
                     locals={"shift": "Vec<usize>"},
                     theorem="RbV.Thm.GenSrcHorspoolNew.new_eq_model")])


FENWICK_ABS = {"Op::operation": dict(lean="op", args=["T", "T"], ret="T"),
               "T::default": dict(lean="dflt", args=[], ret="T", is_value=True)}

unit(name="SrcFenwick", props="property C18", file="src/data_structures/bit_tree.rs",
     generics={"T": "α"}, abstract_fns=FENWICK_ABS,
     functions=[dict(name="FenwickTree::get", lean="get", header="pub fn get(&self, idx: usize) -> T",
                     self_fields=[("tree", "Vec<T>")], params=[("idx", "usize")], ret="T",
                     # `idx` strictly decreases; one unit more than the model's fuel: the translated loop spends one
                     # unit on the final test of the condition
                     fuel=["idx + 1"], theorem="RbV.Thm.GenSrcFenwick.get_eq_model"),
                dict(name="FenwickTree::set", lean="set", header="pub fn set(&mut self, idx: usize, val: T)",
                     self_fields=[("tree", "Vec<T>")], params=[("idx", "usize"), ("val", "T")], ret=None,
                     fuel=["tree.length + 1"], theorem="RbV.Thm.GenSrcFenwick.set_eq_model")])


unit(name="SrcBitEnc", props="property C18", file="src/data_structures/bitenc.rs",
     functions=[dict(name="mask", lean="mask", header="fn mask(width: usize) -> u32",
                     params=[("width", "usize")], ret="u32", theorem="RbV.Thm.GenSrcBitEnc.mask_eq_model"),
                dict(name="BitEnc::get_by_addr", lean="getByAddr",
                     header="fn get_by_addr(&self, block: usize, bit: usize) -> u8",
                     self_fields=[("storage", "Vec<u32>"), ("mask", "u32")],
                     params=[("block", "usize"), ("bit", "usize")], ret="u8",
                     theorem="RbV.Thm.GenSrcBitEnc.getByAddr_eq_model"),
                dict(name="BitEnc::set_by_addr", lean="setByAddr",
                     header="fn set_by_addr(&mut self, block: usize, bit: usize, value: u8)",
                     self_fields=[("storage", "Vec<u32>"), ("mask", "u32")],
                     params=[("block", "usize"), ("bit", "usize"), ("value", "u8")], ret=None,
                     theorem="RbV.Thm.GenSrcBitEnc.setByAddr_eq_model"),
                dict(name="BitEnc::addr", lean="addr", header="fn addr(&self, i: usize) -> (usize, usize)",
                     self_fields=[("width", "usize"), ("usable_bits_per_block", "usize")],
                     params=[("i", "usize")], ret="(usize, usize)", theorem="RbV.Thm.GenSrcBitEnc.addr_eq_model")])


unit(name="SrcBwt", props="property C04", file="src/data_structures/bwt.rs",
     aliases={"RawSuffixArraySlice": "&[usize]", "BWT": "Vec<u8>", "BWTSlice": "[u8]"},
     functions=[dict(name="bwt", lean="bwt", header="pub fn bwt(text: &[u8], pos: RawSuffixArraySlice) -> BWT",
                     params=[("text", "&[u8]"), ("pos", "RawSuffixArraySlice")], ret="BWT",
                     theorem="RbV.Thm.GenSrcBwt.bwt_eq_model")])


unit(name="SrcPrescan", props="property C04", file="src/utils/mod.rs",
     generics={"T": "α"},
     functions=[dict(name="prescan", lean="prescan",
                     header="pub fn prescan<T: Copy, F: Fn(T, T) -> T>(a: &mut [T], neutral: T, op: F)",
                     # `op: F` is the abstract operation (a leading parameter of the translated function)
                     abstract_fns={"op": dict(lean="op", args=["T", "T"], ret="T")},
                     params=[("a", "&mut [T]"), ("neutral", "T")], ret=None,
                     theorem="RbV.Thm.GenSrcPrescan.prescan_eq_model")])


# ---- dialect "cf" (tools/rs2lean_cf.py; builder genmisc): C20 / C19 / C07 -------------------------------------------------

unit(name="SrcOrf", props="property C20", file="src/seq_analysis/orf.rs", dialect="cf",
     aliases={"Orf": "(usize, usize, i8)"},
     functions=[dict(name="Matches::next", lean="next", header="fn next(&mut self) -> Option<Orf>",
                     # `self.seq: iter::Enumerate<T>` with `T::Item: Borrow<u8>`: the (index, symbol) pairs not yet consumed
                     self_fields=[("finder.start_codons", "Vec<VecDeque<u8>>"), ("finder.stop_codons", "Vec<VecDeque<u8>>"),
                                  ("finder.min_len", "usize"), ("state.start_pos", "[Vec<usize>; 3]"),
                                  ("state.codon", "VecDeque<u8>"), ("state.found", "VecDeque<Orf>"),
                                  ("seq", "Iter<(usize, u8)>")],
                     params=[], ret="Option<Orf>", struct_fields={"Orf": ["start", "end", "offset"]},
                     # the length test of the flush loop is a parameter: the property leaves frames of length
                     # min_len .. min_len+2 free, the theorems hold for every test inside that freedom (seeded C20-H1)
                     cond_holes={"for2": dict(lean="lenTest", args=[("index", "usize"), ("start_pos", "usize"),
                                                                    ("self.finder.min_len", "usize")])},
                     theorem="RbV.Thm.GenSrcOrf.next_eq_model")])


unit(name="SrcGc", props="property C20", file="src/seq_analysis/gc.rs", dialect="cf",
     generics={"f32": "F"},
     # the `f32` division stays outside: `x as f32` and `/` on `f32` are abstract functions of the translated definition
     abstract_fns={"as:usize:f32": dict(lean="toF32", args=["usize"], ret="f32"),
                   "op:/:f32": dict(lean="fdiv", args=["f32", "f32"], ret="f32")},
     functions=[dict(name="gcn_content", lean="gcnContent",
                     header="fn gcn_content<C: Borrow<u8>, T: IntoIterator<Item = C>>(sequence: T, step: usize) -> f32",
                     params=[("sequence", "&[u8]"), ("step", "usize")], ret="f32",
                     theorem="RbV.Thm.GenSrcGc.gcnContent_eq_model")])


ALPHA_STRUCTS = {"Alphabet": [("symbols", "BitSet")], "RankTransform": [("ranks", "VecMap<u8>")]}

unit(name="SrcAlphabet", props="property C20", file="src/alphabets/mod.rs", dialect="cf", structs=ALPHA_STRUCTS,
     # `bit_set::BitSet`, `vec_map::VecMap<u8>`: `Rs.BitSet`, `Rs.VecMap` of RsSem.lean (trusted meaning of the two crates)
     functions=[dict(name="Alphabet::new", lean="alphabetNew",
                     header="pub fn new<C, T>(symbols: T) -> Self where C: Borrow<u8>, T: IntoIterator<Item = C>,",
                     params=[("symbols", "&[u8]")], ret="Alphabet", locals={"s": "BitSet"},
                     theorem="RbV.Thm.GenSrcAlphabet.alphabetNew_eq_model"),
                dict(name="Alphabet::insert", lean="alphabetInsert", header="pub fn insert(&mut self, a: u8)",
                     self_fields=[("symbols", "BitSet")], params=[("a", "u8")], ret=None,
                     theorem="RbV.Thm.GenSrcAlphabet.alphabetInsert_eq_model"),
                dict(name="Alphabet::is_word", lean="isWord",
                     header="pub fn is_word<C, T>(&self, text: T) -> bool where C: Borrow<u8>, T: IntoIterator<Item = C>,",
                     self_fields=[("symbols", "BitSet")], params=[("text", "&[u8]")], ret="bool",
                     theorem="RbV.Thm.GenSrcAlphabet.isWord_eq_model"),
                dict(name="Alphabet::max_symbol", lean="maxSymbol", header="pub fn max_symbol(&self) -> Option<u8>",
                     self_fields=[("symbols", "BitSet")], params=[], ret="Option<u8>",
                     theorem="RbV.Thm.GenSrcAlphabet.maxSymbol_eq_model"),
                dict(name="Alphabet::len", lean="len", header="pub fn len(&self) -> usize",
                     self_fields=[("symbols", "BitSet")], params=[], ret="usize",
                     theorem="RbV.Thm.GenSrcAlphabet.len_eq_model"),
                dict(name="RankTransform::new", lean="rankNew", header="pub fn new(alphabet: &Alphabet) -> Self",
                     params=[("alphabet", "&Alphabet")], ret="RankTransform", locals={"ranks": "VecMap<u8>"},
                     theorem="RbV.Thm.GenSrcAlphabet.rankNew_eq_model"),
                dict(name="RankTransform::get", lean="rankGet", header="pub fn get(&self, a: u8) -> u8",
                     self_fields=[("ranks", "VecMap<u8>")], params=[("a", "u8")], ret="u8",
                     theorem="RbV.Thm.GenSrcAlphabet.rankGet_eq_model"),
                dict(name="RankTransform::transform", lean="transform",
                     header="pub fn transform<C, T>(&self, text: T) -> Vec<u8> where C: Borrow<u8>, T: IntoIterator<Item = C>,",
                     self_fields=[("ranks", "VecMap<u8>")], params=[("text", "&[u8]")], ret="Vec<u8>",
                     theorem="RbV.Thm.GenSrcAlphabet.transform_eq_model")])


# `RankTransform::get` (translated in SrcAlphabet) and `ranks.len()` are abstract here: `rankGet` may panic; the `f32`
# computation `(len as f32).log2().ceil() as u32` stays outside (`ceilLog2`, tied to `bitsFor` by hypothesis)
QGRAM_ABS = {"self.ranks.get": dict(lean="rankGet", args=["u8"], ret="u8", monadic=True),
             "self.ranks.len": dict(lean="ranksLen", args=[], ret="usize", is_value=True),
             "f32:log2:ceil": dict(lean="ceilLog2", args=["usize"], ret="u32")}
QGRAM_STRUCTS = {"QGrams": [("text", "Iter<u8>"), ("q", "u32"), ("bits", "u32"), ("mask", "usize"), ("qgram", "usize")],
                 "RevQGrams": [("text", "Iter<u8>"), ("q", "u32"), ("bits", "u32"), ("left_shift", "u32"), ("qgram", "usize")]}

unit(name="SrcQGrams", props="property C19", file="src/alphabets/mod.rs", dialect="cf", abstract_fns=QGRAM_ABS,
     structs=QGRAM_STRUCTS, struct_skip={"QGrams": ["ranks"], "RevQGrams": ["ranks"]},
     functions=[dict(name="QGrams::qgram_push", lean="qgramPush", header="fn qgram_push(&mut self, a: u8)",
                     self_fields=[("qgram", "usize"), ("bits", "u32"), ("mask", "usize")], params=[("a", "u8")], ret=None,
                     theorem="RbV.Thm.GenSrcQGrams.qgramPush_eq_model"),
                dict(name="QGrams::next", lean="next", header="fn next(&mut self) -> Option<usize>",
                     after="impl<'a, C, T> Iterator for QGrams<'a, C, T>",
                     self_fields=[("text", "Iter<u8>"), ("bits", "u32"), ("mask", "usize"), ("qgram", "usize")],
                     params=[], ret="Option<usize>",
                     self_calls={"qgram_push": dict(lean="qgramPush", self_args=["self.qgram", "self.bits", "self.mask"],
                                                    args=["u8"], writes=["self.qgram"], ret=None)},
                     theorem="RbV.Thm.GenSrcQGrams.next_eq_model"),
                dict(name="RankTransform::qgrams", lean="qgrams",
                     header="pub fn qgrams<C, T>(&self, q: u32, text: T) -> QGrams<'_, C, T::IntoIter> where C: Borrow<u8>, T: IntoIterator<Item = C>,",
                     params=[("q", "u32"), ("text", "&[u8]")], ret="QGrams",
                     struct_calls={"QGrams.next": dict(lean="next", fields_in=["text", "bits", "mask", "qgram"], args=[],
                                                       writes=["text", "qgram"], ret="Option<usize>")},
                     theorem="RbV.Thm.GenSrcQGrams.qgrams_eq_model"),
                dict(name="RevQGrams::qgram_push_rev", lean="qgramPushRev", header="fn qgram_push_rev(&mut self, a: u8)",
                     self_fields=[("qgram", "usize"), ("bits", "u32"), ("left_shift", "u32")], params=[("a", "u8")], ret=None,
                     theorem="RbV.Thm.GenSrcQGrams.qgramPushRev_eq_model"),
                dict(name="RevQGrams::next", lean="nextRev", header="fn next(&mut self) -> Option<usize>",
                     after="impl<'a, C, T> Iterator for RevQGrams<'a, C, T>",
                     self_fields=[("text", "Iter<u8>"), ("bits", "u32"), ("left_shift", "u32"), ("qgram", "usize")],
                     params=[], ret="Option<usize>",
                     self_calls={"qgram_push_rev": dict(lean="qgramPushRev",
                                                        self_args=["self.qgram", "self.bits", "self.left_shift"],
                                                        args=["u8"], writes=["self.qgram"], ret=None)},
                     theorem="RbV.Thm.GenSrcQGrams.nextRev_eq_model"),
                dict(name="RankTransform::rev_qgrams", lean="revQgrams",
                     header="pub fn rev_qgrams<C, IT, T>(&self, q: u32, text: IT) -> RevQGrams<'_, C, T> where C: Borrow<u8>, T: DoubleEndedIterator<Item = C>, IT: IntoIterator<IntoIter = T>,",
                     params=[("q", "u32"), ("text", "&[u8]")], ret="RevQGrams",
                     struct_calls={"RevQGrams.next": dict(lean="nextRev", fields_in=["text", "bits", "left_shift", "qgram"],
                                                          args=[], writes=["text", "qgram"], ret="Option<usize>")},
                     theorem="RbV.Thm.GenSrcQGrams.revQgrams_eq_model")])


unit(name="SrcQGramIndex", props="property C19", file="src/data_structures/qgram_index.rs", dialect="cf",
     # `T` (the text), `Alphabet`, `RankTransform` are abstract types here; what `with_max_count` needs from them are the
     # abstract functions below: the rank transform of the alphabet, its bit width, the q-gram codes of the text
     # (`ranks.qgrams(q, text)`: constructor + iteration, translated and proved in SrcQGrams) and `utils::prescan` with
     # `|a, b| a + b` (translated and proved for C04; here `prescanAdd`, which may panic on overflow)
     generics={"T": "τ", "Alphabet": "αβ", "RankTransform": "ρ"},
     structs={"QGramIndex": [("q", "u32"), ("address", "Vec<usize>"), ("pos", "Vec<usize>"), ("ranks", "RankTransform")]},
     abstract_fns={"RankTransform::new": dict(lean="rankNew", args=["Alphabet"], ret="RankTransform"),
                   "ranks.get_width": dict(lean="getWidth", args=[], ret="usize"),
                   "ranks.qgrams": dict(lean="qgramsOf", args=["u32", "T"], ret="Iter<usize>")},
     functions=[dict(name="QGramIndex::with_max_count", lean="withMaxCount",
                     header="pub fn with_max_count<'a, T, I>(q: u32, text: T, alphabet: &Alphabet, max_count: usize) -> Self "
                            "where I: Iterator<Item = &'a u8> + ExactSizeIterator + Clone, "
                            "T: IntoIterator<Item = &'a u8, IntoIter = I> + Sized,",
                     params=[("q", "u32"), ("text", "T"), ("alphabet", "&Alphabet"), ("max_count", "usize")],
                     ret="QGramIndex", locals={"address": "Vec<usize>", "pos": "Vec<usize>", "offset": "Vec<usize>"},
                     mut_calls={"utils::prescan": dict(lean="prescanAdd", args=["&mut Vec<usize>", "usize", "closure:|a,b|a+b"],
                                                       ret="Vec<usize>")},
                     theorem="RbV.Thm.GenSrcQGramIndex.withMaxCount_eq_model"),
                dict(name="QGramIndex::qgram_matches", lean="qgramMatches",
                     header="pub fn qgram_matches(&self, qgram: usize) -> &[usize]",
                     self_fields=[("address", "Vec<usize>"), ("pos", "Vec<usize>")], params=[("qgram", "usize")],
                     ret="&[usize]", theorem="RbV.Thm.GenSrcQGramIndex.qgramMatches_eq_model")])


# `N: Ord + Clone` is read at `Int` (what the harness drives the tree with; any total order would do), `D` stays generic
IIT_STRUCTS = {"Interval": [("start", "N"), ("end", "N")],
               "InternalEntry": [("data", "D"), ("interval", "Interval"), ("max", "N")]}

unit(name="SrcIit", props="property C07", file="src/data_structures/interval_tree/array_backed_interval_tree.rs",
     dialect="cf", generics={"D": "δ"}, ordered_instances={"N": "Int"}, structs=IIT_STRUCTS,
     abstract_fns={"max3": dict(lean="max3", args=["N", "N", "N"], ret="N")},
     functions=[dict(name="ArrayBackedIntervalTree::index_core", lean="indexCore", header="fn index_core(&mut self)",
                     self_fields=[("entries", "Vec<InternalEntry>"), ("max_level", "usize")], params=[], ret=None,
                     locals={"last_i": "usize", "k": "usize", "x": "usize", "i0": "usize", "step": "usize"},
                     # `(1 << k) <= n` fails after at most 64 rounds (a shift by 64 would panic first)
                     fuel=["65"], theorem="RbV.Thm.GenSrcIit.indexCore_eq_model"),
                dict(name="ArrayBackedIntervalTree::index", lean="index", header="pub fn index(&mut self)",
                     self_fields=[("entries", "Vec<InternalEntry>"), ("max_level", "usize"), ("indexed", "bool")],
                     params=[], ret=None,
                     # the sort call is the abstract function `sortByStart`; its contract in the theorems is "a permutation
                     # sorted by start" — met by a stable or unstable sort by `start` or by `(start, end)` (seeded change
                     # C07-H2), so all of these texts are read as `sortByStart`; `index_core` is the translated sibling
                     abs_methods={"self.entries": dict(lean="sortByStart", ty="Vec<InternalEntry>", alts=[
                         ("sort_by_key", "|e| e.interval.start"), ("sort_unstable_by_key", "|e| e.interval.start"),
                         ("sort_by_key", "|e| (e.interval.start, e.interval.end)"),
                         ("sort_unstable_by_key", "|e| (e.interval.start, e.interval.end)")])},
                     self_calls={"index_core": dict(lean="indexCore", self_args=["self.entries", "self.max_level"], args=[],
                                                    writes=["self.entries", "self.max_level"], ret=None, abs=["max3"])},
                     theorem="RbV.Thm.GenSrcIit.index_eq_model"),
                dict(name="ArrayBackedIntervalTree::find_into", lean="findInto",
                     header="pub fn find_into<'b, 'a: 'b, I: Into<Interval<N>>>(&'a self, interval: I, "
                            "results: &'b mut Vec<Entry<'a, N, D>>,)",
                     structs={"Entry": [("interval", "Interval"), ("data", "D")],
                              "StackCell": [("k", "usize"), ("x", "usize"), ("w", "bool")]},
                     zero_ctors=["StackCell::empty"],
                     self_fields=[("entries", "Vec<InternalEntry>"), ("max_level", "usize"), ("indexed", "bool")],
                     params=[("interval", "Interval"), ("results", "&mut Vec<Entry>")], ret=None,
                     locals={"t": "usize", "stack": "[StackCell; 64]"},
                     # every round removes at least one unit of the weight 3^(k+1) / 3^k + 1 of the stack cells
                     fuel=["3 ^ (max_level + 2)"], theorem="RbV.Thm.GenSrcIit.findInto_eq_model")])



# ---- sub-dialect "io" of dialect "cf" (rs2lean_cf.IoFn; builder genio): C12, the indexed FASTA reader ----------------------------
# The `BufReader` below the `IndexedReader` is an opaque value `reader : ρ`; what the code asks of it are the abstract
# operations `fillBuf` (`fill_buf()`: the buffered bytes, possibly after a refill), `consume`, `seekStart`
# (`seek(SeekFrom::Start(o))`).  The theorems instantiate them with the reader of the mirror model (file + position + chunk
# schedule, lean/RbV/Model/IndexedFasta.lean) — trusted: std's `BufReader` / `Seek` behave like that.  `cap` is the value of
# `self.buf.capacity()` (any positive number: `Vec::with_capacity(c)` guarantees only `≥ c`), `fuel` bounds the `while` loops
# (a ghost parameter; the theorems hold for every fuel above the length of the file).
IDXFA_OPS = {
    "fillBuf": dict(method="fill_buf", args=[], ret="io::Result<&[u8]>", mut=True, lean_ty="ρ → Except IoErr (List Nat) × ρ"),
    "consume": dict(method="consume", args=["usize"], ret=None, mut=True, lean_ty="ρ → Nat → ρ"),
    "seekStart": dict(method="seek", wrap=["SeekFrom", "Start"], args=["u64"], ret="io::Result<u64>", mut=True,
                      lean_ty="ρ → Nat → Except IoErr Nat × ρ"),
    "cap": dict(lean_ty="Nat"),
}
IDXFA_ITER_FIELDS = [("reader.reader", "Rd"), ("record", "IndexRecord"), ("bases_left", "u64"), ("line_offset", "u64"),
                     ("buf", "Vec<u8>"), ("buf_idx", "usize")]
IDXFA_FETCH_FIELDS = [("index.inner", "Vec<IndexRecord>"), ("fetched_idx", "Option<IndexRecord>"), ("start", "Option<u64>"),
                      ("stop", "Option<u64>")]
IDXFA_FETCH_OUTS = ["self.fetched_idx", "self.start", "self.stop"]
IDXFA_ITER_OUTS = ["self.reader.reader", "self.bases_left", "self.line_offset", "self.buf", "self.buf_idx"]

unit(name="SrcIdxFa", props="property C12", file="src/io/fasta.rs", dialect="cf", lean_imports=["RbV.Basic.RsSemIo"],
     generics={"Rd": "ρ"}, aliases={"Text": "Vec<u8>"}, io_ops=IDXFA_OPS,
     io_structs={"IndexRecord": dict(fields=[("len", "u64"), ("offset", "u64"), ("line_bases", "u64"), ("line_bytes", "u64")],
                                     skip=["name"],
                                     pinned="struct IndexRecord { name: String, len: u64, offset: u64, line_bases: u64, "
                                            "line_bytes: u64, }")},
     io_consts={"MAX_FASTA_BUFFER_SIZE": "usize"},
     functions=[dict(name="IndexedReader::seek_to", lean="seekTo", io=True,
                     header="fn seek_to(&mut self, idx: &IndexRecord, start: u64) -> io::Result<u64>",
                     self_fields=[("reader", "Rd")], params=[("idx", "&IndexRecord"), ("start", "u64")],
                     ret="io::Result<u64>", outs=["self.reader"], ops=["seekStart"],
                     theorem="RbV.Thm.GenSrcIdxFa.seekTo_eq_model"),
                dict(name="IndexedReader::read_line", lean="readLine", io=True,
                     header="fn read_line(&mut self, idx: &IndexRecord, line_offset: &mut u64, bases_left: u64, "
                            "buf: &mut Vec<u8>,) -> io::Result<u64>",
                     self_fields=[("reader", "Rd")],
                     params=[("idx", "&IndexRecord"), ("line_offset", "&mut u64"), ("bases_left", "u64"), ("buf", "&mut Vec<u8>")],
                     ret="io::Result<u64>", outs=["self.reader", "line_offset", "buf"], ops=["fillBuf", "consume"],
                     theorem="RbV.Thm.GenSrcIdxFa.readLine_contract"),
                dict(name="IndexedReader::read_into_buffer", lean="readIntoBuffer", io=True,
                     header="fn read_into_buffer(&mut self, idx: IndexRecord, start: u64, stop: u64, seq: &mut Text,) "
                            "-> io::Result<()>",
                     self_fields=[("reader", "Rd")],
                     params=[("idx", "IndexRecord"), ("start", "u64"), ("stop", "u64"), ("seq", "&mut Text")],
                     ret="io::Result<()>", outs=["self.reader", "seq"], ops=["fillBuf", "consume", "seekStart"],
                     ghosts=[("fuel", "Nat")], fuel=["fuel"], siblings=["seek_to", "read_line"],
                     theorem="RbV.Thm.GenSrcIdxFa.readIntoBuffer_eq_model"),
                dict(name="IndexedReader::idx_by_rid", lean="idxByRid", io=True,
                     header="fn idx_by_rid(&self, rid: usize) -> io::Result<IndexRecord>",
                     self_fields=[("index.inner", "Vec<IndexRecord>")], params=[("rid", "usize")],
                     ret="io::Result<IndexRecord>", outs=[], ops=[],
                     theorem="RbV.Thm.GenSrcIdxFa.idxByRid_eq_model"),
                dict(name="IndexedReader::fetch_by_rid", lean="fetchByRid", io=True,
                     header="pub fn fetch_by_rid(&mut self, rid: usize, start: u64, stop: u64) -> io::Result<()>",
                     self_fields=IDXFA_FETCH_FIELDS, params=[("rid", "usize"), ("start", "u64"), ("stop", "u64")],
                     ret="io::Result<()>", outs=IDXFA_FETCH_OUTS, ops=[], siblings=["idx_by_rid"],
                     theorem="RbV.Thm.GenSrcIdxFa.fetchByRid_eq_model"),
                dict(name="IndexedReader::fetch_all_by_rid", lean="fetchAllByRid", io=True,
                     header="pub fn fetch_all_by_rid(&mut self, rid: usize) -> io::Result<()>",
                     self_fields=IDXFA_FETCH_FIELDS, params=[("rid", "usize")],
                     ret="io::Result<()>", outs=IDXFA_FETCH_OUTS, ops=[], siblings=["idx_by_rid"],
                     theorem="RbV.Thm.GenSrcIdxFa.fetchAllByRid_eq_model"),
                dict(name="IndexedReader::read", lean="read", io=True,
                     header="pub fn read(&mut self, seq: &mut Text) -> io::Result<()>",
                     self_fields=[("reader", "Rd"), ("fetched_idx", "Option<IndexRecord>"), ("start", "Option<u64>"),
                                  ("stop", "Option<u64>")],
                     params=[("seq", "&mut Text")], ret="io::Result<()>", outs=["self.reader", "seq"],
                     ops=["fillBuf", "consume", "seekStart"], ghosts=[("fuel", "Nat")], siblings=["read_into_buffer"],
                     theorem="RbV.Thm.GenSrcIdxFa.read_eq"),
                dict(name="IndexedReaderIterator::fill_buffer", lean="fillBuffer", io=True,
                     header="fn fill_buffer(&mut self) -> io::Result<()>",
                     self_fields=IDXFA_ITER_FIELDS, params=[], ret="io::Result<()>", outs=IDXFA_ITER_OUTS,
                     ops=["fillBuf", "consume", "cap"], abs_vals={"self.buf.capacity": dict(lean="cap", ty="usize")},
                     ghosts=[("fuel", "Nat")], fuel=["fuel"], siblings=["read_line"],
                     theorem="RbV.Thm.GenSrcIdxFa.fillBuffer_spec"),
                dict(name="IndexedReaderIterator::next", lean="next", io=True,
                     header="fn next(&mut self) -> Option<Self::Item>",
                     after="impl<'a, R: io::Read + io::Seek + 'a> Iterator for IndexedReaderIterator<'a, R>",
                     self_fields=IDXFA_ITER_FIELDS, params=[], ret="Option<io::Result<u8>>", outs=IDXFA_ITER_OUTS,
                     ops=["fillBuf", "consume", "cap"], ghosts=[("fuel", "Nat")], siblings=["fill_buffer"],
                     theorem="RbV.Thm.GenSrcIdxFa.next_spec")])


# ================================================================================================== self-test

SELFTEST_RS = r"""
// synthetic functions exercising the subset (tools/rs2lean.py --selftest)
pub fn find_first(xs: &[u32], key: u32) -> usize {
    let n = xs.len();
    if n == 0 {
        return 0;
    }
    let mut pos = n;
    for i in (0..n).rev() {
        if xs[i] == key {
            pos = i;
        } else if xs[i] > key && pos == n {
            pos = n;
        }
    }
    pos
}

pub fn squares(k: u8) -> Vec<u8> {
    let mut out: Vec<u8> = Vec::new();
    for i in 0..=k {
        out.push(i.wrapping_mul(i));
    }
    out
}

pub fn digits(mut x: u64) -> Vec<u64> {
    let mut d: Vec<u64> = Vec::new();
    while x > 0 {
        d.push(x % 10);
        x /= 10;
    }
    d
}

pub fn checksum(data: &[u8], modulus: u32) -> u32 {
    assert!(modulus > 0, "modulus");
    let mut acc = 0u32;
    for (i, &b) in data.iter().enumerate() {
        acc = (acc * 31 + u32::from(b) + (i as u32 & 0xff)) % modulus;
        acc ^= !acc >> 7;
    }
    acc
}
"""

SELFTEST_UNIT = dict(
    name="SrcSelfTest", props="self-test", file="src/selftest.rs",
    functions=[
        dict(name="find_first", lean="findFirst", header="pub fn find_first(xs: &[u32], key: u32) -> usize",
             params=[("xs", "&[u32]"), ("key", "u32")], ret="usize"),
        dict(name="squares", lean="squares", header="pub fn squares(k: u8) -> Vec<u8>", params=[("k", "u8")], ret="Vec<u8>"),
        dict(name="digits", lean="digits", header="pub fn digits(mut x: u64) -> Vec<u64>", params=[("x", "u64")],
             ret="Vec<u64>", fuel=["x + 1"]),
        dict(name="checksum", lean="checksum", header="pub fn checksum(data: &[u8], modulus: u32) -> u32",
             params=[("data", "&[u8]"), ("modulus", "u32")], ret="u32"),
    ])

# (statement text placed in a function `fn f(v: &[u8], n: usize) -> usize { … }`, substring expected in the refusal)
SELFTEST_REFUSED = [
    ("loop { break; } n", "`loop`"),
    ("match n { 0 => 1, _ => 2 }", "`match`"),
    ("let c = |a: usize| a + 1; c(n)", "closure"),
    ("let q = 3; n + q", "cannot be read off the text"),
    ("for i in 0..n { if v[i] == 0 { return i; } } n", "`return` is only translated"),
    ("let x = v.iter().map(|b| *b as usize).sum::<usize>(); x", "closure|turbofish"),
    ("while n > 0 { } n", "no fuel expression"),
    ("let s = v[1..3]; n", "sub-slice"),
    ("let k = n as isize; let j = k + k; n", "signed type"),
    ("let k = n as isize; if k < 0 { return 0; } n", "signed values"),
    ("let w = n as i64; let k = w as i128; n", "i128"),
    ("n?", "`?` operator"),
    ("unsafe { n }", "`unsafe`"),
    ("let t = (n, n); t.0", "tuple field access"),
    ("n.pow(2)", "method `.pow"),
    ("let mut n2 = n; { let n2 = 1usize; } n2", "block expression|unexpected"),
]


def selftest(with_lean):
    import tempfile, subprocess, shutil
    sys.path.insert(0, os.path.dirname(os.path.abspath(__file__)))
    import gen_tables

    class Refused(Exception):
        pass

    def refuse(msg):
        raise Refused(msg)
    tmp = tempfile.mkdtemp(prefix="rs2lean-selftest-")
    ok = True
    try:
        os.makedirs(os.path.join(tmp, "src"))
        with open(os.path.join(tmp, "src", "selftest.rs"), "w") as f:
            f.write(SELFTEST_RS)
        src = gen_tables.Src(tmp, "src/selftest.rs")
        text, _ = translate_unit(src, SELFTEST_UNIT, refuse)
        text2, _ = translate_unit(src, SELFTEST_UNIT, refuse)
        if text != text2:
            print("selftest: translation is not deterministic")
            ok = False
        checks = ["#eval findFirst [5, 7, 7, 9] 7   -- ok 1", "#eval findFirst [] 7   -- ok 0",
                  "#eval squares 17   -- ok [0, 1, 4, …, 225, 0, 33]", "#eval digits 9075   -- ok [5, 7, 0, 9]",
                  "#eval checksum [1, 2, 3] 1000003", "#eval checksum [1, 2, 3] 0   -- panic (assert!)"]
        lean_text = text.replace("end RbV.Gen.SrcSelfTest", "\n".join(checks) + "\nend RbV.Gen.SrcSelfTest")
        if with_lean:
            lf = os.path.join(tmp, "SelfTest.lean")
            with open(lf, "w") as f:
                f.write(lean_text)
            lean_dir = os.path.join(os.path.dirname(os.path.dirname(os.path.abspath(__file__))), "lean")
            p = subprocess.run(["lake", "env", "lean", lf], cwd=lean_dir, stdout=subprocess.PIPE, stderr=subprocess.STDOUT,
                               text=True, timeout=600)
            print(p.stdout.strip())
            want = ["RbV.Rs.Res.ok 1", "RbV.Rs.Res.ok 0", "225, 0, 33]", "RbV.Rs.Res.ok [5, 7, 0, 9]", "RbV.Rs.Res.panic"]
            if p.returncode != 0 or any(w not in p.stdout for w in want):
                print("selftest: the generated Lean does not compile or evaluates differently")
                ok = False
        else:
            sys.stdout.write(lean_text)
        for body, expect in SELFTEST_REFUSED:
            with open(os.path.join(tmp, "src", "selftest.rs"), "w") as f:
                f.write("fn f(v: &[u8], n: usize) -> usize {\n    %s\n}\n" % body)
            u = dict(name="SrcNeg", props="self-test", file="src/selftest.rs",
                     functions=[dict(name="f", lean="f", header="fn f(v: &[u8], n: usize) -> usize",
                                     params=[("v", "&[u8]"), ("n", "usize")], ret="usize")])
            try:
                translate_unit(gen_tables.Src(tmp, "src/selftest.rs"), u, refuse)
                print("selftest: NOT refused: %s" % body)
                ok = False
            except Refused as r:
                if not re.search(expect, str(r)):
                    print("selftest: refused for another reason: %s: %s" % (body, r))
                    ok = False
        import rs2lean_cf                      # dialect "cf": its own snippets
        ok = rs2lean_cf.selftest(with_lean, tmp) and ok
    finally:
        shutil.rmtree(tmp, ignore_errors=True)
    print("selftest: " + ("ok" if ok else "FAILED"))
    sys.exit(0 if ok else 1)


def main():
    ap = argparse.ArgumentParser()
    ap.add_argument("--repo", default=os.environ.get("VERIF_REPO", "/repo"))
    ap.add_argument("--unit", help="one of: " + ", ".join(sorted(UNITS)))
    ap.add_argument("--selftest", action="store_true", help="translate built-in snippets; refuse built-in non-subset ones")
    ap.add_argument("--lean", action="store_true", help="with --selftest: also compile and evaluate the result with lean")
    a = ap.parse_args()
    if a.selftest:
        selftest(a.lean)
    sys.path.insert(0, os.path.dirname(os.path.abspath(__file__)))
    import gen_tables
    if a.unit not in UNITS:
        gen_tables.fail("rs2lean: unknown unit %s" % a.unit)
    u = UNITS[a.unit]
    src = gen_tables.Src(a.repo, u["file"])
    text, _ = translate_unit(src, u, gen_tables.fail)
    sys.stdout.write(text)


if __name__ == "__main__":
    main()
