#!/usr/bin/env python3
"""Rust → Lean translator module of builder `gengff`: the BED and GFF/GTF writers and the BED record accessors (C13).

Dialect **"gff"** = dialect "px" of `tools/rs2lean_genleft.py` (expression-bodied functions; classes `PX` / `Tr` are imported and
subclassed, nothing is copied or edited) plus what `src/io/bed.rs` / `src/io/gff.rs` need:

* **strings are UTF-8 byte lists** (`String`, `&str` ↦ `List Nat`; `Vec<String>` ↦ `List (List Nat)`); a string literal is the
  list of its bytes (also as a pattern: `Some("+")`); a `char` is its code point, `u8 as char` is the identity on the number,
  `c.to_string()` and `{}` of a `char` are `Rs.charStr c` (its UTF-8 encoding); `s.to_string()` / `to_owned()` on a string are
  the identity; `x.is_empty()` = `List.isEmpty`;
* `format!("…{}…", a, b, …)`: only `{}` place holders; arguments of type string or `char`; = concatenation (`++`) of the literal
  pieces and the `Display` forms;
* `it.join(sep)` (itertools on an iterator of strings, `[String]::join`) = `Rs.joinStr sep items`;
* **`MultiMap<String, String>`** ↦ `List (List Nat × List (List Nat))`: the list of its key groups (key, values in insertion
  order) *in the order in which this map iterates* — `iter_all()` is the identity on it, `is_empty()` = `List.isEmpty`.  The
  iteration order of a `HashMap` is arbitrary: theorems over a translated function quantify over all such lists, and property-level
  statements are modulo a permutation of it;
* **`self.inner.serialize(<tuple>)`** (`csv::Writer`): the abstract operation `serialize inner fields` where `fields` is the flat
  field list serde hands to csv for the tuple (`Rs.csvFields`): a string is one field, an unsigned integer the field `dec n`
  (`dec` abstract: its decimal form), a `Vec<String>` its elements, a `Phase` the field `Rs.serPhase dec p` (`impl Serialize for
  Phase`: `.` or the number).  Result and new writer state are whatever the operation returns (type `ρ`);
* **mutators** (`mut_self=True`): a body of statements `self.f = e;` / `self.f.push(e);` is the function `self ↦ self'`
  (`{ self with f := … }`).

Everything else raises `Unsupported` → `translation_unavailable` (soft).  Semantics: `lean/RbV/Basic/RsSemGengff.lean`.

`python3 tools/rs2lean_gengff.py --selftest [--lean]`; `python3 tools/rs2lean_gengff.py --show <Unit> [--repo R]`.
"""
import sys, os, re, argparse, subprocess, tempfile

sys.path.insert(0, os.path.dirname(os.path.abspath(__file__)))
import rs2lean_cfbase as cb
import rs2lean_genleft as gl
from rs2lean_genleft import (PX, Tr, Unsupported, tokenize, dedent, atom, atom_block, atom_ty, lname, split_top, apply_rewrites,
                             read_decl, decl_lean, find_fn, INT_W)

STR_TYS = ("String", "str")
MULTIMAP = "MultiMap<String, String>"
GROUPS = "[(String, Vec<String>)]"


CHAR_RX = re.compile(r"'(?:\\.|[^\\'\n])'")


def gff_tokenize(text, base):
    """the tokenizer of rs2lean_cfbase.py plus `char` literals (`'x'`, `'\\''`; a lifetime `'a` has no closing quote)"""
    toks, i, n = [], 0, len(text)
    while i < n:
        m = CHAR_RX.match(text, i)
        if m:
            toks.append(cb.Tok("char", m.group(0), base + i))
            i = m.end()
            continue
        m = cb.TOKEN_RX.match(text, i)
        if not m:
            raise Unsupported("cannot tokenise `%s`" % text[i:i + 12].split("\n")[0], base + i)
        i = m.end()
        if m.lastgroup == "ws":
            continue
        toks.append(cb.Tok(m.lastgroup, m.group(0), base + m.start()))
    toks.append(cb.Tok("eof", "<end of function>", base + n))
    return toks


def str_bytes(tok_text, pos=None):
    """Rust string literal token → list of UTF-8 bytes"""
    if not (tok_text.startswith('"') and tok_text.endswith('"')):
        raise Unsupported("string literal `%s`" % tok_text, pos)
    body = tok_text[1:-1]
    out, i = [], 0
    esc = {"n": 10, "t": 9, "r": 13, "\\": 92, '"': 34, "'": 39, "0": 0}
    while i < len(body):
        ch = body[i]
        if ch == "\\":
            if i + 1 >= len(body) or body[i + 1] not in esc:
                raise Unsupported("escape in string literal `%s`" % tok_text, pos)
            out.append(esc[body[i + 1]])
            i += 2
        else:
            out.extend(ch.encode("utf-8"))
            i += 1
    return out


def bytes_lit(bs):
    return "[" + ", ".join(str(b) for b in bs) + "]" if bs else "([] : List Nat)"


# ================================================================================================== parser

class GffPX(PX):
    def primary(self, nostruct):
        p = self.peek()
        if p.kind == "id" and p.text == "format" and self.at("!", 1):
            self.next()
            self.next()
            self.expect("(")
            s = self.next()
            if s.kind != "str":
                raise Unsupported("`format!` without a literal format string", s.pos)
            args = []
            while self.at(","):
                self.next()
                if self.at(")"):
                    break
                args.append(self.expr())
            self.expect(")")
            return ("format", s.text, args, p.pos)
        if p.kind == "char":
            self.next()
            body = p.text[1:-1]
            esc = {"\\n": 10, "\\t": 9, "\\r": 13, "\\\\": 92, "\\'": 39, '\\"': 34, "\\0": 0}
            if body in esc:
                v = esc[body]
            elif len(body) == 1:
                v = ord(body)
            else:
                raise Unsupported("char literal %s" % p.text, p.pos)
            return ("num", v, "char", p.pos)
        if self.at("|") and not self.at("|", 1):
            # closure with parameter types kept (`|s: &str| …`); the untyped form is parsed by the base class
            save = self.i
            self.next()
            params, tys = [], []
            while not self.at("|"):
                params.append(self.pat())
                if self.at(":"):
                    self.next()
                    tys.append(self.ty())
                else:
                    tys.append(None)
                if self.at(","):
                    self.next()
            self.next()
            if self.at("->"):
                raise Unsupported("closure with a return type", self.peek().pos)
            body = self.expr()
            return ("closure", params, body, p.pos, tys)
        if p.kind == "id" and p.text == "vec" and self.at("!", 1) and self.at("[", 2):
            self.next()
            self.next()
            return PX.primary(self, nostruct)          # `vec![a, b]` = the array literal
        return PX.primary(self, nostruct)

    def postfix(self, nostruct):
        """as `PX.postfix`, plus `e?` (functions of the spec marked `result=True`)"""
        e = self.primary(nostruct)
        while True:
            if self.at("."):
                pos = self.next().pos
                x = self.next()
                if x.kind == "num":
                    e = ("tidx", e, int(x.text), pos)
                    continue
                if x.kind != "id":
                    raise Unsupported("`.%s`" % x.text, x.pos)
                if self.at("::"):
                    self.next()
                    self.generic_args()
                if self.at("("):
                    e = ("mcall", e, x.text, self.args(), pos)
                else:
                    e = ("field", e, x.text, pos)
            elif self.at("["):
                pos = self.next().pos
                i = self.expr()
                self.expect("]")
                e = ("index", e, i, pos)
            elif self.at("?"):
                pos = self.next().pos
                e = ("try", e, pos)
            else:
                return e

    def pat(self):
        p = self.peek()
        if p.kind == "str":
            self.next()
            return ("pstr", p.text, p.pos)
        return PX.pat(self)

    def block_body(self, end):
        """as `PX.block_body`, plus the statements of a mutator: `<place> = e;` and `<place>.push(e);`"""
        stmts = []
        while True:
            if self.at(end) or self.peek().kind == "eof":
                return ("block", stmts, None)
            if self.at("let"):
                pos = self.next().pos
                p = self.pat()
                ty = None
                if self.at(":"):
                    self.next()
                    ty = self.ty()
                self.expect("=")
                e = self.expr()
                self.expect(";")
                stmts.append(("let", p, ty, e, pos))
                continue
            if self.at("return"):
                raise Unsupported("`return` (dialect gff translates expression-bodied functions only)", self.peek().pos)
            if self.at("for"):
                pos = self.next().pos
                pt = self.pat()
                self.expect("in")
                it = self.expr(nostruct=True)
                body = self.block()
                if body[2] is not None:
                    raise Unsupported("`for` body with a tail expression", pos)
                stmts.append(("for", pt, body, it, pos))
                continue
            if self.peek().kind == "id" and self.peek().text in ("while", "loop"):
                raise Unsupported("`%s` loop (dialect gff has no loops)" % self.peek().text, self.peek().pos)
            pos = self.peek().pos
            if self.at("if") and not self.at("let", 1):
                # `if c { stmts } [else { stmts }]` followed by more of the block: a statement (mutators)
                save = self.i
                self.next()
                c = self.expr(nostruct=True)
                a = self.block()
                b = None
                if self.at("else") and not self.at("if", 1):
                    self.next()
                    b = self.block()
                if a[2] is None and (b is None or b[2] is None) and not self.at("else"):
                    stmts.append(("ifstmt", c, a, b, pos))
                    continue
                self.i = save
            e = self.expr()
            if self.at("="):
                self.next()
                rhs = self.expr()
                self.expect(";")
                stmts.append(("assign", e, None, rhs, pos))
                continue
            if self.at(";"):
                if e[0] == "mcall" and e[2] == "push" and len(e[3]) == 1:
                    self.next()
                    stmts.append(("push", e[1], None, e[3][0], pos))
                    continue
                if e[0] == "mcall" and e[2] == "insert" and len(e[3]) == 2 and e[1][0] == "path" and len(e[1][1]) == 1:
                    self.next()
                    stmts.append(("insert", e[1], e[3][0], e[3][1], pos))
                    continue
                if (e[0] == "mcall" and e[2] in ("sort", "sort_unstable", "sort_by", "sort_unstable_by", "sort_by_key", "sort_unstable_by_key")
                        and e[1][0] == "path" and len(e[1][1]) == 1):
                    self.next()
                    stmts.append(("permute", e[1], None, None, pos))
                    continue
                raise Unsupported("expression statement (dialect gff: `let`, `self.f = e;`, `self.f.push(e);` and a tail expression)", pos)
            if self.peek().kind == "op" and self.peek().text in ("+=", "-=", "*="):
                raise Unsupported("compound assignment", self.peek().pos)
            if not (self.at(end) or self.peek().kind == "eof"):
                if e[0] in ("if", "match"):
                    raise Unsupported("`if` / `match` used as a statement", pos)
                raise Unsupported("expected the end of the block after its tail expression, found `%s`" % self.peek().text,
                                  self.peek().pos)
            return ("block", stmts, e)


# ================================================================================================== translation

class GffTr(Tr):
    def lean_ty(self, t):
        t = t.strip()
        if t in self.unit.get("types", {}):
            return self.unit["types"][t]
        if t in STR_TYS:
            return "List Nat"
        if t == "char":
            return "Nat"
        if t == MULTIMAP or t == GROUPS:
            return "List (List Nat × List (List Nat))"
        return Tr.lean_ty(self, t)

    def self_field_place(self, e):
        """`self.f` → f"""
        if e[0] == "field" and e[1][0] == "path" and e[1][1] == ["self"]:
            return e[2]
        return None

    def block(self, b, env, mon):
        lines = []
        env = dict(env)
        for (kind, p, ty, e, pos) in b[1]:
            if kind == "let" and e[0] == "closure" and p[0] == "pvar":
                # a local function: `let f = |x: T| e;`
                if len(e) < 5 or len(e[1]) != 1 or e[4][0] is None or e[1][0][0] != "pvar":
                    raise Unsupported("local closure without one typed parameter", pos)
                env2 = dict(env)
                env2[e[1][0][1]] = e[4][0]
                sub = []
                before = self.monadic
                c, t = self.expr(e[2], env2, sub)
                if sub or self.monadic != before:
                    raise Unsupported("local closure whose body has statements or can panic", pos)
                lines.append("let %s := fun (%s : %s) => %s" % (lname(p[1]), lname(e[1][0][1]), self.lean_ty(e[4][0]), c))
                env[p[1]] = "fn:%s" % t
                continue
            if kind == "let":
                code, t = self.expr(e, env, lines)
                t = ty or t
                lines.append("let %s := %s" % (self.pat_code(p, env, t), code))
                continue
            if kind == "insert":
                v = p[1][0]
                if env.get(v) != MULTIMAP or self.lean_ty(MULTIMAP) != "List (List Nat × List Nat)":
                    raise Unsupported("`.insert(..)` on `%s` (only a local MultiMap read as its insertion sequence)" % v, pos)
                kc, _ = self.expr(ty, env, lines)
                vc, _ = self.expr(e, env, lines)
                lines.append("let %s := %s ++ [(%s, %s)]" % (lname(v), lname(v), kc, vc))
                continue
            if kind == "for":
                # `for pat in items { … }` over a list, the body updating one local accumulator = `List.foldl`
                accs = sorted(set(mutated_locals(ty)))
                if len(accs) != 1 or accs[0] not in env:
                    raise Unsupported("`for` loop that updates %s (exactly one local accumulator is read)" % (accs or "nothing"), pos)
                a = accs[0]
                it, tit = self.expr(e, env, lines)
                et = self.elem_ty(tit)
                if et is None:
                    raise Unsupported("`for` over a value of type %s" % tit, pos)
                env2 = dict(env)
                pc = self.pat_code(p, env2, et)
                before = self.monadic
                ls, _, _ = self.block(ty, env2, None)
                if self.monadic != before or (self.mode_monadic and not getattr(self, "_probing", False)):
                    raise Unsupported("`for` loop in a function that can panic", pos)
                body = "\n" + "".join("    " + l.replace("\n", "\n    ") + "\n" for l in ls) + "    " + lname(a)
                lines.append("let %s := List.foldl (fun %s %s => %s) %s %s" % (lname(a), lname(a), pc, body, lname(a), atom(it)))
                continue
            if kind == "permute":
                # `xs.sort…(..)`: whatever the comparison, the slice afterwards is a permutation of the slice before
                v = p[1][0]
                if (v not in env or (self.elem_ty(env[v]) or "").replace(" ", "") != "(String,Vec<String>)"
                        or "permGroups" not in (self.f.get("abs") or [])):
                    raise Unsupported("sorting of `%s` (only a local list of key groups, in a function whose spec has `permGroups`)" % v, pos)
                if "permGroups" not in self.used_abs:
                    self.used_abs.append("permGroups")
                lines.append("let %s := permGroups %s" % (lname(v), lname(v)))
                continue
            if not self.f.get("mut_self"):
                raise Unsupported("assignment in a function that is not declared a mutator of `self`", pos)
            if kind == "ifstmt":
                c, _ = self.expr(p, env, lines)
                arms = []
                for blk in (ty, e):
                    if blk is None:
                        arms.append("pure self" if self.mode_monadic else "self")
                        continue
                    ls, _, _ = self.block(blk, env, None)
                    arms.append(self.render([l.replace("\n", "\n  ") for l in ls], "self", 2))
                code = "(if %s then %s else %s)" % (c, atom_block(arms[0]), atom_block(arms[1]))
                lines.append(("let self ← %s" if self.mode_monadic else "let self := %s") % code)
                continue
            if p[0] == "index" and self.self_field_place(p[1]) is not None:
                fld = self.self_field_place(p[1])
                i, _ = self.expr(p[2], env, lines)
                code, t = self.expr(e, env, lines)
                tmp = self.bind(lines, "Rs.setIdx self.%s %s %s" % (lname(fld), atom(i), atom(code)))
                lines.append("let self := { self with %s := %s }" % (lname(fld), tmp))
                continue
            fld = self.self_field_place(p)
            st = self.norm(self.f.get("self_ty"))
            if fld is None or st not in self.decls or fld not in dict(self.decls[st]["fields"]):
                raise Unsupported("assignment to something that is not a field of `self`", pos)
            fty = dict(self.decls[st]["fields"])[fld]
            code, t = self.expr(e, env, lines)
            if kind == "assign":
                lines.append("let self := { self with %s := %s }" % (lname(fld), code))
            else:
                if not re.match(r"^Vec<.*>$", fty):
                    raise Unsupported("`.push` on a field of type %s" % fty, pos)
                lines.append("let self := { self with %s := self.%s ++ [%s] }" % (lname(fld), lname(fld), code))
        if b[2] is None:
            return lines, "()", "()"
        code, t = self.expr(b[2], env, lines)
        return lines, code, t

    def pat_code(self, p, env, ty):
        if p[0] == "pstr":
            return bytes_lit(str_bytes(p[1], p[2]))
        return Tr.pat_code(self, p, env, ty)

    def disp(self, code, t, pos):
        """`Display` form of a value"""
        if t in STR_TYS:
            return code
        if t == "char":
            return "Rs.charStr %s" % atom(code)
        raise Unsupported("`{}` / `to_string` of a value of type %s" % t, pos)

    def expr(self, e, env, lines):
        k = e[0]
        if k == "str":
            return bytes_lit(str_bytes(e[1], e[2])), "str"
        if k == "format":
            pieces = e[1][1:-1].split("{}")
            if any("{" in s or "}" in s for s in pieces) or len(pieces) != len(e[2]) + 1:
                raise Unsupported("`format!` string %s (only `{}` place holders, one per argument)" % e[1], e[3])
            parts = []
            for i, s in enumerate(pieces):
                if s:
                    parts.append(bytes_lit(str_bytes('"' + s + '"', e[3])))
                if i < len(e[2]):
                    c, t = self.expr(e[2][i], env, lines)
                    parts.append(atom(self.disp(c, t, e[3])))
            return "(" + " ++ ".join(parts or ["([] : List Nat)"]) + ")", "String"
        if k == "as" and e[2] == "char":
            c, t = self.expr(e[1], env, lines)
            if t != "u8":
                raise Unsupported("`as char` on a value of type %s" % t, e[3])
            return c, "char"
        if k == "field" and self.self_field_place(e) == "inner" and self.f.get("inner"):
            return "inner", self.f["inner"]
        if k == "index" and e[2][0] == "str":
            c, t = self.expr(e[1], env, lines)
            name = e[2][1][1:-1]
            if t != "Captures" or name not in ("key", "value"):
                raise Unsupported("`[%s]` on a value of type %s" % (e[2][1], t), e[3])
            return atom(c) + (".1" if name == "key" else ".2"), "str"
        if k == "try":
            if not self.f.get("result"):
                raise Unsupported("`?` in a function that is not declared `result`", e[2])
            c, t = self.expr(e[1], env, lines)
            m = re.match(r"^Result<(.*)>$", t or "")
            if not m:
                raise Unsupported("`?` on a value of type %s" % t, e[2])
            return self.bind_try(lines, c), m.group(1)
        if k == "path" and e[1] == ["true"]:
            return "true", "bool"
        if k == "path" and e[1] == ["false"]:
            return "false", "bool"
        return Tr.expr(self, e, env, lines)

    def bind_try(self, lines, code):
        self._try = True
        try:
            return self.bind(lines, code)
        finally:
            self._try = False

    def bind(self, lines, code):
        if self.f.get("result") and not getattr(self, "_try", False):
            raise Unsupported("an operation that can panic (`%s`) in a `result` function" % code.split()[0])
        if not self.f.get("result") and getattr(self, "_try", False):
            raise Unsupported("`?` outside a `result` function")
        return Tr.bind(self, lines, code)

    def call(self, e, env, lines):
        path, args, pos = e[1], e[2], e[3]
        key = "::".join(path)
        if len(path) == 1 and str(env.get(key, "")).startswith("fn:") and len(args) == 1:
            c, t = self.expr(args[0], env, lines)
            return "%s %s" % (lname(key), atom(c)), env[key][3:]
        if key == "MultiMap::new" and not args:
            return "[]", MULTIMAP
        if key == "Ok" and len(args) == 1 and self.f.get("result"):
            c, t = self.expr(args[0], env, lines)
            return c, t
        if key == "Err" and len(args) == 1 and self.f.get("result"):
            return self.bind_try(lines, "(throw () : Except Unit _)"), None          # the error value is no part of any property
        if key == "u8::from_str" and len(args) == 1:
            c, t = self.expr(args[0], env, lines)
            if t not in STR_TYS:
                raise Unsupported("`u8::from_str` on a value of type %s" % t, pos)
            return "Rs.parseU8 %s" % atom(c), "Result<u8>"
        if key == "Phase" and len(args) == 1 and self.unit.get("types", {}).get("Phase") == "Option Nat":
            c, t = self.expr(args[0], env, lines)
            return c, "Phase"
        if key == "String::from_utf8" and len(args) == 1 and args[0][0] == "array" and len(args[0][1]) == 1:
            c, t = self.expr(args[0][1][0], env, lines)
            if t != "u8":
                raise Unsupported("`String::from_utf8(vec![x])` with x of type %s" % t, pos)
            return "Rs.fromUtf8One %s" % atom(c), "Option<String>"
        return Tr.call(self, e, env, lines)

    def struct_lit(self, e, env, lines):
        """fields the spec skips (`inner`) must be initialised by the pinned expression (`pinned_fields`) and are dropped"""
        name = e[1][-1]
        skip = self.unit.get("decls", {}).get(name, {}).get("skip", [])
        pinned = self.f.get("pinned_fields", {})
        keep = []
        for fl, v in e[2]:
            if fl in skip:
                if fl not in pinned or ast_sig(v) != pinned[fl]:
                    raise Unsupported("initialiser of the field `%s` (the translation spec pins it: %s; found %s)"
                                      % (fl, pinned.get(fl), ast_sig(v)), e[3])
                continue
            keep.append((fl, v))
        return Tr.struct_lit(self, (e[0], e[1], keep, e[3]), env, lines)

    def ser_component(self, c, t, pos):
        if t in STR_TYS:
            return "[%s]" % c
        if t in INT_W:
            return "[dec %s]" % atom(c)
        if t == "Vec<String>":
            return c
        if t == "Phase":
            return "[Rs.serPhase dec %s]" % atom(c)
        raise Unsupported("serialisation of a tuple component of type %s" % t, pos)

    def mcall(self, e, env, lines):
        _, recv, m, args, pos = e
        if m == "serialize" and len(args) == 1 and self.f.get("inner"):
            c, t = self.expr(recv, env, lines)
            if t != self.f["inner"]:
                raise Unsupported("`.serialize` on a value of type %s" % t, pos)
            a = args[0]
            comps = a[1] if a[0] == "tuple" else [a]
            parts = []
            for x in comps:
                cx, tx = self.expr(x, env, lines)
                parts.append(self.ser_component(cx, tx, pos))
            for ab in ("serialize", "dec"):
                if ab not in self.used_abs:
                    self.used_abs.append(ab)
            return "serialize %s (Rs.csvFields [%s])" % (atom(c), ", ".join(parts)), "csv::Result<()>"
        if m == "map_err" and len(args) == 1 and args[0][0] == "closure" and self.f.get("result"):
            return self.expr(recv, env, lines)          # errors are erased (`Except Unit`)
        if m == "split" and len(args) == 1:
            c, t = self.expr(recv, env, lines)
            x, tx = self.expr(args[0], env, lines)
            if t not in STR_TYS or tx != "char":
                raise Unsupported("`.split(..)` on %s with a pattern of type %s" % (t, tx), pos)
            return "Rs.splitChar %s %s" % (atom(x), atom(c)), "[str]"
        if m == "trim_matches" and len(args) == 1:
            c, t = self.expr(recv, env, lines)
            a0 = args[0]
            if t not in STR_TYS or a0[0] != "num" or a0[2] != "char" or a0[1] >= 128:
                raise Unsupported("`.trim_matches(..)` (only on a string, with an ASCII char literal)", pos)
            return "Rs.trimByte %d %s" % (a0[1], atom(c)), "str"
        if m == "into" and not args:
            c, t = self.expr(recv, env, lines)
            if t not in INT_W:
                raise Unsupported("`.into()` on a value of type %s" % t, pos)
            return c, t
        if any(a[0] == "closure" for a in args) or m == "map":
            return Tr.mcall(self, e, env, lines)
        if m in ("is_empty", "iter_all", "to_string", "join", "as_str"):
            c, t = self.expr(recv, env, lines)
            if m == "is_empty" and not args:
                if not (t in STR_TYS or t == MULTIMAP or (t and re.match(r"^(Vec<.*>|\[.*\])$", t))):
                    raise Unsupported("`.is_empty()` on a value of type %s" % t, pos)
                return "List.isEmpty %s" % atom(c), "bool"
            if m == "iter_all" and not args:
                if t != MULTIMAP:
                    raise Unsupported("`.iter_all()` on a value of type %s" % t, pos)
                return c, GROUPS
            if m == "as_str" and not args and t in STR_TYS:
                return c, "str"
            if m == "to_string" and not args:
                return self.disp(c, t, pos), "String"
            if m == "join" and len(args) == 1:
                et = self.elem_ty(t)
                if et not in STR_TYS:
                    raise Unsupported("`.join(..)` on a value of type %s" % t, pos)
                s, ts = self.expr(args[0], env, lines)
                if ts not in STR_TYS:
                    raise Unsupported("`.join(..)` with a separator of type %s" % ts, pos)
                return "Rs.joinStr %s %s" % (atom(s), atom(c)), "String"
            raise Unsupported("method `.%s(…)` on a value of type %s" % (m, t), pos)
        if m in self.IDENT_METHODS and not args:
            c, t = self.expr(recv, env, [])
            if t == MULTIMAP:
                raise Unsupported("`.%s()` on a MultiMap (only `iter_all()`, `is_empty()` are read)" % m, pos)
        return Tr.mcall(self, e, env, lines)

    def translate(self, body, start):
        f = self.f
        toks = apply_rewrites(gff_tokenize(body, start), self.unit.get("rewrites", []) + f.get("rewrites", []))
        p = GffPX(toks)
        b = p.block_body("<eof>")
        if p.peek().kind != "eof":
            raise Unsupported("unexpected `%s`" % p.peek().text, p.peek().pos)
        if f.get("mut_self") and b[2] is not None:
            raise Unsupported("mutator with a tail expression", p.peek().pos)
        if f.get("mut_self") and not b[1]:
            raise Unsupported("mutator without statements", p.peek().pos)
        env = {}
        for n, t in f.get("params", []):
            env[n] = t
        self.mode_monadic = True
        self._probing = True
        self.block(b, env, None)
        self._probing = False
        mon = self.monadic or f.get("force_monadic", False) or bool(f.get("result"))
        self.ntemp, self.used_abs = 0, []
        self.mode_monadic = mon
        lines, code, t = self.block(b, env, None)
        if f.get("mut_self"):
            code = "self"
        ps = []
        for a in self.unit.get("abstract", []):
            if f.get("abs") is not None and a[0] in f["abs"]:
                ps.append("(%s : %s)" % (a[0], a[1]))
        for a in self.used_abs:
            if a not in (f.get("abs") or []):
                raise Unsupported("abstract operation `%s` in a function whose spec does not list it" % a)
        if f.get("inner"):
            ps.append("(inner : %s)" % self.lean_ty(f["inner"]))
        if f.get("self_ty"):
            ps.append("(self : %s)" % self.lean_ty(f["self_ty"]))
        for n, t2 in f.get("params", []):
            ps.append("(%s : %s)" % (lname(n), self.lean_ty(t2)))
        ret = self.lean_ty(f["ret"])
        if f.get("result"):
            head = "def %s %s : Except Unit %s := do" % (f["lean"], " ".join(ps), atom_ty(ret))
            text = head + "\n" + "".join("  " + l + "\n" for l in lines) + "  pure %s" % atom(code)
        elif mon:
            head = "def %s %s : Res %s := do" % (f["lean"], " ".join(ps), atom_ty(ret))
            text = head + "\n" + "".join("  " + l + "\n" for l in lines) + "  pure %s" % atom(code)
        else:
            head = "def %s %s : %s :=" % (f["lean"], " ".join(ps), ret)
            text = head + "\n" + "".join("  " + l + "\n" for l in lines) + "  " + code
        return text, mon


class _NoAttrs:
    """the source with attributes `#[…]` blanked (same positions): `blank_attrs=True` of a struct of the spec whose field
    attributes concern (de)serialisation by serde only (`#[serde(default)]`: a missing column is the empty vector — reader side)"""

    def __init__(self, src):
        self.code = re.sub(r"#\[[^\]\n]*\]", lambda m: " " * len(m.group(0)), src.code)
        self.line_of = src.line_of


def mutated_locals(block):
    """names of the local variables the statements of a block update (`x.insert(..)`, nested `for`)"""
    out = []
    for st in block[1]:
        if st[0] == "insert":
            out.append(st[1][1][0])
        elif st[0] == "for":
            out.extend(mutated_locals(st[2]))
        elif st[0] in ("assign", "push", "permute", "ifstmt"):
            out.append("<%s>" % st[0])
    return out


def ast_sig(e):
    """canonical text of a call chain (positions dropped): how the spec pins an initialiser it does not translate"""
    k = e[0]
    if k == "num":
        return str(e[1])
    if k == "path":
        return "::".join(e[1])
    if k == "call":
        return "::".join(e[1]) + "(" + ", ".join(ast_sig(a) for a in e[2]) + ")"
    if k == "mcall":
        return ast_sig(e[1]) + "." + e[2] + "(" + ", ".join(ast_sig(a) for a in e[3]) + ")"
    return "?"


def translate_unit(src, unit, fail):
    rel = unit["file"]
    decls, snippets = {}, {}
    try:
        for name, d in unit.get("decls", {}).items():
            decls[name] = read_decl(_NoAttrs(src) if d.get("blank_attrs") else src, d, fail, rel)
            snippets["item " + name] = decls[name]["text"]
    except Unsupported as u:
        fail("%s:%s: cannot translate: %s (declaration outside the subset of tools/rs2lean_gengff.py)"
             % (rel, src.line_of(u.pos) if u.pos is not None else "?", u.msg))
    out = []
    for f in unit["functions"]:
        m, body, start, line = find_fn(src, f, fail, rel, "tools/rs2lean_gengff.py")
        snippets[f.get("key", f["name"])] = m.group(0)[:-1].strip() + " {" + body + "}"
        try:
            tr = GffTr(unit, f, decls)
            text, mon = tr.translate(body, start)
        except Unsupported as u:
            where = "%s:%d" % (rel, src.line_of(u.pos)) if u.pos is not None else "%s:%d" % (rel, line)
            fail("%s: fn %s: cannot translate: %s (outside the subset of tools/rs2lean_gengff.py, dialect gff; the equality "
                 "theorem %s can no longer be regenerated)" % (where, f["name"], u.msg, f.get("theorem", "")))
        out.append((f, line, body, text))
    name = unit["name"]
    txt = ["import RbV.Basic.RsSemGengff"] + ["import " + m for m in unit.get("imports", [])] + [
        "/-! GENERATED by tools/rs2lean_gengff.py (dialect gff; tools/gen_tables.py, %s) — do not edit." % unit["props"],
        "Translation of the *text* of the following items of `%s` (comments blanked) into Lean, regenerated from the" % rel,
        "source tree on every `./check`.  Semantics: `RbV/Basic/RsSem.lean`, `RbV/Basic/RsSemGengff.lean` (`Res.panic` = the",
        "Rust code panics; a function none of whose operations can panic is a pure Lean function; strings are UTF-8 byte",
        "lists; a `MultiMap` is the list of its key groups in its own iteration order; `serialize` / `dec` abstract).",
        "Theorems: `RbV/Thm/Gen%s.lean`." % name, ""]
    for n, d in decls.items():
        txt.append("```")
        txt.extend(l.rstrip().replace("-/", "- /").replace("/-", "/ -") for l in dedent(d["text"]).splitlines() if l.strip())
        txt.append("```")
    for f, line, body, text in out:
        txt.append("`%s`%s (line %d):" % (" ".join(f["header"].split()), " in `%s`" % " ".join(f["within"].split()) if f.get("within") else "", line))
        txt.append("```")
        txt.extend(l.rstrip().replace("-/", "- /").replace("/-", "/ -") for l in dedent(body).splitlines() if l.strip())
        txt.append("```")
    txt.append("-/")
    txt.append("set_option linter.unusedVariables false")
    txt.append("namespace RbV.Gen.%s" % name)
    txt.append("open RbV RbV.Rs")
    if unit.get("variables"):
        txt.append("variable " + " ".join("{%s : Type}" % v for v in unit["variables"]))
    txt.append("")
    tr0 = GffTr(unit, {}, decls)
    for n, d in decls.items():
        txt.append(decl_lean(n, d, tr0))
        txt.append("")
    for f, line, body, text in out:
        txt.append("/-- `%s` (%s, line %d) -/" % (" ".join(f["header"].split()).replace("-/", "- /"), rel, line))
        txt.append(text)
        txt.append("")
    txt.append("end RbV.Gen.%s" % name)
    return "\n".join(txt) + "\n", snippets


# ================================================================================================== units

UNITS = {}


def unit(**kw):
    UNITS[kw["name"]] = kw
    return kw


ABSTRACT = [("serialize", "ω → List (List Nat) → ρ"), ("dec", "Nat → List Nat"),
            ("permGroups", "List (List Nat × List (List Nat)) → List (List Nat × List (List Nat))")]
CSV_W = "csv::Writer<W>"

unit(name="SrcBed", file="src/io/bed.rs", props="property C13", variables=["ω", "ρ"],
     types={CSV_W: "ω", "csv::Result<()>": "ρ", "Option<strand::Strand>": "Option Rs.Strand", "strand::Strand": "Rs.Strand",
            "Option<str>": "Option (List Nat)"},
     paths={"strand::Strand::Forward": ("Rs.Strand.Forward", "strand::Strand"),
            "strand::Strand::Reverse": ("Rs.Strand.Reverse", "strand::Strand")},
     abstract=ABSTRACT,
     decls={"Writer": dict(kind="struct", head="pub struct Writer<W: io::Write>", lean="Writer", skip=["inner"]),
            "Record": dict(kind="struct", head="pub struct Record", lean="Record", blank_attrs=True)},
     methods={"Record.aux": dict(lean="aux", monadic=True, ret="Option<str>")},
     functions=[
         dict(name="write", lean="write", within="impl<W: io::Write> Writer<W>",
              header="pub fn write(&mut self, record: &Record) -> csv::Result<()>", self_ty="Writer", inner=CSV_W,
              params=[("record", "Record")], ret="csv::Result<()>", abs=["serialize", "dec"], theorem="write_eq_model"),
         dict(name="aux", lean="aux", within="impl Record", header="pub fn aux(&self, i: usize) -> Option<&str>",
              self_ty="Record", params=[("i", "usize")], ret="Option<str>", theorem="aux_eq_model"),
         dict(name="name", lean="name", within="impl Record", header="pub fn name(&self) -> Option<&str>",
              self_ty="Record", params=[], ret="Option<str>", theorem="accessors_eq_model"),
         dict(name="score", lean="score", within="impl Record", header="pub fn score(&self) -> Option<&str>",
              self_ty="Record", params=[], ret="Option<str>", theorem="accessors_eq_model"),
         dict(name="strand", lean="strand", within="impl Record", header="pub fn strand(&self) -> Option<strand::Strand>",
              self_ty="Record", params=[], ret="Option<strand::Strand>", theorem="accessors_eq_model"),
         dict(name="chrom", lean="chrom", within="impl Record", header="pub fn chrom(&self) -> &str",
              self_ty="Record", params=[], ret="str"),
         dict(name="start", lean="start", within="impl Record", header="pub fn start(&self) -> u64",
              self_ty="Record", params=[], ret="u64"),
         dict(name="end", lean="end'", within="impl Record", header="pub fn end(&self) -> u64",
              self_ty="Record", params=[], ret="u64"),
         dict(name="set_chrom", lean="setChrom", within="impl Record", header="pub fn set_chrom(&mut self, chrom: &str)",
              self_ty="Record", params=[("chrom", "str")], ret="Record", mut_self=True, theorem="setters_eq_model"),
         dict(name="set_start", lean="setStart", within="impl Record", header="pub fn set_start(&mut self, start: u64)",
              self_ty="Record", params=[("start", "u64")], ret="Record", mut_self=True, theorem="setters_eq_model"),
         dict(name="set_end", lean="setEnd", within="impl Record", header="pub fn set_end(&mut self, end: u64)",
              self_ty="Record", params=[("end", "u64")], ret="Record", mut_self=True, theorem="setters_eq_model"),
         dict(name="push_aux", lean="pushAux", within="impl Record", header="pub fn push_aux(&mut self, field: &str)",
              self_ty="Record", params=[("field", "str")], ret="Record", mut_self=True, theorem="setters_eq_model"),
         dict(name="set_name", lean="setName", within="impl Record", header="pub fn set_name(&mut self, name: &str)",
              self_ty="Record", params=[("name", "str")], ret="Record", mut_self=True, force_monadic=True, theorem="setName_eq_model"),
         dict(name="set_score", lean="setScore", within="impl Record", header="pub fn set_score(&mut self, score: &str)",
              self_ty="Record", params=[("score", "str")], ret="Record", mut_self=True, force_monadic=True, theorem="setScore_eq_model"),
     ])

unit(name="SrcGff", file="src/io/gff.rs", props="property C13", variables=["ω", "ρ"],
     types={CSV_W: "ω", "csv::Result<()>": "ρ", "Phase": "Option Nat", "(u8, u8, u8)": "Nat × Nat × Nat"},
     abstract=ABSTRACT,
     decls={"GffType": dict(kind="enum", head="pub enum GffType", lean="GffType"),
            "Writer": dict(kind="struct", head="pub struct Writer<W: io::Write>", lean="Writer", skip=["inner"]),
            "Record": dict(kind="struct", head="pub struct Record", lean="Record")},
     methods={"GffType.separator": dict(lean="separator", ret="(u8, u8, u8)")},
     functions=[
         dict(name="separator", lean="separator", within="impl GffType", header="fn separator(self) -> (u8, u8, u8)",
              self_ty="GffType", params=[], ret="(u8, u8, u8)", theorem="separator_eq_model"),
         dict(name="write", lean="write", within="impl<W: io::Write> Writer<W>",
              header="pub fn write(&mut self, record: &Record) -> csv::Result<()>", self_ty="Writer", inner=CSV_W,
              params=[("record", "Record")], ret="csv::Result<()>", abs=["serialize", "dec", "permGroups"], theorem="write_eq_model"),
         dict(name="new", lean="writerNew", within="impl<W: io::Write> Writer<W>",
              header="pub fn new(writer: W, fileformat: GffType) -> Self",
              params=[("fileformat", "GffType")], ret="Writer", force_monadic=True, theorem="writerNew_eq_model",
              pinned_fields={"inner": "csv::WriterBuilder::new().delimiter(9).flexible(true).from_writer(writer)"}),
     ])

COLS = [("seqname", "String"), ("source", "String"), ("feature_type", "String"), ("start", "u64"), ("end", "u64"),
        ("score", "String"), ("strand", "String"), ("phase", "Phase"), ("raw_attributes", "String")]

unit(name="SrcGffRead", file="src/io/gff.rs", props="property C13",
     # the reader's MultiMap is read as its insertion sequence of (key, value) pairs (`insert` appends)
     types={"Phase": "Option Nat", "Option<u8>": "Option Nat", MULTIMAP: "List (List Nat × List Nat)", "Regex": "Unit",
            "Captures": "(List Nat × List Nat)"},
     abstract=[("captures", "List Nat → List (List Nat × List Nat)")],
     decls={"Records": dict(kind="struct", head="pub struct Records<'a, R: io::Read>", lean="Records", skip=["inner"]),
            "Record": dict(kind="struct", head="pub struct Record", lean="Record")},
     methods={".captures_iter": dict(lean="captures", recv=False, ret="[Captures]")},
     calls={"Self::validate": dict(lean="validate", ret="Option<u8>")},
     functions=[
         # the closure of `Records::next` that builds the record from the nine deserialised columns (pinned by its parameter list)
         dict(name="next (record closure)", key="next_closure", lean="recordOfColumns",
              within="impl<'a, R: io::Read> Iterator for Records<'a, R>",
              header="|( seqname, source, feature_type, start, end, score, strand, phase, raw_attributes, )|",
              self_ty="Records", params=COLS, ret="Record", abs=["captures"], theorem="recordOfColumns_eq_model"),
         dict(name="validate", lean="validate", within="impl Phase", header="fn validate<T: Into<u8>>(p: T) -> Option<u8>",
              params=[("p", "u8")], ret="Option<u8>", theorem="validate_eq_model"),
         dict(name="deserialize", lean="phaseDeserialize", within="impl<'de> Deserialize<'de> for Phase",
              header="fn deserialize<D>(deserializer: D) -> Result<Self, D::Error> where D: Deserializer<'de>,",
              params=[("field", "String")], ret="Phase", result=True, theorem="phaseDeserialize_refines_model",
              # trusted reading: `String::deserialize(deserializer)?` hands the csv column over as a string
              rewrites=[("String::deserialize(deserializer)?", "field")]),
     ])


# ================================================================================================== self-test, main

SELFTEST_RS = r"""
pub struct Writer<W: io::Write> {
    inner: csv::Writer<W>,
    sep: char,
    term: String,
    vd: u8,
}
pub struct Record {
    name: String,
    pos: u64,
    tags: Vec<String>,
    attributes: MultiMap<String, String>,
}
impl Record {
    pub fn tag(&self, i: usize) -> Option<&str> {
        let j = i - 1;
        if j < self.tags.len() {
            Some(&self.tags[j])
        } else {
            None
        }
    }
    pub fn plus(&self) -> Option<u64> {
        match self.tag(1) {
            Some("+") => Some(1),
            _ => None,
        }
    }
    pub fn set_name(&mut self, name: &str) {
        self.name = name.to_owned();
        self.tags.push(name.to_owned());
    }
}
impl Record {
    pub fn set_tag(&mut self, tag: &str) {
        if self.tags.is_empty() {
            self.tags.push(tag.to_owned());
        } else {
            self.tags[0] = tag.to_owned();
        }
    }
    fn small(p: u8) -> Option<u8> {
        if p < 3 {
            Some(p)
        } else {
            None
        }
    }
    fn parse(field: String) -> Result<Option<u8>, String> {
        let s = field;
        match s.as_str() {
            "." => Ok(None),
            _ => {
                let p = u8::from_str(&s).map_err(|_| "bad")?;
                match Self::small(p) {
                    Some(p) => Ok(Some(p)),
                    None => Err("big"),
                }
            }
        }
    }
    fn pairs(&self, raw: String) -> Vec<String> {
        let trim = |s: &str| s.trim_matches('\'').trim_matches('"').to_owned();
        let mut out = MultiMap::new();
        for caps in self.re.captures_iter(&raw) {
            for value in caps["value"].split(',') {
                out.insert(trim(&caps["key"]), trim(value));
            }
        }
        out
    }
}
impl<W: io::Write> Writer<W> {
    pub fn make(writer: W, t: u8) -> Self {
        Writer {
            inner: csv::WriterBuilder::new().delimiter(b'\t').from_writer(writer),
            sep: t as char,
            term: String::from_utf8(vec![t]).unwrap(),
            vd: t,
        }
    }
    pub fn write(&mut self, record: &Record) -> csv::Result<()> {
        let attributes = if !record.attributes.is_empty() {
            let vd = (self.vd as char).to_string();
            let mut entries: Vec<(&String, &Vec<String>)> = record.attributes.iter_all().collect();
            entries.sort_unstable_by(|x, y| x.0.cmp(y.0));
            entries
                .into_iter()
                .map(|(a, values)| format!("{}{}{}", a, self.sep, values.iter().join(&vd)))
                .join(&self.term)
        } else {
            "-".to_owned()
        };
        self.inner.serialize((&record.name, record.pos, &record.tags, attributes))
    }
}
"""

SELFTEST_UNIT = dict(
    name="SelfGff", file="selftest.rs", props="self-test", variables=["ω", "ρ"],
    types={CSV_W: "ω", "csv::Result<()>": "ρ", "Option<str>": "Option (List Nat)", "Option<u64>": "Option Nat",
           "Option<u8>": "Option Nat", "Captures": "(List Nat × List Nat)", "PairMap": "List (List Nat × List Nat)"},
    abstract=ABSTRACT + [("captures", "List Nat → List (List Nat × List Nat)")],
    decls={"Writer": dict(kind="struct", head="pub struct Writer<W: io::Write>", lean="Writer", skip=["inner"]),
           "Record": dict(kind="struct", head="pub struct Record", lean="Record")},
    methods={"Record.tag": dict(lean="tag", monadic=True, ret="Option<str>"),
             ".captures_iter": dict(lean="captures", recv=False, ret="[Captures]")},
    calls={"Self::small": dict(lean="small", ret="Option<u8>")},
    functions=[
        dict(name="tag", lean="tag", header="pub fn tag(&self, i: usize) -> Option<&str>", self_ty="Record",
             params=[("i", "usize")], ret="Option<str>"),
        dict(name="plus", lean="plus", header="pub fn plus(&self) -> Option<u64>", self_ty="Record", params=[], ret="Option<u64>"),
        dict(name="set_name", lean="setName", header="pub fn set_name(&mut self, name: &str)", self_ty="Record",
             params=[("name", "str")], ret="Record", mut_self=True),
        dict(name="write", lean="write", header="pub fn write(&mut self, record: &Record) -> csv::Result<()>", self_ty="Writer",
             inner=CSV_W, params=[("record", "Record")], ret="csv::Result<()>", abs=["serialize", "dec", "permGroups"]),
        dict(name="set_tag", lean="setTag", header="pub fn set_tag(&mut self, tag: &str)", self_ty="Record",
             params=[("tag", "str")], ret="Record", mut_self=True, force_monadic=True),
        dict(name="small", lean="small", header="fn small(p: u8) -> Option<u8>", params=[("p", "u8")], ret="Option<u8>"),
        dict(name="parse", lean="parse", header="fn parse(field: String) -> Result<Option<u8>, String>", params=[("field", "String")],
             ret="Option<u8>", result=True),
        dict(name="make", lean="make", header="pub fn make(writer: W, t: u8) -> Self", params=[("t", "u8")], ret="Writer",
             force_monadic=True, pinned_fields={"inner": "csv::WriterBuilder::new().delimiter(9).from_writer(writer)"}),
    ])

# (edit of the self-test text, reason it must be refused with)
SELFTEST_REFUSED = [
    (("self.name = name.to_owned();", "self.name = name.to_owned(); self.pos += 1;"), "compound assignment"),
    (("let j = i - 1;", "let j = i - 1; for _ in 0..j { }"), "loop"),
    (('format!("{}{}{}", a, self.sep,', 'format!("{}{:?}{}", a, self.sep,'), "format!"),
    ((".iter_all()", ".iter()"), "on a MultiMap"),
    (("values.iter().join(&vd)", "values.iter().map(|b| self.escaped(b)).join(&vd)"), "escaped"),
    (("self.inner.serialize((&record.name,", "self.inner.write_record((&record.name,"), "write_record"),
    (("attributes))", "record.tags.is_empty(), attributes))"), "serialisation"),
    (("self.tags.push(name.to_owned());", "self.tags.clear();"), "expression statement"),
    (("entries.sort_unstable_by(|x, y| x.0.cmp(y.0));", "entries.reverse();"), "expression statement"),
    ((".delimiter(b'\\t').from_writer(writer)", ".delimiter(b',').from_writer(writer)"), "pins it"),
    (('let p = u8::from_str(&s).map_err(|_| "bad")?;', 'let p = u8::from_str(&s).unwrap();'), "can panic"),
    (("self.tags[0] = tag.to_owned();", "self.tags[0] += 1;"), "compound assignment"),
    (('"-".to_owned()', 'return Ok(())'), "return"),
]

SELFTEST_CHECKS = r"""
open RbV RbV.Rs RbV.Gen.SelfGff
def ser (w : List (List (List Nat))) (fs : List (List Nat)) : List (List (List Nat)) := w ++ [fs]
def dec1 (n : Nat) : List Nat := [48 + n]
def r0 : Record := { name := [110], pos := 7, tags := [[43], [120]], attributes := [([107], [[1], [2]]), ([108], [[3]])] }
example : tag r0 1 = .ok (some [43]) := by decide
example : tag r0 0 = .panic := by decide
example : plus r0 = .ok (some 1) := by decide
example : (setName r0 [97]).tags = [[43], [120], [97]] := by decide
example : write ser dec1 id [] { sep := 61, term := [59], vd := 44 } r0
    = [[[110], [55], [43], [120], [107, 61, 1, 44, 2, 59, 108, 61, 3]]] := by decide
example : write ser dec1 List.reverse [] { sep := 61, term := [59], vd := 44 } r0
    = [[[110], [55], [43], [120], [108, 61, 3, 59, 107, 61, 1, 44, 2]]] := by decide
example : write ser dec1 id [] { sep := 61, term := [59], vd := 44 } { r0 with attributes := [] }
    = [[[110], [55], [43], [120], [45]]] := by decide
example : setTag r0 [97] = .ok { r0 with tags := [[97], [120]] } := by decide
example : (setTag { r0 with tags := [] } [97]) = .ok { r0 with tags := [[97]] } := by decide
example : parse [46] = .ok none := rfl
example : parse [50] = .ok (some 2) := rfl
example : parse [55] = .error () := rfl
example : parse [43, 49] = .ok (some 1) := rfl
example : make 59 = .ok { sep := 59, term := [59], vd := 59 } := by decide
example : make 200 = .panic := by decide
example : Rs.charStr 233 = [195, 169] := by decide
"""


def selftest(with_lean):
    def refuse(msg):
        raise gl._Refused(msg)
    src = gl._Src(SELFTEST_RS)
    t1, _ = translate_unit(src, SELFTEST_UNIT, refuse)
    t2, _ = translate_unit(gl._Src(SELFTEST_RS), SELFTEST_UNIT, refuse)
    assert t1 == t2, "translation is not deterministic"
    n = 0
    for (old, new), why in SELFTEST_REFUSED:
        assert old in SELFTEST_RS, old
        try:
            translate_unit(gl._Src(SELFTEST_RS.replace(old, new)), SELFTEST_UNIT, refuse)
        except gl._Refused as r:
            assert why.lower() in str(r).lower(), "refused for another reason: %s (expected %s)" % (r, why)
            n += 1
            continue
        raise AssertionError("not refused: %s" % new)
    print("rs2lean_gengff selftest: translation deterministic, %d snippets refused for the stated reason" % n)
    if with_lean:
        lean_dir = os.path.join(os.path.dirname(os.path.dirname(os.path.abspath(__file__))), "lean")
        d = os.path.join(lean_dir, ".lake", "selftest_gengff")
        os.makedirs(d, exist_ok=True)
        path = os.path.join(d, "SelfGff.lean")
        with open(path, "w") as fh:
            fh.write(t1 + SELFTEST_CHECKS)
        p = subprocess.run(["lake", "env", "lean", path], cwd=lean_dir, stdout=subprocess.PIPE, stderr=subprocess.STDOUT, text=True)
        if p.returncode != 0:
            print(p.stdout)
            raise SystemExit("rs2lean_gengff selftest: lean failed")
        print("rs2lean_gengff selftest: generated Lean compiles, 16 evaluations agree")


def main():
    ap = argparse.ArgumentParser()
    ap.add_argument("--selftest", action="store_true")
    ap.add_argument("--lean", action="store_true")
    ap.add_argument("--show", help="print the translation of a unit from --repo")
    ap.add_argument("--repo", default="/repo")
    a = ap.parse_args()
    if a.selftest:
        selftest(a.lean)
        return
    if a.show:
        import gen_tables
        u = UNITS[a.show]
        s = gen_tables.Src(a.repo, u["file"])
        text, _ = translate_unit(s, u, gen_tables.fail)
        print(text)


if __name__ == "__main__":
    main()
