#!/usr/bin/env python3
"""Dialect "poa" of the Rust→Lean translator (builder genpoa): `src/alignment/poa.rs` — the `Traceback` table, `Poa::custom`,
`Poa::global_banded`, `Traceback::alignment`, `Poa::add_alignment`, `Aligner::consensus` (docs/notes/GEN.md, "Dialect poa").

Built on tools/rs2lean_cfbase.py (tokenizer, `Parser` base class: token access, types, `Unsupported`, header pinning); grammar
and translation are this module's own.  Semantics: lean/RbV/Basic/RsSemGenpoa.lean (+ RsSem.lean, RsSemInt.lean, RsSemGenhmm.lean).

  * values, not references: `&`, `*`, `&mut` are dropped; a `&mut self` method returns the new `self`, callers re-bind;
    mutation of a variable is a shadowing `let`; an assignment to a *place* `v[i].0[k] = e`, `v[i].1 = e`, `x.f = e`,
    `v[i].0.push(e)` reads the enclosing values, rebuilds them and re-binds the base variable (index out of bounds panics).
  * `usize` arithmetic is checked (`Rs.add 64`, `Rs.sub`), `i32` arithmetic is checked (`Rs.iadd 32`, `Rs.imul 32`),
    `j as i32` is `Rs.usizeAsI32`; comparisons are `decide (…)`; tuples compare lexicographically.
  * `enum AlignmentOperation` = `POp`, `TracebackCell` = `Model.Cell`, `max` on cells = `Model.cmax`, `MIN_SCORE` =
    `RbV.Gen.Limits.minScorePoa`; `Traceback`, `Alignment` = the structures of RsSemGenpoa.lean (declarations pinned).
  * petgraph: the abstract operations of RsSemGenpoa.lean (`nodeCount`, `nodeWeight`, `neighborsIn`, `topoOrder`, `addNode`,
    `addEdge`, `findEdge`, `edgeWeightAdd`, `edgesConnecting` + `sumI32`); `let mut topo = Topo::new(&g); while let Some(v) =
    topo.next(&g) { … }` is a `for` loop over `topoOrder g`; `Topo::new(&g).next(&g)` is `(topoOrder g).head?`.
  * loops: `for` = `List.foldlM` of a named body helper `<fn>_for<k>` (state = the outer variables the body assigns, in
    declaration order; `if c { continue; }` = the rest of the body in the `else` branch); a `for` with `break` = recursive
    helper on the list of remaining items; `while` = recursive helper `<fn>_while<k>` on fuel (expression in the spec).
  * `match` on `AlignmentOperation` / `Option` as a statement (arms = blocks; result = the outer variables assigned), `if` as
    statement and as value, block values, struct literals, tuple fields, `.iter().enumerate()[.skip(n)][.rev()]`,
    `.max_by_key(|(_, &value)| value.1)`, `.map(|(idx, _)| idx)`, `.unwrap()`, `.is_empty()`, `.len()`, `.reverse()`, `vec![e; n]`.
Everything else raises `Unsupported`: the unit is `translation_unavailable` (soft fall-back to mirror model + correspondence run).

  python3 tools/rs2lean_genpoa.py --selftest [--lean]     python3 tools/rs2lean_genpoa.py --show SrcPoaAlign [--repo R]
"""
import sys, os, re, argparse

sys.path.insert(0, os.path.dirname(os.path.abspath(__file__)))
import rs2lean_cfbase as rs

N, Unsupported, tokenize, header_regex, dedent = rs.N, rs.Unsupported, rs.tokenize, rs.header_regex, rs.dedent
LEAN_KEYWORDS = set(rs.LEAN_KEYWORDS) | {"end", "from", "at", "this", "self_"}

# ================================================================================================== types
NAT, INT, BOOL, CELL, OP, TB, ALN, GRAPH, UNIT = ("nat",), ("int",), ("bool",), ("cell",), ("op",), ("tb",), ("aln",), ("graph",), ("unit",)


def tlist(t):
    return ("list", t)


def ttup(ts):
    return ("tup", tuple(ts))


def topt(t):
    return ("opt", t)


LEAN_TY = {"nat": "Nat", "int": "Int", "bool": "Bool", "cell": "Cell", "op": "POp", "tb": "Rs.Poa.Traceback",
           "aln": "Rs.Poa.Alignment", "graph": "Rs.Poa.Graph", "unit": "Unit"}


def lean_ty(t):
    k = t[0]
    if k in LEAN_TY:
        return LEAN_TY[k]
    if k == "list":
        return "List " + paren(lean_ty(t[1]))
    if k == "opt":
        return "Option " + paren(lean_ty(t[1]))
    if k == "tup":
        return " × ".join(paren(lean_ty(x)) if (x[0] == "tup" and i + 1 < len(t[1])) or x[0] in ("list", "opt") else lean_ty(x)
                          for i, x in enumerate(t[1]))
    raise Unsupported("type %r" % (t,))


def paren(s):
    return rs.atom(s)


def atom(s):
    return rs.atom(s)


def lname(n):
    return n + "_" if n in LEAN_KEYWORDS else n


def split_tuple(t):
    """the components of a literal tuple term `(a, b, c)` (None when `t` is not one)"""
    if not (t.startswith("(") and rs.matching_close(t) == len(t) - 1):
        return None
    parts, depth, cur = [], 0, ""
    for ch in t[1:-1]:
        if ch in "([{⟨":
            depth += 1
        elif ch in ")]}⟩":
            depth -= 1
        if ch == "," and depth == 0:
            parts.append(cur.strip())
            cur = ""
        else:
            cur += ch
    parts.append(cur.strip())
    return parts if len(parts) > 1 else None


def proj(term, k, n):
    """k-th component of an n-tuple term"""
    t = atom(term)
    if n == 1:
        return t
    parts = split_tuple(t)
    if parts is not None and len(parts) == n:
        return atom(parts[k])
    return t + ".2" * k + (".1" if k + 1 < n else "")


# ================================================================================================== parser

BINPREC = [("||",), ("&&",), ("==", "!=", "<", ">", "<=", ">="), ("+", "-"), ("*", "/", "%")]
ASSIGN_OPS = {"=": None, "+=": "+", "-=": "-", "*=": "*"}


class ParserP(rs.Parser):
    def type_(self):
        x = self.peek()
        if self.at("&"):
            self.next()
            if self.peek().kind == "life":
                self.next()
            if self.peek().kind == "id" and self.peek().text == "mut":
                self.next()
            return N("tref", x.pos, inner=self.type_())
        if self.at("["):
            self.next()
            el = self.type_()
            self.expect("]")
            return N("tslice", x.pos, elem=el, n=None)
        if self.at("("):
            self.next()
            items = []
            while not self.at(")"):
                items.append(self.type_())
                if self.at(","):
                    self.next()
            self.expect(")")
            return N("ttuple", x.pos, items=items)
        nm = self.ident()
        args = []
        if self.at("<"):
            self.next()
            while not (self.at(">") or self.at(">>")):
                args.append(self.type_())
                if self.at(","):
                    self.next()
            if self.at(">>"):
                t = self.t[self.i]
                self.t[self.i] = rs.Tok("op", ">", t.pos)
            else:
                self.next()
        return N("tname", x.pos, name=nm.text, args=args)

    def pattern(self):
        x = self.peek()
        if self.at("&"):
            self.next()
            return self.pattern()
        if self.at("("):
            self.next()
            items = []
            while not self.at(")"):
                items.append(self.pattern())
                if self.at(","):
                    self.next()
                elif not self.at(")"):
                    raise Unsupported("pattern", self.peek().pos)
            self.expect(")")
            if len(items) == 1:
                return items[0]
            return N("ptuple", x.pos, items=items)
        if self.at("mut"):
            self.next()
            return N("pid", x.pos, name=self.ident().text)
        if x.kind == "id":
            self.next()
            path = [x.text]
            while self.at("::"):
                self.next()
                path.append(self.ident().text)
            if self.at("("):
                self.next()
                args = []
                while not self.at(")"):
                    args.append(self.pattern())
                    if self.at(","):
                        self.next()
                self.expect(")")
                return N("pvariant", x.pos, path=path, args=args)
            if len(path) > 1 or path[0] == "None":
                return N("pvariant", x.pos, path=path, args=[])
            if x.text in ("ref", "box") or self.at("{") or self.at("@"):
                raise Unsupported("pattern `%s …`" % x.text, x.pos)
            return N("pid", x.pos, name=x.text)
        raise Unsupported("pattern starting with `%s`" % x.text, x.pos)

    def block(self):
        b = self.expect("{")
        stmts, tail = [], None
        while not self.at("}"):
            if self.peek().kind == "eof":
                raise Unsupported("unbalanced block", b.pos)
            s = self.stmt()
            if s.kind == "tail":
                if not self.at("}"):
                    raise Unsupported("expected `;` or `}` after the expression", self.peek().pos)
                tail = s.e
            else:
                stmts.append(s)
        self.expect("}")
        return N("block", b.pos, stmts=stmts, tail=tail)

    def body(self):
        stmts, tail = [], None
        p0 = self.peek().pos
        while self.peek().kind != "eof":
            s = self.stmt()
            if s.kind == "tail":
                if self.peek().kind != "eof":
                    raise Unsupported("expected `;` after the expression", self.peek().pos)
                tail = s.e
            else:
                stmts.append(s)
        return N("block", p0, stmts=stmts, tail=tail)

    def stmt(self):
        x = self.peek()
        if x.kind == "id" and x.text == "let":
            self.next()
            pat = self.pattern()
            ty = None
            if self.at(":"):
                self.next()
                ty = self.type_()
            self.expect("=")
            e = self.expr()
            self.expect(";")
            return N("let", x.pos, pat=pat, ty=ty, e=e)
        if x.kind == "id" and x.text == "for":
            self.next()
            pat = self.pattern()
            self.expect("in")
            it = self.expr(nostruct=True)
            body = self.block()
            return N("for", x.pos, pat=pat, it=it, body=body)
        if x.kind == "id" and x.text == "while":
            self.next()
            if self.at("let"):
                self.next()
                pat = self.pattern()
                self.expect("=")
                e = self.expr(nostruct=True)
                body = self.block()
                return N("whilelet", x.pos, pat=pat, e=e, body=body)
            c = self.expr(nostruct=True)
            body = self.block()
            return N("while", x.pos, c=c, body=body)
        if x.kind == "id" and x.text == "match":
            self.next()
            e = self.expr(nostruct=True)
            self.expect("{")
            arms = []
            while not self.at("}"):
                pat = self.pattern()
                self.expect("=>")
                if self.at("{"):
                    blk = self.block()
                else:
                    raise Unsupported("`match` arm that is not a block", self.peek().pos)
                if self.at(","):
                    self.next()
                arms.append((pat, blk))
            self.expect("}")
            if self.at(";"):
                self.next()
            return N("match", x.pos, e=e, arms=arms)
        if x.kind == "id" and x.text in ("break", "continue"):
            self.next()
            self.expect(";")
            return N(x.text, x.pos)
        if x.kind == "id" and x.text in ("loop", "return"):
            raise Unsupported("`%s` is outside the translated subset" % x.text, x.pos)
        if x.kind == "id" and x.text == "assert":
            self.next()
            self.expect("!")
            a = self.args()
            self.expect(";")
            return N("assert", x.pos, e=a[0])
        if x.kind == "id" and x.text == "if":
            e = self.if_()
            if (self.at("}") or self.peek().kind == "eof") and e.els is not None and e.then.tail is not None:
                return N("tail", x.pos, e=e)
            if self.at(";"):
                self.next()
            return N("ifs", x.pos, e=e)
        e = self.expr()
        if self.peek().kind == "op" and self.peek().text in ASSIGN_OPS:
            op = self.next().text
            r = self.expr()
            self.expect(";")
            return N("assign", x.pos, lhs=e, op=ASSIGN_OPS[op], e=r)
        if self.at(";"):
            self.next()
            return N("exprs", x.pos, e=e)
        return N("tail", x.pos, e=e)

    def if_(self):
        x = self.expect("if")
        if self.at("let"):
            raise Unsupported("`if let`", x.pos)
        c = self.expr(nostruct=True)
        then = self.block()
        els = None
        if self.at("else"):
            self.next()
            if self.at("if"):
                p = self.peek().pos
                inner = self.if_()
                els = N("block", p, stmts=[], tail=None)
                if inner.els is not None and inner.then.tail is not None:
                    els.tail = inner
                else:
                    els.stmts = [N("ifs", p, e=inner)]
            else:
                els = self.block()
        return N("if", x.pos, c=c, then=then, els=els)

    def expr(self, nostruct=False, lvl=0):
        if lvl == len(BINPREC):
            return self.castx(nostruct)
        l = self.expr(nostruct, lvl + 1)
        while self.peek().kind == "op" and self.peek().text in BINPREC[lvl]:
            if self.peek().text == "||" and lvl != 0:
                break
            op = self.next()
            r = self.expr(nostruct, lvl + 1)
            l = N("bin", op.pos, op=op.text, l=l, r=r)
        if lvl == 0 and (self.at("..") or self.at("..=")):
            op = self.next()
            r = self.expr(nostruct, 1)
            return N("range", op.pos, a=l, b=r, incl=(op.text == "..="))
        return l

    def castx(self, nostruct):
        e = self.unary(nostruct)
        while self.at("as"):
            x = self.next()
            e = N("cast", x.pos, e=e, ty=self.type_())
        return e

    def unary(self, nostruct):
        x = self.peek()
        if self.at("*") or self.at("&"):
            self.next()
            if self.at("mut"):
                self.next()
            return N("deref", x.pos, e=self.unary(nostruct))
        if self.at("&&"):
            self.next()
            return N("deref", x.pos, e=self.unary(nostruct))
        if self.at("!"):
            self.next()
            return N("not", x.pos, e=self.unary(nostruct))
        if self.at("-"):
            raise Unsupported("unary minus", x.pos)
        return self.postfix(self.primary(nostruct))

    def args(self):
        self.expect("(")
        a = []
        while not self.at(")"):
            a.append(self.expr())
            if self.at(","):
                self.next()
            elif not self.at(")"):
                raise Unsupported("argument list", self.peek().pos)
        self.expect(")")
        return a

    def skip_turbofish(self):
        if self.at("::") and self.at("<", 1):
            self.next()
            self.next()
            depth = 1
            while depth:
                t = self.next()
                if t.kind == "eof":
                    raise Unsupported("unbalanced `::<`", t.pos)
                if t.text == "<":
                    depth += 1
                elif t.text == ">":
                    depth -= 1
                elif t.text == ">>":
                    depth -= 2
            return True
        return False

    def postfix(self, e):
        while True:
            x = self.peek()
            if self.at("."):
                self.next()
                f = self.next()
                if f.kind == "num":
                    e = N("field", x.pos, e=e, i=int(f.text))
                    continue
                if f.kind != "id":
                    raise Unsupported("`.%s`" % f.text, f.pos)
                self.skip_turbofish()
                if self.at("("):
                    e = N("mcall", x.pos, recv=e, name=f.text, args=self.args())
                else:
                    e = N("fieldn", x.pos, e=e, name=f.text)
                continue
            if self.at("["):
                self.next()
                a = self.expr()
                self.expect("]")
                e = N("index", x.pos, e=e, i=a)
                continue
            if self.at("?"):
                raise Unsupported("`?`", x.pos)
            return e

    def primary(self, nostruct):
        x = self.peek()
        if x.kind == "num":
            self.next()
            return N("num", x.pos, v=int(re.sub(r"(usize|u64|u32|u8|i32|i64|_)", "", x.text), 0),
                     suffix=("i32" if x.text.endswith("i32") else None))
        if x.kind == "byte":
            self.next()
            body = x.text[2:-1]
            if body.startswith("\\"):
                raise Unsupported("escaped byte literal", x.pos)
            return N("num", x.pos, v=ord(body), suffix=None)
        if self.at("|") or self.at("||"):
            return self.closure()
        if self.at("("):
            self.next()
            items = []
            trailing = False
            while not self.at(")"):
                items.append(self.expr())
                trailing = False
                if self.at(","):
                    self.next()
                    trailing = True
            self.expect(")")
            if len(items) == 1 and not trailing:
                return N("paren", x.pos, e=items[0])
            return N("tuple", x.pos, items=items)
        if self.at("{"):
            return self.block()
        if x.kind == "id" and x.text == "if":
            return self.if_()
        if x.kind == "id" and x.text == "match":
            raise Unsupported("`match` in expression position", x.pos)
        if x.kind == "id":
            self.next()
            path = [x.text]
            while True:
                if self.skip_turbofish():
                    continue
                if self.at("::"):
                    self.next()
                    path.append(self.ident().text)
                    continue
                break
            if self.at("!"):
                if path != ["vec"]:
                    raise Unsupported("macro `%s!`" % "::".join(path), x.pos)
                self.next()
                self.expect("[")
                if self.at("]"):
                    self.next()
                    return N("vecnew", x.pos)
                a = self.expr()
                if self.at(";"):
                    self.next()
                    n = self.expr()
                    self.expect("]")
                    return N("vecrep", x.pos, e=a, n=n)
                raise Unsupported("`vec![a, b, …]`", x.pos)
            if self.at("("):
                return N("call", x.pos, path=path, args=self.args())
            if self.at("{") and not nostruct and path[-1][0].isupper():
                self.next()
                fields = []
                while not self.at("}"):
                    fn = self.ident()
                    if self.at(":"):
                        self.next()
                        fe = self.expr()
                    else:
                        fe = N("var", fn.pos, name=fn.text)
                    fields.append((fn.text, fe))
                    if self.at(","):
                        self.next()
                self.expect("}")
                return N("struct", x.pos, name=path[-1], fields=fields)
            if len(path) == 1:
                return N("var", x.pos, name=x.text)
            return N("path", x.pos, path=path)
        raise Unsupported("expression starting with `%s`" % x.text, x.pos)

    def closure(self):
        x = self.peek()
        params = []
        if self.at("||"):
            self.next()
        else:
            self.expect("|")
            while not self.at("|"):
                params.append(self.pattern())
                if self.at(","):
                    self.next()
            self.expect("|")
        body = self.expr()
        return N("closure", x.pos, params=params, body=body)


def walk(n, f):
    if isinstance(n, N):
        f(n)
        for k, v in n.__dict__.items():
            if k in ("kind", "pos"):
                continue
            walk(v, f)
    elif isinstance(n, (list, tuple)):
        for v in n:
            walk(v, f)


def pat_names(p):
    if p.kind == "pid":
        return [] if p.name == "_" else [p.name]
    if p.kind == "ptuple":
        return [n for q in p.items for n in pat_names(q)]
    if p.kind == "pvariant":
        return [n for q in p.args for n in pat_names(q)]
    return []


def strip(e):
    while e.kind in ("deref", "paren"):
        e = e.e
    return e


# ================================================================================================== translation

STRUCT_FIELDS = {
    "tb": [("rows", NAT), ("cols", NAT), ("last", NAT), ("matrix", tlist(ttup([tlist(CELL), NAT, NAT])))],
    "aln": [("score", INT), ("operations", tlist(OP))],
    "cell": [("score", INT), ("op", OP)],
}
STRUCT_NAMES = {"Traceback": TB, "Alignment": ALN, "TracebackCell": CELL}
ENUM_CTORS = {"Match": ("POp.m", [topt(ttup([NAT, NAT]))]), "Del": ("POp.d", [topt(ttup([NAT, NAT]))]),
              "Ins": ("POp.i", [topt(NAT)]), "Xclip": ("POp.x", [NAT]), "Yclip": ("POp.y", [NAT, NAT])}
CONSTS = {"MIN_SCORE": ("RbV.Gen.Limits.minScorePoa", INT)}


class Scope:
    def __init__(self, vars=None):
        self.vars = list(vars or [])          # (rust name, lean term, type)

    def copy(self):
        return Scope(self.vars)

    def declare(self, name, ty, term=None):
        self.vars.append((name, term if term is not None else lname(name), ty))

    def get(self, name):
        for n, l, t in reversed(self.vars):
            if n == name:
                return l, t
        return None

    def names(self):
        out = []
        for n, _, _ in self.vars:
            if n not in out:
                out.append(n)
        return out


def ind(lines, k=2):
    return [" " * k + l for l in lines]


class FnTr:
    def __init__(self, unit, spec, done, src):
        self.unit, self.spec, self.done, self.src = unit, spec, done, src
        self.fn = spec["lean"]
        self.helpers = []
        self.ntmp = 0
        self.nfor = 0
        self.nwhile = 0
        self.memo = {}
        self.extras = list(unit.get("extras", [])) if spec.get("uses_extras", True) else []
        self.jump = None

    # ------------------------------------------------------------------ misc
    def fresh(self):
        self.ntmp += 1
        return "t%d" % self.ntmp

    def rust_ty(self, t):
        if t.kind == "tref":
            return self.rust_ty(t.inner)
        if t.kind == "tslice":
            return tlist(self.rust_ty(t.elem))
        if t.kind == "ttuple":
            return ttup([self.rust_ty(x) for x in t.items])
        if t.kind == "tname":
            n = t.name
            if n in ("usize", "u8"):
                return NAT
            if n == "i32":
                return INT
            if n == "bool":
                return BOOL
            if n == "NodeIndex":
                return NAT
            if n in ("Vec",):
                return tlist(self.rust_ty(t.args[0]))
            if n == "TextSlice":
                return tlist(NAT)
            if n == "Option":
                return topt(self.rust_ty(t.args[0]))
            if n in STRUCT_NAMES:
                return STRUCT_NAMES[n]
            if n == "AlignmentOperation":
                return OP
            if n == "POAGraph":
                return GRAPH
            if n == "Self" and self.spec.get("self_ty"):
                return STRUCT_NAMES[self.spec["self_ty"]]
        raise Unsupported("type `%s`" % getattr(t, "name", t.kind), t.pos)

    def parse_ty(self, text):
        if isinstance(text, tuple):
            return text
        p = ParserP(tokenize(text, 0))
        return self.rust_ty(p.type_())

    def self_path(self, e):
        e = strip(e)
        if e.kind == "var" and e.name == "self":
            return "self"
        if e.kind == "fieldn":
            p = self.self_path(e.e)
            if p:
                return p + "." + e.name
        return None

    def num(self, v, ty):
        if ty == INT:
            return "(%d : Int)" % v
        return str(v)

    # ------------------------------------------------------------------ expressions
    def ex(self, e, sc, expect=None):
        """→ (lines, term, type)"""
        k = e.kind
        if k in ("deref", "paren"):
            return self.ex(e.e, sc, expect)
        if k == "num":
            ty = INT if (e.suffix == "i32" or expect == INT) else NAT
            return [], self.num(e.v, ty), ty
        if k == "var":
            if e.name == "None":
                if expect is None or expect[0] != "opt":
                    raise Unsupported("`None` without a known type", e.pos)
                return [], "(none : %s)" % lean_ty(expect), expect
            if e.name in CONSTS:
                return [], CONSTS[e.name][0], CONSTS[e.name][1]
            if e.name in ("true", "false"):
                return [], e.name, BOOL
            v = sc.get(e.name)
            if v is None:
                if e.name == "self" and self.spec.get("self_fields") is not None:
                    raise Unsupported("`self` as a value", e.pos)
                raise Unsupported("unknown variable `%s`" % e.name, e.pos)
            return [], v[0], v[1]
        if k == "path":
            if e.path == ["usize", "MAX"]:
                return [], "Rs.usizeMax", NAT
            if len(e.path) == 2 and e.path[0] == "AlignmentOperation" and e.path[1] in ENUM_CTORS:
                raise Unsupported("enum constructor without arguments", e.pos)
            raise Unsupported("path `%s`" % "::".join(e.path), e.pos)
        if k == "tuple":
            ls, ts, tys = [], [], []
            for i, x in enumerate(e.items):
                ex_ty = expect[1][i] if expect and expect[0] == "tup" and len(expect[1]) == len(e.items) else None
                l, t, ty = self.ex(x, sc, ex_ty)
                ls += l
                ts.append(t)
                tys.append(ty)
            return ls, "(" + ", ".join(ts) + ")", ttup(tys)
        if k == "field":
            l, t, ty = self.ex(e.e, sc)
            if ty[0] != "tup" or e.i >= len(ty[1]):
                raise Unsupported("tuple field `.%d` of a value of type %s" % (e.i, lean_ty(ty)), e.pos)
            return l, proj(t, e.i, len(ty[1])), ty[1][e.i]
        if k == "fieldn":
            return self.fieldn(e, sc)
        if k == "index":
            b = strip(e.e)
            if b.kind == "mcall" and b.name == "raw_nodes":
                raise Unsupported("`raw_nodes()[i]` without `.weight`", e.pos)
            l1, t1, ty1 = self.ex(e.e, sc)
            if ty1[0] != "list":
                raise Unsupported("indexing a value of type %s" % lean_ty(ty1), e.pos)
            l2, t2, ty2 = self.ex(e.i, sc, NAT)
            key = "Rs.idx %s %s" % (atom(t1), atom(t2))
            if key in self.memo:
                return l1 + l2, self.memo[key], ty1[1]
            t = self.fresh()
            self.memo[key] = t
            return l1 + l2 + ["let %s ← %s" % (t, key)], t, ty1[1]
        if k == "bin":
            return self.binop(e, sc, expect)
        if k == "not":
            l, t, ty = self.ex(e.e, sc, BOOL)
            if ty != BOOL:
                raise Unsupported("`!` on a value of type %s" % lean_ty(ty), e.pos)
            return l, "(!%s)" % atom(t), BOOL
        if k == "cast":
            l, t, ty = self.ex(e.e, sc)
            to = self.rust_ty(e.ty)
            if ty == NAT and to == INT:
                return l, "(Rs.usizeAsI32 %s)" % atom(t), INT
            if ty == to:
                return l, t, ty
            raise Unsupported("cast from %s to %s" % (lean_ty(ty), lean_ty(to)), e.pos)
        if k == "call":
            return self.call(e, sc, expect)
        if k == "mcall":
            return self.mcall(e, sc, expect)
        if k == "struct":
            return self.struct(e, sc)
        if k == "vecnew":
            if expect is None or expect[0] != "list":
                raise Unsupported("`vec![]` without a known element type", e.pos)
            return [], "([] : %s)" % lean_ty(expect), expect
        if k == "vecrep":
            et = expect[1] if expect and expect[0] == "list" else None
            l1, t1, ty1 = self.ex(e.e, sc, et)
            l2, t2, ty2 = self.ex(e.n, sc, NAT)
            return l1 + l2, "(List.replicate %s %s)" % (atom(t2), atom(t1)), tlist(ty1)
        if k == "if":
            return self.if_value(e, sc, expect)
        if k == "block":
            return self.block_value(e, sc, expect)
        if k == "range":
            l1, a, _ = self.ex(e.a, sc, NAT)
            l2, b, _ = self.ex(e.b, sc, NAT)
            if e.incl:
                return l1 + l2, "(Rs.rangeIncl %s %s)" % (atom(a), atom(b)), tlist(NAT)
            return l1 + l2, "(List.range' %s (%s - %s))" % (atom(a), atom(b), atom(a)), tlist(NAT)
        if k == "closure":
            raise Unsupported("closure in this position", e.pos)
        raise Unsupported("expression `%s`" % k, e.pos)

    def fieldn(self, e, sc):
        p = self.self_path(e)
        sf = self.spec.get("self_fields") or {}
        if p and p in sf:
            v = sc.get(sf[p][0])
            return [], v[0], v[1]
        b = strip(e.e)
        if e.name == "weight" and b.kind == "index" and strip(b.e).kind == "mcall" and strip(b.e).name == "raw_nodes":
            rn = strip(b.e)
            lg, g, gty = self.ex(rn.recv, sc)
            if gty != GRAPH or rn.args:
                raise Unsupported("`raw_nodes()` on a value that is not the graph", e.pos)
            li, i, _ = self.ex(b.i, sc, NAT)
            t = self.fresh()
            return lg + li + ["let %s ← Rs.Poa.nodeWeight %s %s" % (t, atom(g), atom(i))], t, NAT
        l, t, ty = self.ex(e.e, sc)
        if ty[0] in STRUCT_FIELDS:
            for fn, fty in STRUCT_FIELDS[ty[0]]:
                if fn == e.name:
                    return l, "%s.%s" % (atom(t), fn), fty
        raise Unsupported("field `.%s` of a value of type %s" % (e.name, lean_ty(ty)), e.pos)

    def struct(self, e, sc):
        if e.name not in STRUCT_NAMES:
            raise Unsupported("struct literal `%s { … }`" % e.name, e.pos)
        ty = STRUCT_NAMES[e.name]
        want = STRUCT_FIELDS[ty[0]]
        given = dict(e.fields)
        if sorted(given) != sorted(f for f, _ in want) or len(e.fields) != len(want):
            raise Unsupported("struct literal `%s` with other fields than the pinned declaration" % e.name, e.pos)
        ls, vals = [], {}
        for fn, fe in e.fields:                      # Rust evaluates in the order written
            l, t, fty = self.ex(fe, sc, dict(want)[fn])
            if fty != dict(want)[fn]:
                raise Unsupported("field `%s` of type %s" % (fn, lean_ty(fty)), fe.pos)
            ls += l
            vals[fn] = t
        if ty == CELL:
            return ls, "(⟨%s, %s⟩ : Cell)" % (vals["score"], vals["op"]), CELL
        return ls, "({ %s } : %s)" % (", ".join("%s := %s" % (f, vals[f]) for f, _ in want), lean_ty(ty)), ty

    def cmp_terms(self, op, a, b, ty, pos):
        """Bool term for `a op b` on values of type ty"""
        if ty in (NAT, INT):
            sym = {"==": "=", "!=": "≠", "<": "<", ">": ">", "<=": "≤", ">=": "≥"}[op]
            return "decide (%s %s %s)" % (a, sym, b)
        if ty == BOOL and op in ("==", "!="):
            return "decide (%s %s %s)" % (a, "=" if op == "==" else "≠", b)
        if ty[0] == "tup":
            n = len(ty[1])
            if op in ("==", "!="):
                return "decide (%s %s %s)" % (a, "=" if op == "==" else "≠", b)
            strict = {"<": "<", ">": ">", "<=": "<", ">=": ">"}[op]

            def lex(i):
                ai, bi = proj(a, i, n), proj(b, i, n)
                if i == n - 1:
                    return self.cmp_terms(op, ai, bi, ty[1][i], pos)
                return "(%s || (%s && %s))" % (self.cmp_terms(strict, ai, bi, ty[1][i], pos),
                                               self.cmp_terms("==", ai, bi, ty[1][i], pos), atom(lex(i + 1)))
            return lex(0)
        raise Unsupported("comparison `%s` on values of type %s" % (op, lean_ty(ty)), pos)

    def binop(self, e, sc, expect):
        op = e.op
        if op in ("||", "&&"):
            l1, a, ta = self.ex(e.l, sc, BOOL)
            saved = dict(self.memo)
            l2, b, tb_ = self.ex(e.r, sc, BOOL)
            if ta != BOOL or tb_ != BOOL:
                raise Unsupported("`%s` on non-boolean operands" % op, e.pos)
            if not l2:
                return l1, "(%s %s %s)" % (atom(a), op, atom(b)), BOOL
            self.memo = saved
            t = self.fresh()
            if op == "||":
                lines = ["let %s ← if %s then pure true else do" % (t, a)] + ind(l2 + ["pure %s" % atom(b)])
            else:
                lines = ["let %s ← if %s then do" % (t, a)] + ind(l2 + ["pure %s" % atom(b)]) + ["  else pure false"]
            return l1 + lines, t, BOOL
        lit_l = strip(e.l).kind == "num"
        arith = op in ("+", "-", "*")
        want = expect if arith else None
        if lit_l:
            l2, b, tb_ = self.ex(e.r, sc, want)
            l1, a, ta = self.ex(e.l, sc, tb_)
        else:
            l1, a, ta = self.ex(e.l, sc, want)
            l2, b, tb_ = self.ex(e.r, sc, ta)
        if ta != tb_:
            raise Unsupported("`%s` on operands of types %s and %s" % (op, lean_ty(ta), lean_ty(tb_)), e.pos)
        if op in ("==", "!=", "<", ">", "<=", ">="):
            return l1 + l2, "(" + self.cmp_terms(op, atom(a), atom(b), ta, e.pos) + ")", BOOL
        if ta == NAT:
            f = {"+": "Rs.add 64", "-": "Rs.sub", "*": "Rs.mul 64"}.get(op)
        elif ta == INT:
            f = {"+": "Rs.iadd 32", "-": "Rs.isub 32", "*": "Rs.imul 32"}.get(op)
        else:
            f = None
        if f is None:
            raise Unsupported("`%s` on values of type %s" % (op, lean_ty(ta)), e.pos)
        t = self.fresh()
        return l1 + l2 + ["let %s ← %s %s %s" % (t, f, atom(a), atom(b))], t, ta

    def args_ex(self, args, sc, tys):
        ls, ts, out = [], [], []
        for a, ty in zip(args, tys):
            l, t, got = self.ex(a, sc, ty)
            ls += l
            ts.append(atom(t))
            out.append(got)
        return ls, ts, out

    def lam(self, c, param_tys, sc):
        """pure closure → Lean lambda; → (term, result type)"""
        if len(c.params) != len(param_tys):
            raise Unsupported("closure with %d parameters" % len(c.params), c.pos)
        sc2 = sc.copy()
        binders = []
        for i, (p, ty) in enumerate(zip(c.params, param_tys)):
            nm = "x%d" % (i + 1) if p.kind != "pid" else lname(p.name)
            binders.append("(%s : %s)" % (nm, lean_ty(ty)))
            self.bind_proj(p, nm, ty, sc2)
        saved = self.memo
        self.memo = {}
        l, t, ty = self.ex(c.body, sc2)
        self.memo = saved
        if l:
            raise Unsupported("closure whose body can panic", c.pos)
        return "(fun %s => %s)" % (" ".join(binders), t), ty

    def bind_proj(self, p, term, ty, sc):
        if p.kind == "pid":
            if p.name != "_":
                sc.declare(p.name, ty, term if p.name != term else None)
            return
        if p.kind == "ptuple":
            if ty[0] != "tup" or len(ty[1]) != len(p.items):
                raise Unsupported("tuple pattern against a value of type %s" % lean_ty(ty), p.pos)
            for i, (q, t) in enumerate(zip(p.items, ty[1])):
                self.bind_proj(q, proj(term, i, len(ty[1])), t, sc)
            return
        raise Unsupported("pattern in this position", p.pos)

    def call(self, e, sc, expect):
        path = e.path
        name = path[-1]
        if path == ["max"] and len(e.args) == 2:
            l1, a, ta = self.ex(e.args[0], sc, expect)
            l2, b, tb_ = self.ex(e.args[1], sc, ta)
            if ta != tb_:
                raise Unsupported("`max` on values of different types", e.pos)
            if ta == CELL:
                return l1 + l2, "(cmax %s %s)" % (atom(a), atom(b)), CELL
            if ta == NAT:
                return l1 + l2, "(Nat.max %s %s)" % (atom(a), atom(b)), NAT
            raise Unsupported("`max` on values of type %s" % lean_ty(ta), e.pos)
        if path == ["Some"] and len(e.args) == 1:
            et = expect[1] if expect and expect[0] == "opt" else None
            l, t, ty = self.ex(e.args[0], sc, et)
            return l, "(some %s)" % atom(t), topt(ty)
        if path == ["NodeIndex", "new"] and len(e.args) == 1:
            return self.ex(e.args[0], sc, NAT)
        if path == ["Vec", "new"] and not e.args:
            if expect is None:
                raise Unsupported("`Vec::new()` without a known type", e.pos)
            return [], "([] : %s)" % lean_ty(expect), expect
        if len(path) == 2 and path[0] == "AlignmentOperation" and name in ENUM_CTORS:
            ctor, tys = ENUM_CTORS[name]
            if len(tys) != len(e.args):
                raise Unsupported("constructor `%s` with %d arguments" % (name, len(e.args)), e.pos)
            ls, ts, got = self.args_ex(e.args, sc, tys)
            if got != tys:
                raise Unsupported("constructor `%s` applied to other types than the pinned declaration" % name, e.pos)
            return ls, "(%s %s)" % (ctor, " ".join(ts)), OP
        if len(path) == 2 and (path[0], name) in self.done:
            return self.call_done(self.done[(path[0], name)], None, e.args, sc, e.pos)
        raise Unsupported("call of `%s`" % "::".join(path), e.pos)

    def call_done(self, d, recv_term, args, sc, pos):
        if len(args) != len(d["params"]):
            raise Unsupported("call of `%s` with %d arguments" % (d["lean"], len(args)), pos)
        ls, ts, got = self.args_ex(args, sc, [t for _, t in d["params"]])
        if got != [t for _, t in d["params"]]:
            raise Unsupported("call of `%s` with arguments of other types" % d["lean"], pos)
        t = self.fresh()
        head = " ".join([d["lean"]] + [n for n, _ in d["extras"]] + ([atom(recv_term)] if recv_term is not None else []) + ts)
        return ls + ["let %s ← %s" % (t, head)], t, d["ret"]

    def mcall(self, e, sc, expect):
        name, recv = e.name, strip(e.recv)
        p = self.self_path(recv)
        ab = self.spec.get("abstract_fns") or {}
        if p and (p + "." + name) in ab:
            f, tys, rty = ab[p + "." + name]
            ls, ts, got = self.args_ex(e.args, sc, tys)
            if got != tys:
                raise Unsupported("`%s` with arguments of other types" % name, e.pos)
            return ls, "(%s %s)" % (f, " ".join(ts)), rty
        # Topo::new(&g).next(&g)
        if name == "next" and recv.kind == "call" and recv.path == ["Topo", "new"] and len(recv.args) == 1 and len(e.args) == 1:
            l1, g1, ty1 = self.ex(recv.args[0], sc)
            l2, g2, ty2 = self.ex(e.args[0], sc)
            if ty1 != GRAPH or g1 != g2:
                raise Unsupported("`Topo::new(a).next(b)` on two different graphs", e.pos)
            return l1, "(Rs.Poa.topoOrder %s).head?" % atom(g1), topt(NAT)
        l0, r, rty = self.ex(recv, sc)
        if rty == GRAPH:
            if name == "node_count" and not e.args:
                return l0, "(Rs.Poa.nodeCount %s)" % atom(r), NAT
            if name == "neighbors_directed" and len(e.args) == 2 and strip(e.args[1]).kind == "var" and strip(e.args[1]).name == "Incoming":
                l, v, _ = self.ex(e.args[0], sc, NAT)
                return l0 + l, "(Rs.Poa.neighborsIn %s %s)" % (atom(r), atom(v)), tlist(NAT)
            if name == "find_edge" and len(e.args) == 2:
                ls, ts, _ = self.args_ex(e.args, sc, [NAT, NAT])
                return l0 + ls, "(Rs.Poa.findEdge %s %s)" % (atom(r), " ".join(ts)), topt(NAT)
            if name == "edges_connecting" and len(e.args) == 2:
                ls, ts, _ = self.args_ex(e.args, sc, [NAT, NAT])
                return l0 + ls, "(Rs.Poa.edgesConnecting %s %s)" % (atom(r), " ".join(ts)), tlist(INT)
            raise Unsupported("graph method `.%s(…)` (outside the contract list of RsSemGenpoa.lean)" % name, e.pos)
        if rty == NAT:
            if name == "index" and not e.args:
                return l0, r, NAT
            if name == "saturating_sub" and len(e.args) == 1:
                l, b, _ = self.ex(e.args[0], sc, NAT)
                return l0 + l, "(%s - %s)" % (atom(r), atom(b)), NAT
        if rty == INT and name == "weight" and not e.args:
            return l0, r, INT
        if rty[0] == "list":
            if name in ("iter", "collect", "copied", "cloned", "to_vec", "into_iter") and not e.args:
                return l0, r, rty
            if name == "len" and not e.args:
                return l0, "%s.length" % atom(r), NAT
            if name == "is_empty" and not e.args:
                return l0, "%s.isEmpty" % atom(r), BOOL
            if name == "enumerate" and not e.args:
                return l0, "(Rs.enumerate %s)" % atom(r), tlist(ttup([NAT, rty[1]]))
            if name == "rev" and not e.args:
                return l0, "%s.reverse" % atom(r), rty
            if name == "skip" and len(e.args) == 1:
                l, n, _ = self.ex(e.args[0], sc, NAT)
                return l0 + l, "(%s.drop %s)" % (atom(r), atom(n)), rty
            if name == "map" and len(e.args) == 1 and e.args[0].kind == "closure":
                f, fty = self.lam(e.args[0], [rty[1]], sc)
                return l0, "(List.map %s %s)" % (f, atom(r)), tlist(fty)
            if name == "sum" and not e.args and rty[1] == INT:
                t = self.fresh()
                return l0 + ["let %s ← Rs.Poa.sumI32 %s" % (t, atom(r))], t, INT
            if name == "max_by_key" and len(e.args) == 1 and e.args[0].kind == "closure":
                f, fty = self.lam(e.args[0], [rty[1]], sc)
                if fty not in (INT, NAT):
                    raise Unsupported("`max_by_key` with a key of type %s" % lean_ty(fty), e.pos)
                return l0, "(Rs.maxByKey compare %s %s)" % (f, atom(r)), topt(rty[1])
        if rty[0] == "opt":
            if name in ("unwrap", "expect"):
                t = self.fresh()
                return l0 + ["let %s ← Rs.expect %s" % (t, atom(r))], t, rty[1]
            if name == "map" and len(e.args) == 1 and e.args[0].kind == "closure":
                f, fty = self.lam(e.args[0], [rty[1]], sc)
                return l0, "(Option.map %s %s)" % (f, atom(r)), topt(fty)
            if name == "is_some" and not e.args:
                return l0, "%s.isSome" % atom(r), BOOL
            if name == "is_none" and not e.args:
                return l0, "%s.isNone" % atom(r), BOOL
        for (sty, mn), d in self.done.items():
            if mn == name and sty in STRUCT_NAMES and STRUCT_NAMES[sty] == rty and not d["mut_self"]:
                l, t, ty = self.call_done(d, r, e.args, sc, e.pos)
                return l0 + l, t, ty
        raise Unsupported("method `.%s(…)` on a value of type %s" % (name, lean_ty(rty)), e.pos)

    def if_value(self, e, sc, expect):
        lc, c, tc = self.ex(e.c, sc, BOOL)
        if tc != BOOL or e.els is None:
            raise Unsupported("`if` without `else` as a value", e.pos)
        saved = dict(self.memo)
        l1, a, ta = self.block_value(e.then, sc, expect)
        self.memo = dict(saved)
        l2, b, tb_ = self.block_value(e.els, sc, ta)
        self.memo = saved
        if ta != tb_:
            raise Unsupported("`if` branches of types %s and %s" % (lean_ty(ta), lean_ty(tb_)), e.pos)
        if not l1 and not l2:
            return lc, "(if %s then %s else %s)" % (c, a, b), ta
        t = self.fresh()
        lines = ["let %s ← if %s then do" % (t, c)] + ind(l1 + ["pure %s" % atom(a)], 4) + ["  else do"] + ind(l2 + ["pure %s" % atom(b)], 4)
        return lc + lines, t, ta

    def block_value(self, blk, sc, expect):
        """block with a tail expression as a value: → (lines, term, type); its statements must not jump"""
        if blk.kind != "block":
            return self.ex(blk, sc, expect)
        if blk.tail is None:
            raise Unsupported("block without a value", blk.pos)
        if not blk.stmts:
            return self.ex(blk.tail, sc, expect)
        sc2 = sc.copy()
        outer = set(sc.names())
        asg = [a for a in self.assigned(blk) if a in outer]
        if asg:
            raise Unsupported("a block value that assigns the outer variable `%s`" % asg[0], blk.pos)
        res = {}

        def fin(scx):
            l, t, ty = self.ex(blk.tail, scx, expect)
            res["ty"] = ty
            return l + ["pure %s" % atom(t)]
        saved_jump = self.jump
        self.jump = None
        lines = self.stmts(blk.stmts, sc2, fin)
        self.jump = saved_jump
        t = self.fresh()
        return ["let %s ← do" % t] + ind(lines), t, res["ty"]

    # ------------------------------------------------------------------ places, assigned / used variables
    def base_of(self, e):
        e = strip(e)
        if e.kind == "var":
            return e.name
        if e.kind == "fieldn":
            p = self.self_path(e)
            sf = self.spec.get("self_fields") or {}
            if p and p in sf:
                return sf[p][0]
            return self.base_of(e.e)
        if e.kind in ("index", "field"):
            return self.base_of(e.e)
        if e.kind == "mcall" and e.name in ("unwrap", "edge_weight_mut"):
            return self.base_of(e.recv)
        return None

    def assigned(self, node):
        asg, decl = [], []

        def add(b):
            if b and b not in asg:
                asg.append(b)

        def f(n):
            if n.kind == "assign":
                add(self.base_of(n.lhs))
            elif n.kind == "mcall":
                if n.name in ("push", "reverse", "add_node", "add_edge"):
                    add(self.base_of(n.recv))
                else:
                    for (sty, mn), d in self.done.items():
                        if mn == n.name and d["mut_self"]:
                            add(self.base_of(n.recv))
            elif n.kind == "let":
                decl.extend(pat_names(n.pat))
            elif n.kind in ("for", "whilelet"):
                decl.extend(pat_names(n.pat))
            elif n.kind == "match":
                for p, _ in n.arms:
                    decl.extend(pat_names(p))
            elif n.kind == "closure":
                for p in n.params:
                    decl.extend(pat_names(p))
        walk(node, f)
        return [a for a in asg if a not in decl]

    def used(self, node):
        u = []
        sf = self.spec.get("self_fields") or {}

        def f(n):
            if n.kind == "var" and n.name not in u:
                u.append(n.name)
            if n.kind == "fieldn":
                p = self.self_path(n)
                if p and p in sf and sf[p][0] not in u:
                    u.append(sf[p][0])
        walk(node, f)
        return u

    def place(self, e, sc):
        """lvalue → (base rust name, [accessors]); index terms are evaluated into `lines`"""
        e = strip(e)
        if e.kind == "var":
            return e.name, [], []
        if e.kind == "fieldn":
            p = self.self_path(e)
            sf = self.spec.get("self_fields") or {}
            if p and p in sf:
                return sf[p][0], [], []
            b, accs, ls = self.place(e.e, sc)
            return b, accs + [("sf", e.name)], ls
        if e.kind == "field":
            b, accs, ls = self.place(e.e, sc)
            return b, accs + [("tf", e.i)], ls
        if e.kind == "index":
            b, accs, ls = self.place(e.e, sc)
            l, t, _ = self.ex(e.i, sc, NAT)
            return b, accs + [("idx", atom(t))], ls + l
        raise Unsupported("assignment to this kind of place", e.pos)

    def acc_ty(self, ty, a, pos):
        if a[0] == "idx":
            if ty[0] != "list":
                raise Unsupported("indexing a value of type %s" % lean_ty(ty), pos)
            return ty[1]
        if a[0] == "tf":
            if ty[0] != "tup" or a[1] >= len(ty[1]):
                raise Unsupported("tuple field of a value of type %s" % lean_ty(ty), pos)
            return ty[1][a[1]]
        if ty[0] in STRUCT_FIELDS and a[1] in dict(STRUCT_FIELDS[ty[0]]):
            return dict(STRUCT_FIELDS[ty[0]])[a[1]]
        raise Unsupported("field `.%s` of a value of type %s" % (a[1], lean_ty(ty)), pos)

    def write(self, cur, ty, accs, upd, const, lines, pos):
        """new value of `cur` after the place `cur.accs` was replaced by `upd(old value)`"""
        if not accs:
            return upd(cur)
        a, rest = accs[0], accs[1:]
        sub_ty = self.acc_ty(ty, a, pos)
        if a[0] == "idx":
            if not rest and const:
                t2 = self.fresh()
                lines.append("let %s ← Rs.setIdx %s %s %s" % (t2, atom(cur), a[1], atom(upd(None))))
                return t2
            t = self.fresh()
            lines.append("let %s ← Rs.idx %s %s" % (t, atom(cur), a[1]))
            inner = self.write(t, sub_ty, rest, upd, const, lines, pos)
            t2 = self.fresh()
            lines.append("let %s ← Rs.setIdx %s %s %s" % (t2, atom(cur), a[1], atom(inner)))
            return t2
        if a[0] == "tf":
            n = len(ty[1])
            inner = self.write(proj(cur, a[1], n), sub_ty, rest, upd, const, lines, pos)
            return "(" + ", ".join(inner if i == a[1] else proj(cur, i, n) for i in range(n)) + ")"
        inner = self.write("%s.%s" % (atom(cur), a[1]), sub_ty, rest, upd, const, lines, pos)
        return "{ %s with %s := %s }" % (cur, a[1], inner)

    def set_place(self, lhs, sc, upd, const, pos):
        base, accs, ls = self.place(lhs, sc)
        v = sc.get(base)
        if v is None:
            raise Unsupported("assignment to unknown variable `%s`" % base, pos)
        lines = list(ls)
        new = self.write(v[0], v[1], accs, upd, const, lines, pos)
        lines.append("let %s := %s" % (lname(base), new))
        sc.declare(base, v[1])
        return lines

    def place_ty(self, lhs, sc):
        base, accs, _ = self.place(lhs, sc)
        v = sc.get(base)
        if v is None:
            raise Unsupported("unknown variable `%s`" % base, lhs.pos)
        ty = v[1]
        for a in accs:
            ty = self.acc_ty(ty, a, lhs.pos)
        return ty

    # ------------------------------------------------------------------ statements
    def tup(self, names, sc):
        ts = [sc.get(n)[0] for n in names]
        return "()" if not ts else ts[0] if len(ts) == 1 else "(" + ", ".join(ts) + ")"

    def tup_pat(self, names):
        ts = [lname(n) for n in names]
        return "_" if not ts else ts[0] if len(ts) == 1 else "(" + ", ".join(ts) + ")"

    def tup_ty(self, names, sc):
        tys = [sc.get(n)[1] for n in names]
        return "Unit" if not tys else lean_ty(tys[0]) if len(tys) == 1 else lean_ty(ttup(tys))

    def rebind(self, names, sc):
        for n in names:
            sc.declare(n, sc.get(n)[1])

    def outs_of(self, node, sc):
        asg = self.assigned(node)
        return [n for n in sc.names() if n in asg]

    def stmts(self, ss, sc, fin):
        if not ss:
            self.memo = {}
            return fin(sc)
        s, rest = ss[0], ss[1:]
        self.memo = {}
        if s.kind == "ifs" and s.e.els is None and s.e.then.stmts and s.e.then.stmts[-1].kind in ("break", "continue"):
            if self.jump is None:
                raise Unsupported("`%s` outside a translated loop body" % s.e.then.stmts[-1].kind, s.pos)
            jk = s.e.then.stmts[-1].kind
            if jk not in self.jump:
                raise Unsupported("`%s` in this kind of loop" % jk, s.pos)
            lc, c, tc = self.ex(s.e.c, sc, BOOL)
            jump = self.jump[jk]
            a = self.stmts(s.e.then.stmts[:-1], sc.copy(), jump)
            b = self.stmts(rest, sc, fin)
            return lc + ["if %s then do" % c] + ind(a, 4) + ["  else do"] + ind(b, 4)
        if s.kind in ("break", "continue"):
            raise Unsupported("`%s` in this position (only `if c { …; %s; }` directly in a loop body)" % (s.kind, s.kind), s.pos)
        lines = self.stmt(s, sc)
        return lines + self.stmts(rest, sc, fin)

    def branch(self, blk, sc, outs):
        sc2 = sc.copy()
        ss = list(blk.stmts)
        if blk.tail is not None:
            ss.append(N("exprs", blk.pos, e=blk.tail))
        return self.stmts(ss, sc2, lambda scx: ["pure %s" % self.tup(outs, scx)])

    def stmt(self, s, sc):
        k = s.kind
        if k == "let":
            return self.let(s, sc)
        if k == "assign":
            return self.assign(s, sc)
        if k == "exprs":
            return self.exprs(s, sc)
        if k == "assert":
            l, c, _ = self.ex(s.e, sc, BOOL)
            return l + ["let _ ← Rs.assert %s" % atom(c)]
        if k == "ifs":
            e = s.e
            outs = self.outs_of(e, sc)
            lc, c, tc = self.ex(e.c, sc, BOOL)
            if tc != BOOL:
                raise Unsupported("condition of type %s" % lean_ty(tc), e.pos)
            a = self.branch(e.then, sc, outs)
            b = self.branch(e.els, sc, outs) if e.els is not None else ["pure %s" % self.tup(outs, sc)]
            lines = lc + ["let %s ← if %s then do" % (self.tup_pat(outs), c)] + ind(a, 4) + ["  else do"] + ind(b, 4)
            self.rebind(outs, sc)
            return lines
        if k == "match":
            return self.match(s, sc)
        if k == "for":
            l, items, ity = self.ex(s.it, sc)
            if ity[0] != "list":
                raise Unsupported("`for` over a value of type %s" % lean_ty(ity), s.it.pos)
            return l + self.for_(s.pat, items, ity[1], s.body, sc, s.pos)
        if k == "whilelet":
            e = strip(s.e)
            if not (e.kind == "mcall" and e.name == "next" and strip(e.recv).kind == "var" and len(e.args) == 1
                    and s.pat.kind == "pvariant" and s.pat.path == ["Some"] and len(s.pat.args) == 1):
                raise Unsupported("`while let` other than `while let Some(x) = topo.next(&graph)`", s.pos)
            v = sc.get(strip(e.recv).name)
            lg, g, gty = self.ex(e.args[0], sc)
            if v is None or v[1][0] != "topo" or gty != GRAPH or v[1][1] != g:
                raise Unsupported("`while let` over something that is not a `Topo` walker of the same graph", s.pos)
            gb = self.base_of(e.args[0])
            if gb in self.assigned(s.body):
                raise Unsupported("the graph is changed inside its topological walk", s.pos)
            return self.for_(s.pat.args[0], "(Rs.Poa.topoOrder %s)" % atom(g), NAT, s.body, sc, s.pos)
        if k == "while":
            return self.while_(s, sc)
        raise Unsupported("statement `%s`" % k, s.pos)

    def let(self, s, sc):
        e = strip(s.e)
        names = pat_names(s.pat)
        loc = self.spec.get("locals") or {}
        expect = None
        if s.ty is not None:
            expect = self.rust_ty(s.ty)
        elif len(names) == 1 and names[0] in loc:
            expect = self.parse_ty(loc[names[0]])
        if e.kind == "call" and e.path == ["Topo", "new"] and len(e.args) == 1 and s.pat.kind == "pid":
            lg, g, gty = self.ex(e.args[0], sc)
            if gty != GRAPH or lg:
                raise Unsupported("`Topo::new` of something that is not the graph", e.pos)
            sc.declare(s.pat.name, ("topo", g))
            return []
        if e.kind == "mcall" and e.name == "add_node" and s.pat.kind == "pid":
            return self.add_node(e, sc, s.pat.name)
        l, t, ty = self.ex(s.e, sc, expect)
        if expect is not None and ty != expect:
            raise Unsupported("`let %s` of type %s, declared %s" % (names, lean_ty(ty), lean_ty(expect)), s.pos)
        if s.pat.kind == "pid":
            if s.pat.name == "_":
                return l
            sc.declare(s.pat.name, ty)
            return l + ["let %s := %s" % (lname(s.pat.name), t)]
        sc2 = Scope()
        self.bind_proj(s.pat, "x", ty, sc2)
        for n, _, nty in sc2.vars:
            sc.declare(n, nty)
        return l + ["let %s := %s" % (self.pat_text(s.pat), t)]

    def pat_text(self, p):
        if p.kind == "pid":
            return "_" if p.name == "_" else lname(p.name)
        if p.kind == "ptuple":
            return "(" + ", ".join(self.pat_text(q) for q in p.items) + ")"
        raise Unsupported("pattern in this position", p.pos)

    def add_node(self, e, sc, bind):
        gb = self.base_of(e.recv)
        lg, g, gty = self.ex(e.recv, sc)
        if gty != GRAPH or len(e.args) != 1 or gb is None:
            raise Unsupported("`add_node` on something that is not the graph", e.pos)
        l, c, _ = self.ex(e.args[0], sc, NAT)
        t = self.fresh()
        lines = lg + l + ["let %s := Rs.Poa.addNode %s %s" % (t, atom(g), atom(c)), "let %s := %s.1" % (lname(gb), t)]
        sc.declare(gb, GRAPH)
        if bind is not None:
            lines.append("let %s := %s.2" % (lname(bind), t))
            sc.declare(bind, NAT)
        return lines

    def assign(self, s, sc):
        lhs = strip(s.lhs)
        if lhs.kind == "mcall" and lhs.name == "unwrap" and strip(lhs.recv).kind == "mcall" and strip(lhs.recv).name == "edge_weight_mut":
            ew = strip(lhs.recv)
            gb = self.base_of(ew.recv)
            lg, g, gty = self.ex(ew.recv, sc)
            if gty != GRAPH or s.op != "+" or len(ew.args) != 1:
                raise Unsupported("assignment through `edge_weight_mut` other than `+=`", s.pos)
            l1, k_, _ = self.ex(ew.args[0], sc, NAT)
            l2, d, dty = self.ex(s.e, sc, INT)
            sc.declare(gb, GRAPH)
            return lg + l1 + l2 + ["let %s ← Rs.Poa.edgeWeightAdd %s %s %s" % (lname(gb), atom(g), atom(k_), atom(d))]
        pty = self.place_ty(s.lhs, sc)
        if s.op is not None:
            l, t, ty = self.ex(N("bin", s.pos, op=s.op, l=s.lhs, r=s.e), sc, pty)
        else:
            l, t, ty = self.ex(s.e, sc, pty)
        if ty != pty:
            raise Unsupported("assignment of a value of type %s to a place of type %s" % (lean_ty(ty), lean_ty(pty)), s.pos)
        self.memo = {}
        return l + self.set_place(s.lhs, sc, lambda old: t, True, s.pos)

    def exprs(self, s, sc):
        e = strip(s.e)
        if e.kind == "mcall":
            recv = strip(e.recv)
            if e.name == "push" and len(e.args) == 1:
                pty = self.place_ty(recv, sc)
                if pty[0] != "list":
                    raise Unsupported("`push` on a value of type %s" % lean_ty(pty), e.pos)
                l, t, ty = self.ex(e.args[0], sc, pty[1])
                if ty != pty[1]:
                    raise Unsupported("`push` of a value of type %s" % lean_ty(ty), e.pos)
                self.memo = {}
                return l + self.set_place(recv, sc, lambda old: "(%s ++ [%s])" % (old, t), False, e.pos)
            if e.name == "reverse" and not e.args:
                pty = self.place_ty(recv, sc)
                if pty[0] != "list":
                    raise Unsupported("`reverse` on a value of type %s" % lean_ty(pty), e.pos)
                return self.set_place(recv, sc, lambda old: "%s.reverse" % atom(old), False, e.pos)
            if e.name == "add_node":
                return self.add_node(e, sc, None)
            if e.name == "add_edge" and len(e.args) == 3:
                gb = self.base_of(recv)
                lg, g, gty = self.ex(recv, sc)
                if gty != GRAPH or gb is None:
                    raise Unsupported("`add_edge` on something that is not the graph", e.pos)
                ls, ts, _ = self.args_ex(e.args, sc, [NAT, NAT, INT])
                sc.declare(gb, GRAPH)
                return lg + ls + ["let %s ← Rs.Poa.addEdge %s %s" % (lname(gb), atom(g), " ".join(ts))]
            if recv.kind == "var" and sc.get(recv.name) is not None:
                rty = sc.get(recv.name)[1]
                for (sty, mn), d in self.done.items():
                    if mn == e.name and sty in STRUCT_NAMES and STRUCT_NAMES[sty] == rty and d["mut_self"]:
                        l, t, ty = self.call_done(d, sc.get(recv.name)[0], e.args, sc, e.pos)
                        if d["ret"] != rty:
                            raise Unsupported("`&mut self` method with a result used as a statement", e.pos)
                        sc.declare(recv.name, rty)
                        return l + ["let %s := %s" % (lname(recv.name), t)]
        l, t, ty = self.ex(s.e, sc)
        return l

    def match(self, s, sc):
        ls, t, ty = self.ex(s.e, sc)
        outs = self.outs_of(N("block", s.pos, stmts=[b for _, b in s.arms], tail=None), sc)
        lines = ls + ["let %s ← match %s with" % (self.tup_pat(outs), t)]
        for pat, blk in s.arms:
            sc2 = sc.copy()
            ptxt = self.match_pat(pat, ty, sc2)
            body = self.branch(blk, sc2, outs)
            lines += ["  | %s => do" % ptxt] + ind(body, 6)
        self.rebind(outs, sc)
        return lines

    def match_pat(self, p, ty, sc):
        if p.kind == "pid":
            if p.name == "_":
                return "_"
            sc.declare(p.name, ty)
            return lname(p.name)
        if p.kind == "ptuple":
            if ty[0] != "tup" or len(ty[1]) != len(p.items):
                raise Unsupported("tuple pattern against a value of type %s" % lean_ty(ty), p.pos)
            return "(" + ", ".join(self.match_pat(q, t, sc) for q, t in zip(p.items, ty[1])) + ")"
        if p.kind == "pvariant":
            nm = p.path[-1]
            if ty[0] == "opt":
                if nm == "None" and not p.args:
                    return "none"
                if nm == "Some" and len(p.args) == 1:
                    return "some " + atom(self.match_pat(p.args[0], ty[1], sc))
            if ty == OP and nm in ENUM_CTORS and (len(p.path) == 1 or p.path[0] == "AlignmentOperation"):
                ctor, tys = ENUM_CTORS[nm]
                if len(tys) != len(p.args):
                    raise Unsupported("pattern `%s` with %d arguments" % (nm, len(p.args)), p.pos)
                return "." + ctor.split(".")[1] + "".join(" " + atom(self.match_pat(q, t, sc)) for q, t in zip(p.args, tys))
        raise Unsupported("pattern against a value of type %s" % lean_ty(ty), p.pos)

    def caps_state(self, body, sc, pat):
        outer = sc.names()
        asg = self.assigned(body)
        state = [n for n in outer if n in asg and sc.get(n)[1][0] != "topo"]
        u = self.used(body)
        pn = pat_names(pat) if pat is not None else []
        caps = [n for n in outer if n in u and n not in state and sc.get(n)[1][0] != "topo"]
        # a captured name that the loop pattern shadows everywhere is harmless to pass
        return caps, state

    def helper_head(self, name, caps, sc):
        ps = "".join(" (%s : %s)" % (n, t) for n, t in self.extras)
        ps += "".join(" (%s : %s)" % (lname(n), lean_ty(sc.get(n)[1])) for n in caps)
        args = "".join(" " + n for n, _ in self.extras) + "".join(" " + atom(sc.get(n)[0]) for n in caps)
        return ps, args

    def inner_scope(self, caps, state, sc):
        sc2 = Scope()
        for n in sc.names():
            if n in caps or n in state:
                sc2.declare(n, sc.get(n)[1])
            elif sc.get(n)[1][0] == "topo":
                sc2.declare(n, sc.get(n)[1])
        return sc2

    def for_(self, pat, items, ity, body, sc, pos):
        self.nfor += 1
        name = "%s_for%d" % (self.fn, self.nfor)
        caps, state = self.caps_state(body, sc, pat)
        ps, args = self.helper_head(name, caps, sc)
        sty = self.tup_ty(state, sc)
        has_break = []

        def f(n):
            # a `break` of a nested loop belongs to that loop
            if isinstance(n, N):
                if n.kind == "break":
                    has_break.append(n)
                if n.kind in ("for", "while", "whilelet"):
                    return
                for k2, v in n.__dict__.items():
                    if k2 not in ("kind", "pos"):
                        f(v)
            elif isinstance(n, (list, tuple)):
                for v in n:
                    f(v)
        f(body.stmts)
        sc2 = self.inner_scope(caps, state, sc)
        pre = []
        if len(state) > 1:
            pre.append("let %s := st" % self.tup_pat(state))
        stname = lname(state[0]) if len(state) == 1 else "st"
        if pat.kind == "pid" and pat.name != "_":
            itname = lname(pat.name)
            sc2.declare(pat.name, ity)
        elif pat.kind == "pid":
            itname = "_it"
        else:
            itname = "it"
            tmp = Scope()
            self.bind_proj(pat, "it", ity, tmp)
            for n, _, nty in tmp.vars:
                sc2.declare(n, nty)
            pre.append("let %s := it" % self.pat_text(pat))
        saved_jump, saved_memo = self.jump, self.memo
        ss = list(body.stmts)
        if body.tail is not None:
            ss.append(N("exprs", body.pos, e=body.tail))
        if not has_break:
            fin = lambda scx: ["pure %s" % self.tup(state, scx)]
            self.jump = {"continue": fin}
            lines = self.stmts(ss, sc2, fin)
            h = ["def %s%s (%s : %s) (%s : %s) : Res %s := do" % (name, ps, stname, sty, itname, lean_ty(ity), paren(sty))]
            h += ind(pre + lines)
            call = "List.foldlM (%s%s) %s %s" % (name, args, self.tup(state, sc), atom(items))
        else:
            rec = lambda scx: ["%s%s rest %s" % (name, args, self.tup(state, scx))]
            self.jump = {"continue": rec, "break": lambda scx: ["pure %s" % self.tup(state, scx)]}
            lines = self.stmts(ss, sc2, rec)
            h = ["def %s%s : List %s → %s → Res %s" % (name, ps, paren(lean_ty(ity)), paren(sty) if " × " in sty else sty, paren(sty)),
                 "  | [], st => pure st",
                 "  | %s :: rest, %s => do" % (itname, stname)]
            h += ind(pre + lines, 4)
            call = "%s%s %s %s" % (name, args, atom(items), self.tup(state, sc))
        self.jump, self.memo = saved_jump, {}
        self.helpers.append("\n".join(h))
        out = ["let %s ← %s" % (self.tup_pat(state), call)]
        self.rebind(state, sc)
        return out

    def while_(self, s, sc):
        self.nwhile += 1
        fuels = self.spec.get("fuel") or []
        if self.nwhile > len(fuels):
            raise Unsupported("`while` loop without a fuel expression in the translation spec", s.pos)
        name = "%s_while%d" % (self.fn, self.nwhile)
        whole = N("block", s.pos, stmts=[N("exprs", s.pos, e=s.c)] + list(s.body.stmts), tail=None)
        caps, state = self.caps_state(whole, sc, None)
        ps, args = self.helper_head(name, caps, sc)
        sty = self.tup_ty(state, sc)
        sc2 = self.inner_scope(caps, state, sc)
        pre = ["let %s := st" % self.tup_pat(state)] if len(state) > 1 else []
        stname = lname(state[0]) if len(state) == 1 else "st"
        saved_jump = self.jump
        self.jump = None
        self.memo = {}
        lc, c, tc = self.ex(s.c, sc2, BOOL)
        rec = lambda scx: ["%s%s fuel %s" % (name, args, self.tup(state, scx))]
        ss = list(s.body.stmts)
        if s.body.tail is not None:
            ss.append(N("exprs", s.body.pos, e=s.body.tail))
        stay = ["pure %s" % self.tup(state, sc2)]
        lines = self.stmts(ss, sc2, rec)
        self.jump = saved_jump
        h = ["def %s%s : Nat → %s → Res %s" % (name, ps, paren(sty) if " × " in sty else sty, paren(sty)),
             "  | 0, _ => Res.fuel",
             "  | fuel + 1, %s => do" % stname]
        h += ind(pre + lc + ["if %s then do" % c] + ind(lines, 4) + ["  else", "    " + stay[0]], 4)
        self.helpers.append("\n".join(h))
        fsc = sc.copy()
        p = ParserP(tokenize(fuels[self.nwhile - 1], 0))
        fe = p.expr()
        # the fuel is a specification-level natural number: plain arithmetic, no checks
        ftxt = self.pure_nat(fe, sc)
        out = ["let %s ← %s%s (%s) %s" % (self.tup_pat(state), name, args, ftxt, self.tup(state, sc))]
        self.rebind(state, sc)
        return out

    def pure_nat(self, e, sc):
        e = strip(e)
        if e.kind == "num":
            return str(e.v)
        if e.kind == "bin" and e.op in ("+", "*"):
            return "(%s %s %s)" % (self.pure_nat(e.l, sc), e.op, self.pure_nat(e.r, sc))
        l, t, ty = self.ex(e, sc, NAT)
        if l or ty != NAT:
            raise Unsupported("fuel expression", e.pos)
        return atom(t)

    # ------------------------------------------------------------------ a function
    def translate(self, body_text, start):
        toks = tokenize(body_text, start)
        p = ParserP(toks)
        blk = p.body()
        sc = Scope()
        spec = self.spec
        params = []
        self_ty = STRUCT_NAMES.get(spec.get("self_ty")) if spec.get("self_struct") else None
        if self_ty is not None:
            sc.declare("self", self_ty)
        fields = []
        for path, (nm, ty) in (spec.get("self_fields") or {}).items():
            t = self.parse_ty(ty)
            sc.declare(nm, t)
            fields.append((nm, t))
        for pn, pt in spec["params"]:
            ty = self.parse_ty(pt)
            sc.declare(pn, ty)
            params.append((pn, ty))
        ret = self.parse_ty(spec["ret"]) if spec.get("ret") else UNIT
        mut_self = bool(spec.get("mut_self"))
        rf = [(spec["self_fields"][p][0]) for p in spec.get("returns_fields", [])]

        def fin(scx):
            l, t = [], None
            if blk.tail is not None:
                l, t, ty = self.ex(blk.tail, scx, ret)
                if ty != ret:
                    raise Unsupported("the result has type %s, the pinned header says %s" % (lean_ty(ty), lean_ty(ret)), blk.tail.pos)
            elif ret != UNIT:
                raise Unsupported("function without a result expression", blk.pos)
            outs = ([atom(t)] if t is not None else []) + ([scx.get("self")[0]] if (mut_self and self_ty is not None) else []) + \
                   [scx.get(n)[0] for n in rf]
            return l + ["pure %s" % ("()" if not outs else outs[0] if len(outs) == 1 else "(" + ", ".join(outs) + ")")]
        lines = self.stmts(blk.stmts, sc, fin)
        rtys = ([ret] if ret != UNIT else []) + ([self_ty] if (mut_self and self_ty is not None) else []) + [dict(fields)[n] for n in rf]
        rty = UNIT if not rtys else rtys[0] if len(rtys) == 1 else ttup(rtys)
        head = "def %s%s%s%s%s : Res %s := do" % (
            self.fn, "".join(" (%s : %s)" % (n, t) for n, t in self.extras),
            " (self : %s)" % lean_ty(self_ty) if self_ty is not None else "",
            "".join(" (%s : %s)" % (lname(n), lean_ty(t)) for n, t in fields),
            "".join(" (%s : %s)" % (lname(n), lean_ty(t)) for n, t in params), paren(lean_ty(rty)))
        main = "\n".join([head] + ind(lines))
        if not spec.get("self_fields"):
            self.done[(spec.get("self_ty"), spec["name"])] = dict(lean=self.fn, params=params, ret=rty, mut_self=mut_self,
                                                                extras=self.extras)
        return self.helpers, main


# ================================================================================================== units

def tokens_regex(text):
    toks = [t.text for t in tokenize(text, 0)[:-1]]
    parts = []
    for i, t in enumerate(toks):
        parts.append(re.escape(t))
        if i + 1 < len(toks):
            a, b = t[-1], toks[i + 1][0]
            both_word = (a.isalnum() or a == "_") and (b.isalnum() or b == "_")
            parts.append(r"\s+" if both_word else r"\s*")
    return r"(?<![\w])" + "".join(parts)


def match_brace(code, i):
    depth = 0
    for k in range(i, len(code)):
        if code[k] == "{":
            depth += 1
        elif code[k] == "}":
            depth -= 1
            if depth == 0:
                return k
    raise Unsupported("unbalanced braces", i)


def translate_unit(src, unit, fail):
    """src: gen_tables.Src of unit['file']; returns (lean text, snippets dict)"""
    rel = unit["file"]
    out_fns, snippets, done = [], {}, {}
    for what, text in unit.get("pinned_items", []):
        n = len(re.findall(tokens_regex(text), src.code))
        if n != 1:
            fail("%s: %s: the declaration the translation reads the data with (`%s …`) occurs %d times instead of once "
                 "(changed type declaration: tools/rs2lean_genpoa.py pins it)" % (rel, what, " ".join(text.split())[:60], n))
        snippets["decl " + what] = " ".join(text.split())
    for f in unit["functions"]:
        what = "fn %s" % f["name"]
        rx = header_regex(f["header"])
        lo, hi = 0, len(src.code)
        if f.get("within"):
            ws = list(re.finditer(tokens_regex(f["within"]) + r"\s*\{", src.code))
            if len(ws) != 1:
                fail("%s: %s: expected exactly one item `%s {`, found %d" % (rel, what, f["within"], len(ws)))
            lo = ws[0].end() - 1
            hi = match_brace(src.code, lo)
        ms = [m for m in re.finditer(rx, src.code) if lo <= m.start() < hi]
        if len(ms) != 1:
            fail("%s: %s: expected exactly one function with the header `%s`, found %d (signature changed, renamed or "
                 "restructured: the translation spec in tools/rs2lean_genpoa.py pins the header)" % (rel, what, f["header"], len(ms)))
        ob = src.code.find("{", ms[0].end() - 1)
        cb = match_brace(src.code, ob)
        body, line = src.code[ob + 1:cb], src.line_of(ob)
        start = ob + 1
        snippets[f.get("self_ty", "") + "::" + f["name"]] = ms[0].group(0)[:-1].strip() + " {" + body + "}"
        try:
            tr = FnTr(unit, f, done, src)
            helpers, main = tr.translate(body, start)
        except Unsupported as u:
            where = "%s:%d" % (rel, src.line_of(u.pos)) if u.pos is not None else "%s:%d" % (rel, line)
            fail("%s: %s: cannot translate: %s (outside the subset of tools/rs2lean_genpoa.py; the equality theorem %s can no "
                 "longer be regenerated)" % (where, what, u.msg, f.get("theorem", "")))
        out_fns.append((f, line, body, helpers, main))
    name = unit["name"]
    txt = ["import RbV.Basic.RsSemGenpoa", "import RbV.Gen.Limits"] + ["import " + m for m in unit.get("lean_imports", [])] + [
        "/-! GENERATED by tools/rs2lean_genpoa.py (tools/gen_tables.py, %s) — do not edit." % unit["props"],
        "Translation of the *text* of the following functions of `%s` (comments blanked) into Lean, regenerated from the" % rel,
        "source tree on every `./check`.  Data and the petgraph operations are read as stated in `RbV/Basic/RsSemGenpoa.lean`",
        "(`Res.panic` = the Rust code panics: index out of bounds, checked `usize` / `i32` arithmetic, `unwrap` of `None`, `add_edge`",
        "between missing nodes; `Res.fuel` = a `while` loop ran out of the fuel of the translation spec).  Equality with the",
        "mirror models: `RbV/Thm/Gen%s*.lean`." % name,
        ""]
    for f, line, body, helpers, main in out_fns:
        txt.append("`%s` (line %d):" % (" ".join(f["header"].split()), line))
        txt.append("```")
        for l in dedent(body).splitlines():
            if l.strip():
                txt.append(l.rstrip().replace("-/", "- /").replace("/-", "/ -"))
        txt.append("```")
    txt.append("-/")
    txt.append("set_option linter.unusedVariables false")
    txt.append("namespace RbV.Gen.%s" % name)
    txt.append("open RbV RbV.Rs RbV.Poa RbV.Poa.Model")
    txt.append("")
    for f, line, body, helpers, main in out_fns:
        for h in helpers:
            txt.append(h)
            txt.append("")
        txt.append("/-- `%s` (%s, line %d) -/" % (" ".join(f["header"].split()).replace("-/", "- /"), rel, line))
        txt.append(main)
        txt.append("")
    txt.append("end RbV.Gen.%s" % name)
    return "\n".join(txt) + "\n", snippets


UNITS = {}


def unit(**kw):
    UNITS[kw["name"]] = kw
    return kw


POA_FILE = "src/alignment/poa.rs"
PIN_OP = ("enum AlignmentOperation", "pub enum AlignmentOperation { Match(Option<(usize, usize)>), Del(Option<(usize, usize)>), "
          "Ins(Option<usize>), Xclip(usize), Yclip(usize, usize),")
PIN_CELL = ("struct TracebackCell", "pub struct TracebackCell { score: i32, op: AlignmentOperation, }")
PIN_CELL_ORD = ("impl Ord for TracebackCell", "impl Ord for TracebackCell { fn cmp(&self, other: &TracebackCell) -> Ordering { "
                "self.score.cmp(&other.score) } }")
PIN_TB = ("struct Traceback", "pub struct Traceback { rows: usize, cols: usize,")
PIN_TB2 = ("struct Traceback (fields)", "last: NodeIndex<usize>, matrix: Vec<(Vec<TracebackCell>, usize, usize)>, }")
PIN_ALN = ("struct Alignment", "pub struct Alignment { pub score: i32,")
PIN_ALN2 = ("struct Alignment (fields)", "operations: Vec<AlignmentOperation>, }")
PIN_GRAPH = ("type POAGraph", "pub type POAGraph = Graph<u8, i32, Directed, usize>;")
PIN_MAX = ("use std::cmp::max", "use std::cmp::{max, Ordering};")

SCORING_FIELDS = {
    "self.graph": ("graph", "POAGraph"),
    "self.scoring.gap_open": ("gap_open", "i32"),
    "self.scoring.xclip_prefix": ("xclip_prefix", "i32"),
    "self.scoring.xclip_suffix": ("xclip_suffix", "i32"),
    "self.scoring.yclip_prefix": ("yclip_prefix", "i32"),
    "self.scoring.yclip_suffix": ("yclip_suffix", "i32"),
}
SCORE_FN = {"self.scoring.match_fn.score": ("w", [NAT, NAT], INT)}

TB_FNS = [
    dict(name="with_capacity", lean="Traceback_with_capacity", self_ty="Traceback", uses_extras=False,
         header="fn with_capacity(m: usize, n: usize) -> Self", params=[("m", "usize"), ("n", "usize")], ret="Traceback"),
    dict(name="initialize_scores", lean="Traceback_initialize_scores", self_ty="Traceback", self_struct=True, mut_self=True,
         uses_extras=False, header="fn initialize_scores(&mut self, gap_open: i32, yclip: i32)",
         params=[("gap_open", "i32"), ("yclip", "i32")]),
    dict(name="new_row", lean="Traceback_new_row", self_ty="Traceback", self_struct=True, mut_self=True, uses_extras=False,
         header="fn new_row(&mut self, row: usize, size: usize, gap_open: i32, xclip: i32, start: usize, end: usize,)",
         params=[("row", "usize"), ("size", "usize"), ("gap_open", "i32"), ("xclip", "i32"), ("start", "usize"), ("end", "usize")]),
    dict(name="set", lean="Traceback_set", self_ty="Traceback", self_struct=True, mut_self=True, uses_extras=False,
         header="fn set(&mut self, i: usize, j: usize, cell: TracebackCell)",
         params=[("i", "usize"), ("j", "usize"), ("cell", "TracebackCell")]),
    dict(name="get", lean="Traceback_get", self_ty="Traceback", self_struct=True, uses_extras=False,
         header="fn get(&self, i: usize, j: usize) -> &TracebackCell", params=[("i", "usize"), ("j", "usize")], ret="TracebackCell"),
    dict(name="alignment", lean="Traceback_alignment", self_ty="Traceback", self_struct=True, uses_extras=False,
         header="pub fn alignment(&self) -> Alignment", within="impl Traceback", params=[], ret="Alignment",
         fuel=["(self.rows + 3) * (self.cols + 3)"]),
]

unit(name="SrcPoaAlign", props="property C16", file=POA_FILE, extras=[("w", "Nat → Nat → Int")],
     pinned_items=[PIN_OP, PIN_CELL, PIN_CELL_ORD, PIN_TB, PIN_TB2, PIN_ALN, PIN_ALN2, PIN_GRAPH, PIN_MAX],
     functions=TB_FNS + [
         dict(name="custom", lean="custom", self_ty="Poa", header="pub fn custom(&self, query: TextSlice) -> Traceback",
              self_fields=SCORING_FIELDS, abstract_fns=SCORE_FN, params=[("query", "TextSlice")], ret="Traceback",
              locals={"max_in_column": "Vec<(i32, usize)>", "max_in_row": "(i32, usize)"},
              theorem="RbV.Thm.C16.poa_custom_source_eq_model"),
         dict(name="global_banded", lean="global_banded", self_ty="Poa",
              header="pub fn global_banded(&self, query: TextSlice, bandwidth: usize) -> Traceback",
              self_fields=SCORING_FIELDS, abstract_fns=SCORE_FN, params=[("query", "TextSlice"), ("bandwidth", "usize")],
              ret="Traceback", locals={"max_scoring_j": "usize"},
              theorem="RbV.Thm.C16.poa_global_banded_source_eq_model"),
     ])

unit(name="SrcPoaAdd", props="property C16", file=POA_FILE, extras=[],
     pinned_items=[PIN_OP, PIN_ALN, PIN_ALN2, PIN_GRAPH],
     functions=[
         dict(name="add_alignment", lean="add_alignment", self_ty="Poa",
              header="pub fn add_alignment(&mut self, aln: &Alignment, seq: TextSlice)",
              self_fields={"self.graph": ("graph", "POAGraph")}, returns_fields=["self.graph"],
              params=[("aln", "Alignment"), ("seq", "TextSlice")],
              theorem="RbV.Thm.C16.poa_add_alignment_source_eq_model"),
     ])

unit(name="SrcPoaConsensus", props="property C16", file=POA_FILE, extras=[],
     pinned_items=[PIN_GRAPH],
     functions=[
         dict(name="consensus", lean="consensus", self_ty="Aligner", header="pub fn consensus(&self) -> Vec<u8>",
              self_fields={"self.poa.graph": ("graph", "POAGraph")}, params=[], ret="Vec<u8>",
              fuel=["self.poa.graph.node_count() + 2"],
              locals={"weight": "i32"},
              theorem="RbV.Thm.C16.poa_consensus_source_eq_model"),
     ])


# ================================================================================================== self-test / main

class _Src:
    def __init__(self, text):
        self.raw = self.code = text
        self.rel = "selftest.rs"

    def line_of(self, pos):
        return self.code.count("\n", 0, pos) + 1

    def fn_body(self, rx, what):
        m = re.search(rx, self.code)
        start = self.code.find("{", m.end() - 1)
        depth = 0
        for i in range(start, len(self.code)):
            if self.code[i] == "{":
                depth += 1
            elif self.code[i] == "}":
                depth -= 1
                if depth == 0:
                    return self.code[start + 1:i], self.line_of(start)
        raise Unsupported("unbalanced")


class _Refused(Exception):
    pass


SELFTEST_RS = r"""
pub fn demo(&self, query: TextSlice, k: usize) -> Vec<u8> {
    let mut best: Vec<(i32, usize)> = vec![(0, usize::MAX); query.len() + 1];
    let mut out: Vec<u8> = vec![];
    let mut acc: (i32, usize) = (0, 0);
    let mut topo = Topo::new(&self.graph);
    while let Some(node) = topo.next(&self.graph) {
        let r = self.graph.raw_nodes()[node.index()].weight;
        for (qi, qb) in query.iter().enumerate().skip(k) {
            let j = qi + 1;
            if j > k + 3 {
                break;
            }
            if *qb == b'X' {
                continue;
            }
            let c = max(
                TracebackCell { score: MIN_SCORE, op: AlignmentOperation::Match(None) },
                TracebackCell { score: self.scoring.match_fn.score(r, *qb) + (j as i32) * self.scoring.gap_open, op: AlignmentOperation::Ins(Some(j - 1)) },
            );
            if best[j].0 < c.score {
                best[j].0 = c.score;
                best[j].1 = node.index();
            }
            match c.op {
                AlignmentOperation::Ins(Some(p)) => {
                    acc.1 = p;
                }
                AlignmentOperation::Match(_) => {}
                _ => {
                    acc.0 += 1;
                }
            }
        }
        out.push(r);
    }
    let mut pos = best.iter().enumerate().max_by_key(|(_, &value)| value.0).map(|(idx, _)| idx).unwrap();
    while pos != 0 && (best[pos].1, pos) > (acc.1, 0) {
        pos -= 1;
    }
    out.reverse();
    out
}
"""
SELFTEST_UNIT = dict(name="SrcSelfPoa", props="self-test", file="selftest.rs", extras=[("w", "Nat → Nat → Int")], functions=[
    dict(name="demo", lean="demo", self_ty="Poa", header="pub fn demo(&self, query: TextSlice, k: usize) -> Vec<u8>",
         self_fields=SCORING_FIELDS, abstract_fns=SCORE_FN, params=[("query", "TextSlice"), ("k", "usize")], ret="Vec<u8>",
         fuel=["query.len() + 2"])])
SELFTEST_REFUSED = [
    ("loop { }", "`loop`"),
    ("let x = query.iter().fold(0, |a, b| a + b); out", "method `.fold"),
    ("for q in query.iter() { if *q == 1 { out.push(1); break; } else { continue; } } out", "`break` in this position"),
    ("let x = match k { 0 => 1, _ => 2 }; out", "`match` in expression position"),
    ("let g = self.graph.node_indices(); out", "graph method `.node_indices"),
    ("return out;", "`return`"),
    ("let x = -1; out", "unary minus"),
    ("let mut i = 0; while i < k { i += 1; } while i > 0 { i -= 1; } out", "without a fuel expression"),
]
SELFTEST_LEAN = r"""
open RbV.Gen.SrcSelfPoa in
example : (demo (fun a b => if a = b then 2 else -1) { labels := [65, 67], es := [(0, 1, 1)] } (-1) 0 0 0 0 [65, 88, 67] 0).toOption
    = some [67, 65] := by decide
"""


def selftest(with_lean):
    def refuse(msg):
        raise _Refused(msg)
    text, _ = translate_unit(_Src(SELFTEST_RS), SELFTEST_UNIT, refuse)
    text2, _ = translate_unit(_Src(SELFTEST_RS), SELFTEST_UNIT, refuse)
    assert text == text2, "translation is not deterministic"
    for frag in ("demo_for1", "demo_for2", "demo_while1", "Rs.Poa.topoOrder", "Rs.Poa.nodeWeight", "Rs.usizeAsI32", "Rs.imul 32",
                 "Rs.iadd 32", "cmax", "Rs.maxByKey", "Rs.setIdx", "| .i (some p) =>", "Rs.expect", ".reverse", "rest"):
        assert frag in text, "missing `%s` in the translation of the self-test function" % frag
    hdr = "pub fn demo(&self, query: TextSlice, k: usize) -> Vec<u8> { let mut out: Vec<u8> = vec![]; "
    for body, expect in SELFTEST_REFUSED:
        try:
            translate_unit(_Src(hdr + body + "}"), SELFTEST_UNIT, refuse)
        except _Refused as r:
            assert expect in str(r), "refused for another reason: %s (expected %s)" % (r, expect)
        else:
            raise AssertionError("not refused: " + body)
    print("rs2lean_genpoa selftest: translation ok, %d non-subset snippets refused" % len(SELFTEST_REFUSED))
    if with_lean:
        import subprocess, tempfile
        root = os.path.dirname(os.path.dirname(os.path.abspath(__file__)))
        d = tempfile.mkdtemp(dir=os.path.join(root, ".work") if os.path.isdir(os.path.join(root, ".work")) else os.path.dirname(root))
        fn = os.path.join(d, "SelfPoa.lean")
        with open(fn, "w") as f:
            f.write(text.replace("import RbV.Gen.Limits", "import RbV.Gen.Limits\nimport RbV.Basic.RsSemGenavl") + SELFTEST_LEAN)
        p = subprocess.run(["lake", "env", "lean", fn], cwd=os.path.join(root, "lean"), stdout=subprocess.PIPE,
                           stderr=subprocess.STDOUT, text=True)
        print(p.stdout.strip())
        os.remove(fn)
        os.rmdir(d)
        assert p.returncode == 0, "lean rejected the translated self-test function"
        print("rs2lean_genpoa selftest: lean ok")


def main():
    ap = argparse.ArgumentParser()
    ap.add_argument("--selftest", action="store_true")
    ap.add_argument("--lean", action="store_true")
    ap.add_argument("--show", help="print the translation of a unit from --repo")
    ap.add_argument("--repo", default="/repo")
    a = ap.parse_args()
    if a.selftest:
        selftest(a.lean)
        return
    if a.show:
        import gen_tables
        u = UNITS[a.show]
        s = gen_tables.Src(a.repo, u["file"])
        text, _ = translate_unit(s, u, gen_tables.fail)
        print(text)


if __name__ == "__main__":
    main()
