#!/usr/bin/env python3
"""Resolve "both sides appended" merge conflicts by keeping both sides (ours first, then theirs):
    tools/keepboth.py <file> [<file> ...]
Used by the coordinator when merging parallel builders' clones (docs/notes/GEN.md, tools/gen_tables.py registration blocks,
Thm/Cxx.lean sections). Not for JSON files: check `meta/*.json` / `known/*.json` stay valid after a merge and repair by hand."""
import sys

for p in sys.argv[1:]:
    s = open(p).read()
    out, state = [], 0
    for line in s.split("\n"):
        if line.startswith("<<<<<<< "):
            state = 1
            continue
        if line == "=======" and state == 1:
            state = 2
            continue
        if line.startswith(">>>>>>> ") and state == 2:
            state = 0
            continue
        out.append(line)
    open(p, "w").write("\n".join(out))
