#!/usr/bin/env python3
"""Source-extracted obligations (DESIGN §8):  tools/gen_tables.py --repo <repo> --prop Cxx [--json]

Rewrites the files under lean/RbV/Gen/ that belong to property Cxx from the *current* source tree <repo>.
Called by ./check before `lake build` (under the `lake` lock).  Idempotent: a file is only rewritten when its
content changes.  Exit status non-zero (with a message on stdout) when an extraction fails: a constant that was
renamed, removed, duplicated, given another type, or is no longer a plain literal is a *broken correspondence*
(the orchestrator reports VIOLATION … no-failing-input-found with the message).  A constant whose *value* changed
is extracted normally; the theorems over the generated file then either still hold (the model follows the code) or
fail in `lake build` (see docs/notes/GEN.md for which constant behaves how, and why).

Extractors are registered per property in EXTRACTORS below (properties without an entry are a no-op):

  C20            Gen/Complement.lean  run-time dump (harness binary `rbdump complement`) of dna/rna::complement
  C17            Gen/Dna2Int.lean     literal `DNA2INT: [u8; 128]` and `let height: usize = 3` of wavelet_matrix.rs
  C15            Gen/Scales.lean      LOG_TO_PHRED_FACTOR, PHRED_TO_LOG_FACTOR, the `ln_1m_exp` switch point
                                      (stats/probs/mod.rs); COEFF_0..4, ONEBYLOG2, OFFSET_F64, FRACTION_F64,
                                      MIN_VAL (utils/fastexp.rs) — decimal literals as exact rationals
  C01 C02 C16    Gen/Limits.lean      MIN_SCORE (pairwise/mod.rs, poa.rs), MAX_CELLS, DEFAULT_MATCH_SCORE (banded.rs) and
                                      the number the doc comment of banded::Aligner states for MAX_CELLS ("currently set to …")
  C01 C02        Gen/TbCodes.lean     I_POS, D_POS, S_POS, TB_* (pairwise/mod.rs), the 0b1111 field mask
  C03 C04        Gen/Occ.lean         the `self.k > 64` threshold in `Occ::get` (data_structures/bwt.rs)
  C08            Gen/SrcKmpLps.lean, SrcShiftAndMasks.lean, SrcHorspoolNew.lean
  C18            Gen/SrcFenwick.lean, SrcBitEnc.lean
  C04            Gen/SrcBwt.lean, SrcPrescan.lean
  C18 C03        Gen/SrcSmallInts.lean   (genbits) SmallInts::{real_value,get,push,set,from_elem,len}; SrcBitEnc.lean also holds
                                      BitEnc::{new,push,push_values,set,get,clear,nr_blocks,nr_symbols,len}
  C17            Gen/SrcRankSelect.lean, SrcWavelet.lean   (genbits) superblocks, rank_1, rank_0; check_overflow, prank, rank
                                      (gensel) + RankSelect::{new,select_x,select_1,select_0}; build_partlevel, WaveletMatrix::new
                                      whole function bodies (kmp::lps, KMP::delta, shift_and::masks, Horspool::new,
                                      FenwickTree::get/set, bitenc mask/addr/get_by_addr/set_by_addr, bwt::bwt,
                                      utils::prescan) translated to Lean by tools/rs2lean.py; the equality theorems
                                      with the mirror models (Thm/GenSrc*.lean) are restated in Thm/C08|C18|C04.lean
  C08 (genpm)    Gen/SrcShiftAndNext.lean, SrcKmpNext.lean, SrcHorspoolNext.lean, SrcBndmNext.lean, SrcBomNext.lean
                                      constructors, find_all and Matches::next of ShiftAnd, KMP, Horspool, BNDM (search loops as
                                      functions on the explicit iterator state); Thm/GenSrc*Next.lean, restated in Thm/C08.lean
  C09 (genpm)    Gen/SrcHamming.lean  alignment::distance::hamming; Thm/GenSrcHamming.lean, restated in Thm/C09.lean
  C20            Gen/SrcOrf.lean, SrcGc.lean, SrcAlphabet.lean     (dialect "cf", tools/rs2lean_cf.py)
  C19            Gen/SrcQGrams.lean, SrcQGramIndex.lean
  C07            Gen/SrcIit.lean
                                      orf::Matches::next (+ its length test as a separate definition), gc::gcn_content,
                                      Alphabet::{new,insert,is_word,max_symbol,len}, RankTransform::{new,get,transform},
                                      qgram_push / QGrams::next / qgrams and the reverse trio, QGramIndex::with_max_count,
                                      ArrayBackedIntervalTree::{index_core, find_into}; restated in Thm/C20|C19|C07.lean

RbV/Thm/C01.lean and RbV/Thm/C02.lean import RbV.Thm.GenLimits / RbV.Thm.GenTbCodes and restate their theorems as
property theorems, and the C01/C02 spec/reference files (`Spec/Align.lean` `minScore`, `Ref/Banded.lean` `maxCells`) are
defined by the generated constants: the orchestrator's own `lake build` re-checks them.  For C16 the theorem module
RbV.Thm.GenLimits is not (yet) imported by the property's own theorem file, so this script builds it itself
(`lake build <module>`; it runs under the orchestrator's lake lock) and fails when it no longer checks.

`--json` additionally prints one line `gen_tables-json: [...]` describing every generated file (lean file, source
files with the sha256 of their text and of the extracted snippets) for the evidence (docs/notes/GEN.md).
"""
import sys, os, re, json, argparse, subprocess, fcntl, hashlib
from fractions import Fraction

ROOT = os.path.dirname(os.path.dirname(os.path.abspath(__file__)))
HARN = os.path.join(ROOT, "harness")
LEAN = os.path.join(ROOT, "lean")
GEN = os.path.join(LEAN, "RbV", "Gen")

REPORT = []  # one dict per generated file (for --json)


def fail(msg, hard=False):
    """`hard`: the text was read and contradicts an obligation (inconsistent statements, a theorem over regenerated constants
    fails) -> exit code 2.  Otherwise: the extractor can no longer read what it needs from the text (renamed, restructured,
    outside the translated subset) -> exit code 1, reported by main() as *unavailable*, not as a broken obligation."""
    # ./check keeps the last 400 characters of the output as the problem text: the message goes last and fits
    print("gen_tables: " + (msg if len(msg) <= 380 else msg[:377] + "..."))
    sys.exit(2 if hard else 1)


def write_if_changed(path, text):
    old = None
    if os.path.exists(path):
        with open(path) as f:
            old = f.read()
    if old == text:
        return False
    os.makedirs(os.path.dirname(path), exist_ok=True)
    tmp = path + ".tmp%d" % os.getpid()
    with open(tmp, "w") as f:
        f.write(text)
    os.replace(tmp, path)
    return True


def sha(s):
    return hashlib.sha256(s.encode("utf8")).hexdigest()


THEOREMS = {
    "Complement": ["RbV.Thm.C20.complement_tables_wellformed", "RbV.Thm.C20.complement_tables_involutive",
                   "RbV.Thm.C20.complement_tables_case", "RbV.Thm.C20.complement_tables_identity_outside"],
    "Dna2Int": ["RbV.Thm.C17.dna2int_generated_ok", "RbV.Thm.C17.dna2int_codes_fit_height",
                "RbV.Thm.C17.wavelet_rank_correct_generated"],
    "Scales": ["RbV.Thm.C15.phred_factors_inverse", "RbV.Thm.C15.phred_factors_near_exact_given_ln10_enclosure",
               "RbV.Thm.C15.fastexp_poly_endpoints", "RbV.Thm.C15.fastexp_poly_is_model_poly",
               "RbV.Thm.C15.fastexp_exponent_field_in_range"],
    "Limits": ["RbV.Thm.GenLimits.min_score_pairwise_eq_poa", "RbV.Thm.GenLimits.two_min_scores_no_i32_overflow",
               "RbV.Thm.GenLimits.min_score_range", "RbV.Thm.GenLimits.min_score_headroom",
               "RbV.Thm.GenLimits.max_cells_pos_and_default_match_pos",
               "RbV.Thm.C01.min_score_is_source_constant", "RbV.Thm.C01.two_min_scores_no_i32_overflow",
               "RbV.Thm.C01.min_score_headroom", "RbV.Thm.C02.cell_budget_is_source_constant",
               "RbV.Thm.C02.cell_budget_positive", "RbV.Thm.C02.sentinel_score_is_source_min_score",
               "RbV.Thm.C02.two_min_scores_no_i32_overflow"],
    "TbCodes": ["RbV.Thm.C01.tb_* and RbV.Thm.C02.tb_* (restatements of the following)",
                "RbV.Thm.GenTbCodes.tb_codes_distinct", "RbV.Thm.GenTbCodes.tb_codes_le_max",
                "RbV.Thm.GenTbCodes.tb_max_fits_field", "RbV.Thm.GenTbCodes.tb_fields_disjoint",
                "RbV.Thm.GenTbCodes.tb_get_after_set", "RbV.Thm.GenTbCodes.tb_set_preserves_other_fields",
                "RbV.Thm.GenTbCodes.tb_set_fits_cell", "RbV.Thm.GenTbCodes.tb_set_all"],
    "Occ": ["RbV.Thm.C04.occ_get_exact (for every threshold)", "RbV.Thm.C04.occ_get_forward_up_to_threshold"],
}


def emit(name, prop, text, sources, snippets):
    """write Gen/<name>.lean when changed; record provenance"""
    changed = write_if_changed(os.path.join(GEN, name + ".lean"), text)
    print("gen_tables: Gen/%s.lean %s" % (name, "rewritten" if changed else "unchanged"))
    REPORT.append(dict(lean_file="lean/RbV/Gen/%s.lean" % name, property=prop, lean_sha256=sha(text), rewritten=changed,
                       theorems=THEOREMS.get(name, []),
                       sources=[dict(file=rel, sha256=sha(txt)) for rel, txt in sources],
                       extracted={k: dict(text=" ".join(v.split())[:200], sha256=sha(v)[:16]) for k, v in snippets.items()}))


def note(msg):
    """the Python side already sees that a theorem over the generated file will fail: say which entry (DESIGN §3.5);
    the verdict itself is left to `lake build`"""
    print("gen_tables: note: " + msg)


def shape_note(msg):
    """a *use site* of an extracted constant no longer has the shape the mirror model transcribes, while the constant
    itself is still found.  No proof obligation depends on the shape (the theorems hold for every value of these tuning
    constants), so this is reported in the evidence (`generated_table_notes`) and left to the behavioural tie, which runs
    with an escalated case budget because the source fingerprint differs; it is not a broken obligation."""
    note("use-site shape changed (decided by the behavioural tie, not an obligation): " + msg)


# ------------------------------------------------------------------------------------------ source text helpers

class Src:
    """one source file of the tree under test, with comments blanked out (offsets and line numbers are kept)"""

    def __init__(self, repo, rel):
        self.rel = rel
        path = os.path.join(repo, rel)
        if not os.path.isfile(path):
            fail("%s: source file not found in %s (moved or removed?)" % (rel, repo))
        with open(path, encoding="utf8", errors="replace") as f:
            self.raw = f.read()
        self.code = blank_comments(self.raw)
        self.snippets = {}

    def line_of(self, pos):
        return self.code.count("\n", 0, pos) + 1

    # -- constants -------------------------------------------------------------------------------------------
    def const(self, name, ty):
        """the initialiser text of `[pub] const NAME: <ty> = <init>;` at module level.  Exactly one definition
        must exist and its declared type must be `ty` (white space ignored)."""
        rx = re.compile(r"^[ \t]*(?:pub(?:\([^)]*\))?[ \t]+)?(?:const|static)[ \t]+" + re.escape(name)
                        + r"\b\s*:\s*([^=]+?)\s*=\s*([^;]*);", re.M)
        ms = list(rx.finditer(self.code))
        if not ms:
            fail("%s: `const %s` not found (renamed, removed, or no longer a `const` item)" % (self.rel, name))
        if len(ms) > 1:
            fail("%s: `const %s` defined %d times (lines %s): which one the code uses cannot be decided from the text"
                 % (self.rel, name, len(ms), ", ".join(str(self.line_of(m.start())) for m in ms)))
        m = ms[0]
        got = "".join(m.group(1).split())
        if got != "".join(ty.split()):
            fail("%s:%d: `const %s` now has type `%s`, the obligations were stated for `%s`"
                 % (self.rel, self.line_of(m.start()), name, m.group(1).strip(), ty))
        self.snippets[name] = m.group(0).strip()
        return m.group(2).strip(), self.line_of(m.start())

    def int_const(self, name, ty):
        init, line = self.const(name, ty)
        v = parse_int(init)
        if v is None:
            fail("%s:%d: `const %s = %s` is no longer an integer literal (an expression cannot be extracted from the text)"
                 % (self.rel, line, name, init[:60]))
        lo, hi = int_range(ty)
        if not (lo <= v <= hi):
            fail("%s:%d: `const %s = %s` does not fit its type %s" % (self.rel, line, name, init[:60], ty))
        return v

    def dec_const(self, name, ty="f64"):
        init, line = self.const(name, ty)
        v = parse_decimal(init)
        if v is None:
            fail("%s:%d: `const %s = %s` is no longer a decimal literal (an expression cannot be extracted from the text)"
                 % (self.rel, line, name, init[:60]))
        return v

    def int_array_const(self, name, elem_ty, n):
        init, line = self.const(name, "[%s; %d]" % (elem_ty, n))
        if not (init.startswith("[") and init.endswith("]")):
            fail("%s:%d: `const %s` is not an array literal" % (self.rel, line, name))
        body = init[1:-1].strip()
        if ";" in body:
            fail("%s:%d: `const %s` is a repeat expression `[v; n]`, not an element list" % (self.rel, line, name))
        items = [x.strip() for x in body.split(",")]
        if items and items[-1] == "":
            items.pop()
        vals = []
        lo, hi = int_range(elem_ty)
        for k, it in enumerate(items):
            v = parse_int(it)
            if v is None or not (lo <= v <= hi):
                fail("%s:%d: entry %d of `%s` (`%s`) is not a %s literal" % (self.rel, line, k, name, it[:30], elem_ty))
            vals.append(v)
        if len(vals) != n:
            fail("%s:%d: `%s` has %d entries, its type says %d" % (self.rel, line, name, len(vals), n))
        return vals

    # -- function bodies -------------------------------------------------------------------------------------
    def fn_body(self, header_rx, what):
        """text between the braces of the single function whose header matches `header_rx` (up to its `{`)"""
        ms = list(re.finditer(header_rx, self.code))
        if len(ms) != 1:
            fail("%s: %s: expected exactly one match of the function header, found %d (renamed or restructured)"
                 % (self.rel, what, len(ms)))
        start = self.code.find("{", ms[0].end() - 1)
        if start < 0:
            fail("%s: %s: no body" % (self.rel, what))
        depth = 0
        for i in range(start, len(self.code)):
            ch = self.code[i]
            if ch == "{":
                depth += 1
            elif ch == "}":
                depth -= 1
                if depth == 0:
                    return self.code[start + 1:i], self.line_of(start)
        fail("%s: %s: unbalanced braces" % (self.rel, what))

    def unique_in(self, body, body_line, rx, key, what, soft=False):
        ms = list(re.finditer(rx, body))
        if len(ms) != 1 and soft:
            shape_note("%s: %s: expected exactly one occurrence in the function starting at line %d, found %d"
                       % (self.rel, what, body_line, len(ms)))
            return None
        if len(ms) != 1:
            fail("%s: %s: expected exactly one occurrence in the function starting at line %d, found %d "
                 "(the statement was rewritten; the mirror model no longer corresponds)" % (self.rel, what, body_line, len(ms)))
        self.snippets[key] = ms[0].group(0).strip()
        return ms[0]


def blank_comments(text):
    """replace `// …` and `/* … */` (nested) comments by blanks; string/char literals are skipped over"""
    out = []
    i, n = 0, len(text)
    while i < n:
        c = text[i]
        two = text[i:i + 2]
        if two == "//":
            j = text.find("\n", i)
            j = n if j < 0 else j
            out.append(" " * (j - i))
            i = j
        elif two == "/*":
            depth, j = 1, i + 2
            while j < n and depth > 0:
                if text[j:j + 2] == "/*":
                    depth += 1
                    j += 2
                elif text[j:j + 2] == "*/":
                    depth -= 1
                    j += 2
                else:
                    j += 1
            out.append("".join(ch if ch == "\n" else " " for ch in text[i:j]))
            i = j
        elif c == '"':
            j = i + 1
            while j < n and text[j] != '"':
                j += 2 if text[j] == "\\" else 1
            out.append(text[i:j + 1])
            i = j + 1
        elif c == "r" and re.match(r'r#*"', text[i:i + 8]) and (i == 0 or not (text[i - 1].isalnum() or text[i - 1] == "_")):
            m = re.match(r'r(#*)"', text[i:])
            close = '"' + m.group(1)
            j = text.find(close, i + len(m.group(0)))
            j = n if j < 0 else j + len(close)
            out.append(text[i:j])
            i = j
        elif c == "'":
            # char literal ('a', '\n', '\'', '\u{1F600}') or lifetime ('a): only skip real char literals
            m = re.match(r"'(\\.[^']*|[^\\'])'", text[i:i + 14])
            if m:
                out.append(m.group(0))
                i += len(m.group(0))
            else:
                out.append(c)
                i += 1
        else:
            out.append(c)
            i += 1
    return "".join(out)


INT_TYPES = {"u8": (0, 2 ** 8 - 1), "u16": (0, 2 ** 16 - 1), "u32": (0, 2 ** 32 - 1), "u64": (0, 2 ** 64 - 1),
             "usize": (0, 2 ** 64 - 1), "i8": (-2 ** 7, 2 ** 7 - 1), "i16": (-2 ** 15, 2 ** 15 - 1),
             "i32": (-2 ** 31, 2 ** 31 - 1), "i64": (-2 ** 63, 2 ** 63 - 1), "isize": (-2 ** 63, 2 ** 63 - 1)}


def int_range(ty):
    return INT_TYPES[ty]


def parse_int(s):
    """Rust integer literal with optional sign, `_` separators, radix prefix and type suffix; None if anything else"""
    s = s.strip()
    m = re.fullmatch(r"(-?)\s*(?:\(\s*)?(0b[01_]+|0o[0-7_]+|0x[0-9a-fA-F_]+|[0-9][0-9_]*)(?:\s*\))?"
                     r"(?:_?(?:u8|u16|u32|u64|usize|i8|i16|i32|i64|isize))?", s)
    if not m:
        return None
    body = m.group(2).replace("_", "")
    try:
        if body[:2] in ("0b", "0o", "0x"):
            if len(body) == 2:
                return None
            v = int(body[2:], {"0b": 2, "0o": 8, "0x": 16}[body[:2]])
        else:
            v = int(body, 10)
    except ValueError:
        return None
    return -v if m.group(1) else v


def parse_decimal(s):
    """Rust decimal float (or integer) literal as an exact Fraction; None if it is anything else (an expression,
    a named constant such as f64::MIN, …)"""
    s = s.strip()
    m = re.fullmatch(r"(-?)\s*([0-9][0-9_]*)(?:\.([0-9][0-9_]*)?)?(?:[eE]([+-]?)_*([0-9][0-9_]*))?(?:_?f(?:32|64))?", s)
    if not m:
        return None
    ip = m.group(2).replace("_", "")
    fp = (m.group(3) or "").replace("_", "")
    v = Fraction(int(ip + fp), 10 ** len(fp))
    if m.group(5):
        e = int(m.group(5).replace("_", ""))
        if e > 400:
            return None
        v = v * Fraction(10) ** (-e if m.group(4) == "-" else e)
    return -v if m.group(1) else v


def dec_parts(v):
    """Fraction whose denominator divides a power of ten -> (mantissa : int, scale : nat) with v = mantissa / 10^scale,
    scale minimal"""
    scale = 0
    while (v * 10 ** scale).denominator != 1:
        scale += 1
        if scale > 400:
            fail("internal: not a decimal fraction: %s" % v)
    return int(v * 10 ** scale), scale


def lean_int(v):
    return "%d" % v if v >= 0 else "(%d)" % v


# ------------------------------------------------------------------------------------------ run-time dump (C20)

def build_harness(repo):
    """same steps as `build_harness` of ./check: re-point bio-src, cargo build (offline) under the cargo lock"""
    os.makedirs(os.path.join(ROOT, ".work"), exist_ok=True)
    with open(os.path.join(ROOT, ".work", "cargo.lock"), "w") as lk:
        fcntl.flock(lk, fcntl.LOCK_EX)
        try:
            link = os.path.join(HARN, "bio-src")
            if not (os.path.islink(link) and os.readlink(link) == repo):
                if os.path.islink(link) or os.path.exists(link):
                    os.remove(link)
                os.symlink(repo, link)
                relinked = True
            else:
                relinked = False
            env = dict(os.environ, CARGO_NET_OFFLINE="true")
            if relinked:
                # same path, different tree: cargo's mtime fingerprints cannot see that (coordinator notice 1);
                # ./check will find the link already in place, so the forced rebuild of bio has to happen here
                subprocess.run(["cargo", "clean", "--release", "--offline", "-p", "bio"], cwd=HARN, env=env,
                               stdout=subprocess.PIPE, stderr=subprocess.STDOUT, text=True, timeout=600)
            p = subprocess.run(["cargo", "build", "--release", "--offline"], cwd=HARN, env=env,
                               stdout=subprocess.PIPE, stderr=subprocess.STDOUT, text=True, timeout=3600)
            if p.returncode != 0:
                errs = "\n".join([l for l in p.stdout.splitlines() if l.startswith("error")][:10])
                fail("harness does not compile against %s (needed for the run-time dump): %s\n%s"
                     % (repo, errs, p.stdout[-800:]))
        finally:
            fcntl.flock(lk, fcntl.LOCK_UN)


def lean_list(vals, indent="  ", per_row=16, width=3):
    rows = []
    for i in range(0, len(vals), per_row):
        rows.append(indent + ", ".join("%*d" % (width, v) for v in vals[i:i + per_row]))
    return "[\n" + ",\n".join(rows) + "]"


def gen_complement(repo):
    build_harness(repo)
    exe = os.path.join(HARN, "target", "release", "rbdump")
    if not os.path.exists(exe):
        fail("harness binary rbdump missing after cargo build")
    p = subprocess.run([exe, "complement"], stdout=subprocess.PIPE, stderr=subprocess.PIPE, text=True, timeout=60)
    if p.returncode != 0:
        fail("rbdump complement failed (rc=%s): %s" % (p.returncode, p.stderr[-300:]))
    tabs = {}
    for line in p.stdout.splitlines():
        t = line.split()
        if len(t) == 257 and t[0] in ("dna", "rna"):
            try:
                tabs[t[0]] = [int(x) for x in t[1:]]
            except ValueError:
                fail("rbdump complement: non-numeric entry in table " + t[0])
    for k in ("dna", "rna"):
        if k not in tabs or len(tabs[k]) != 256 or any(not (0 <= v < 256) for v in tabs[k]):
            fail("rbdump complement: table %s missing or malformed" % k)
    text = (
        "/-! GENERATED by tools/gen_tables.py (property C20) — do not edit.\n"
        "Run-time dump of `bio::alphabets::dna::complement(b)` and `bio::alphabets::rna::complement(b)` for every\n"
        "byte value b = 0 … 255 (harness binary `rbdump complement`), regenerated from the source tree on every\n"
        "`./check C20`.  The theorems of `RbV/Thm/C20.lean` about these tables are re-checked by `lake build`. -/\n"
        "namespace RbV.Gen.Complement\n\n"
        "/-- entry b = dna::complement(b) -/\n"
        "def dna : List Nat := " + lean_list(tabs["dna"]) + "\n\n"
        "/-- entry b = rna::complement(b) -/\n"
        "def rna : List Nat := " + lean_list(tabs["rna"]) + "\n\n"
        "end RbV.Gen.Complement\n")
    srcs = []
    for rel in ("src/alphabets/dna.rs", "src/alphabets/rna.rs"):
        pth = os.path.join(repo, rel)
        if os.path.isfile(pth):
            srcs.append((rel, open(pth, encoding="utf8", errors="replace").read()))
    emit("Complement", "C20", text, srcs, {"dna": " ".join(map(str, tabs["dna"])), "rna": " ".join(map(str, tabs["rna"]))})


# ------------------------------------------------------------------------------------------ C17: DNA2INT

def gen_dna2int(repo):
    rel = "src/data_structures/wavelet_matrix.rs"
    s = Src(repo, rel)
    tab = s.int_array_const("DNA2INT", "u8", 128)
    body, line = s.fn_body(r"pub\s+fn\s+new\s*\(\s*text\s*:\s*&\s*\[\s*u8\s*\]\s*\)\s*->\s*Self\s*\{", "WaveletMatrix::new")
    m = s.unique_in(body, line, r"\blet\s+height\s*:\s*usize\s*=\s*([^;]+);", "height", "`let height: usize = <literal>;`")
    height = parse_int(m.group(1))
    if height is None or not (0 <= height <= 8):
        fail("%s: `%s`: the number of levels is no longer a small integer literal" % (rel, m.group(0)))
    # both uses of the table must still be the bit test the mirror model transcribes
    uses = re.findall(r"\(\s*\(\s*DNA2INT\s*\[[^\]]+\]\s*>>\s*shift\s*\)\s*&\s*1\s*\)\s*==\s*1", s.code)
    if len(uses) != 2:
        shape_note("%s: expected the bit test `((DNA2INT[..] >> shift) & 1) == 1` twice (build_partlevel, rank), found %d"
                   % (rel, len(uses)))
    syms = [(c, tab[ord(c)]) for c in "ACGTN$"]
    for i, (a, va) in enumerate(syms):
        if va >= 2 ** height:
            note("DNA2INT['%s'] = %d does not fit %d levels: dna2int_codes_fit_height / dna2int_generated_ok will fail" % (a, va, height))
        for b, vb in syms[i + 1:]:
            if va == vb:
                note("DNA2INT['%s'] = DNA2INT['%s'] = %d: dna2int_generated_ok will fail" % (a, b, va))
    if height != 3:
        note("height = %d: the mirror model is written for 3 levels, dna2int_codes_fit_height will fail" % height)
    text = (
        "/-! GENERATED by tools/gen_tables.py (property C17) — do not edit.\n"
        "Extracted from the source text of `" + rel + "` on every `./check C17`:\n"
        "the literal `const DNA2INT: [u8; 128]` and the literal in `let height: usize = …;` of `WaveletMatrix::new`.\n"
        "Theorems over these constants: `dna2int_generated_ok`, `dna2int_codes_fit_height` in `RbV/Thm/C17.lean`;\n"
        "the driver `RbV/Drv/C17.lean` runs the wavelet mirror model over this table. -/\n"
        "namespace RbV.Gen.Dna2Int\n\n"
        "/-- entry v = DNA2INT[v] -/\n"
        "def table : List Nat := " + lean_list(tab, per_row=10, width=1) + "\n\n"
        "/-- number of bit levels of the matrix (`height` in `WaveletMatrix::new`) -/\n"
        "def height : Nat := %d\n\n" % height +
        "end RbV.Gen.Dna2Int\n")
    emit("Dna2Int", "C17", text, [(rel, s.raw)], s.snippets)


# ------------------------------------------------------------------------------------------ C15: scale factors

def gen_scales(repo):
    relp = "src/stats/probs/mod.rs"
    relf = "src/utils/fastexp.rs"
    p = Src(repo, relp)
    f = Src(repo, relf)
    decs = [("logToPhred", p, "LOG_TO_PHRED_FACTOR"), ("phredToLog", p, "PHRED_TO_LOG_FACTOR"),
            ("coeff0", f, "COEFF_0"), ("coeff1", f, "COEFF_1"), ("coeff2", f, "COEFF_2"), ("coeff3", f, "COEFF_3"),
            ("coeff4", f, "COEFF_4"), ("oneByLog2", f, "ONEBYLOG2"), ("minVal", f, "MIN_VAL")]
    vals = {}
    for lean_name, src, cname in decs:
        vals[lean_name] = (dec_parts(src.dec_const(cname)), src.rel, cname)
    offset = f.int_const("OFFSET_F64", "i64")
    fraction = f.int_const("FRACTION_F64", "u32")
    # switch point of ln_1m_exp: `if p < -0.693 {`
    body, line = p.fn_body(r"\bfn\s+ln_1m_exp\s*\(\s*p\s*:\s*f64\s*\)\s*->\s*f64\s*\{", "ln_1m_exp")
    m = p.unique_in(body, line, r"\bif\s+p\s*<\s*([^{]+?)\s*\{", "ln_1m_exp switch", "`if p < <literal> {`", soft=True)
    sw = parse_decimal(m.group(1)) if m is not None else None
    if sw is None:
        # both branches compute the same real function (`ln_one_minus_exp_*_branch`): the switch point only feeds the
        # driver's branch tags; fall back to the value the models were written with
        if m is not None:
            shape_note("%s: ln_1m_exp: switch point `%s` is no longer a decimal literal" % (relp, m.group(1)))
        sw = parse_decimal("-0.693")
    vals["ln1mExpSwitch"] = (dec_parts(sw), relp, "the literal in `if p < … {` of ln_1m_exp")
    # the guard of fastexp must still be the strict comparison with MIN_VAL the cut-off theorem talks about
    fbody, fline = f.fn_body(r"\bfn\s+fastexp\s*\(\s*&\s*self\s*\)\s*->\s*f64\s*\{", "fastexp")
    f.unique_in(fbody, fline, r"\bif\s+\*\s*self\s*>\s*MIN_VAL\s*\{", "fastexp guard", "`if *self > MIN_VAL {`", soft=True)
    out = ["import RbV.Basic.Dec",
           "/-! GENERATED by tools/gen_tables.py (property C15) — do not edit.",
           "Extracted from the source text of `" + relp + "` and `" + relf + "` on every `./check C15`.",
           "Every decimal literal is kept exactly: `⟨m, s⟩ : Dec` stands for the rational `m / 10^s`",
           "(`RbV.Dec.toFloat` gives the `f64` the Lean literal with the same digits denotes).",
           "Theorems over these constants: `phred_factors_inverse`, `phred_factors_near_exact_given_ln10`,",
           "`fastexp_poly_endpoints`, `fastexp_exponent_field_in_range` in `RbV/Thm/C15.lean`. -/",
           "namespace RbV.Gen.Scales", "open RbV", ""]
    for lean_name, _, _ in decs + [("ln1mExpSwitch", None, None)]:
        (mant, scale), rel, cname = vals[lean_name]
        out.append("/-- `%s` (%s) -/" % (cname, rel) if not cname.startswith("the ") else "/-- %s (%s) -/" % (cname, rel))
        out.append("def %s : Dec := ⟨%s, %d⟩" % (lean_name, lean_int(mant), scale))
        out.append("")
    out.append("/-- `OFFSET_F64` (%s): the exponent bias added to `bits` -/" % relf)
    out.append("def offsetF64 : Int := %s" % lean_int(offset))
    out.append("")
    out.append("/-- `FRACTION_F64` (%s): the shift that moves `bits` into the exponent field -/" % relf)
    out.append("def fractionF64 : Nat := %d" % fraction)
    out.append("")
    out.append("end RbV.Gen.Scales")
    snippets = dict(p.snippets)
    snippets.update(f.snippets)
    emit("Scales", "C15", "\n".join(out) + "\n", [(relp, p.raw), (relf, f.raw)], snippets)


# ------------------------------------------------------------------------------------------ C01/C02/C16: limits

def gen_limits(repo):
    relm = "src/alignment/pairwise/mod.rs"
    relb = "src/alignment/pairwise/banded.rs"
    relq = "src/alignment/poa.rs"
    m_, b_, q_ = Src(repo, relm), Src(repo, relb), Src(repo, relq)
    min_pw = m_.int_const("MIN_SCORE", "i32")
    min_poa = q_.int_const("MIN_SCORE", "i32")
    max_cells = b_.int_const("MAX_CELLS", "usize")
    dflt = b_.int_const("DEFAULT_MATCH_SCORE", "i32")
    # banded.rs must still take its MIN_SCORE from pairwise (no third definition)
    if re.search(r"\b(?:const|static)\s+MIN_SCORE\b", b_.code):
        fail("%s: defines its own MIN_SCORE (was: imported from pairwise); add it to Gen/Limits" % relb)
    if not re.search(r"\buse\s+crate::alignment::pairwise::(?:\*|\{[^}]*\*[^}]*\}|\{[^}]*\bMIN_SCORE\b[^}]*\}|MIN_SCORE)\s*;", b_.code) \
            and not re.search(r"\buse\s+super::(?:\*|\{[^}]*\*[^}]*\}|\{[^}]*\bMIN_SCORE\b[^}]*\}|MIN_SCORE)\s*;", b_.code):
        fail("%s: no longer imports MIN_SCORE from pairwise (`use crate::alignment::pairwise::*`)" % relb)
    # the guard in which MAX_CELLS is used
    g = re.findall(r"\bif\s+self\s*\.\s*band\s*\.\s*num_cells\s*\(\s*\)\s*>\s*MAX_CELLS\s*\{", b_.code)
    if len(g) != 1:
        shape_note("%s: expected exactly one guard `if self.band.num_cells() > MAX_CELLS {`, found %d (the boundary cases "
                   "with exactly MAX_CELLS and MAX_CELLS + rows cells decide)" % (relb, len(g)))
    else:
        b_.snippets["MAX_CELLS guard"] = g[0]
    # the number the documentation states for the budget ("… less than MAX_CELLS (currently set to 10 million) …")
    doc_cells, doc_text = documented_max_cells(b_.raw, relb)
    if doc_text is not None:
        b_.snippets["MAX_CELLS doc"] = doc_text
    if doc_cells is not None and doc_cells != max_cells:
        note("the doc comment of banded.rs says MAX_CELLS is %d, the constant is %d: case `c02 docbudget` rejects "
             "(known finding C02-doc-budget for exactly 10000000 / 5000000)" % (doc_cells, max_cells))
    if min_pw != min_poa:
        note("MIN_SCORE differs: pairwise %d, poa %d: min_score_pairwise_eq_poa will fail" % (min_pw, min_poa))
    for nm, v in (("pairwise", min_pw), ("poa", min_poa)):
        if 2 * v < -2 ** 31:
            note("2 * MIN_SCORE (%s) = %d < -2^31: two_min_scores_no_i32_overflow will fail" % (nm, 2 * v))
    text = (
        "/-! GENERATED by tools/gen_tables.py (properties C01, C02, C16) — do not edit.\n"
        "Extracted from the source text of `" + relm + "`, `" + relb + "`, `" + relq + "`\n"
        "on every `./check C01|C02|C16`.  Theorems over these constants: `RbV/Thm/GenLimits.lean`. -/\n"
        "namespace RbV.Gen.Limits\n\n"
        "/-- `pub const MIN_SCORE: i32` of `" + relm + "` (also used by banded.rs through `use …pairwise::*`) -/\n"
        "def minScorePairwise : Int := %s\n\n" % lean_int(min_pw) +
        "/-- `pub const MIN_SCORE: i32` of `" + relq + "` -/\n"
        "def minScorePoa : Int := %s\n\n" % lean_int(min_poa) +
        "/-- `const MAX_CELLS: usize` of `" + relb + "`, used in the guard `if self.band.num_cells() > MAX_CELLS` -/\n"
        "def maxCells : Nat := %d\n\n" % max_cells +
        "/-- the value the doc comment of `banded::Aligner` states for the budget (`MAX_CELLS (currently set to …)`);\n"
        "`none` when the documentation names the constant only -/\n"
        "def maxCellsDocumented : Option Nat := %s\n\n" % ("none" if doc_cells is None else "some %d" % doc_cells) +
        "/-- `const DEFAULT_MATCH_SCORE: i32` of `" + relb + "` -/\n"
        "def defaultMatchScore : Int := %s\n\n" % lean_int(dflt) +
        "/-- width in bits of the score type (`i32`; the extraction fails when the declared type changes) -/\n"
        "def scoreBits : Nat := 32\n\n"
        "end RbV.Gen.Limits\n")
    snippets = {}
    for s, pre in ((m_, "pairwise::"), (b_, "banded::"), (q_, "poa::")):
        for k, v in s.snippets.items():
            snippets[pre + k] = v
    emit("Limits", "C01,C02,C16", text, [(relm, m_.raw), (relb, b_.raw), (relq, q_.raw)], snippets)


DOC_PHRASE = "MAX_CELLS (currently set to "
DOC_UNITS = {"": 1, "thousand": 10 ** 3, "million": 10 ** 6, "billion": 10 ** 9}


def flatten_comments(raw):
    """the text with the comment leaders `///`, `//!`, `//` at line starts removed and all white space collapsed
    (the same normalisation as `doc_budget` in harness/src/c02.rs, which reads the compiled source text)"""
    words = []
    for ln in raw.splitlines():
        t = ln.strip()
        for lead in ("///", "//!", "//"):
            if t.startswith(lead):
                t = t[len(lead):]
                break
        words.extend(t.split())
    return " ".join(words)


def documented_max_cells(raw, rel):
    """(value, snippet) of `MAX_CELLS (currently set to <number> [thousand|million|billion])`; (None, None) when the
    documentation does not state a number.  Several statements must agree; an unreadable number is an extraction failure."""
    flat = flatten_comments(raw)
    vals, texts, pos = [], [], 0
    while True:
        i = flat.find(DOC_PHRASE, pos)
        if i < 0:
            break
        j = flat.find(")", i)
        if j < 0:
            fail("%s: `%s…` without closing parenthesis" % (rel, DOC_PHRASE))
        inner = flat[i + len(DOC_PHRASE):j].split()
        m = re.fullmatch(r"([0-9][0-9_,]*)(?:\.([0-9]+))?", inner[0]) if inner else None
        unit = inner[1] if len(inner) == 2 else ""
        if not m or len(inner) > 2 or unit not in DOC_UNITS:
            fail("%s: documented value of MAX_CELLS `%s` is not `<number> [thousand|million|billion]`"
                 % (rel, flat[i + len(DOC_PHRASE):j][:60]))
        frac = m.group(2) or ""
        num = int(re.sub(r"[_,]", "", m.group(1)) + frac) * DOC_UNITS[unit]
        if num % (10 ** len(frac)) != 0:
            fail("%s: documented value of MAX_CELLS `%s` is not a whole number" % (rel, " ".join(inner)))
        vals.append(num // (10 ** len(frac)))
        texts.append(flat[i:j + 1])
        pos = j
    if not vals:
        return None, None
    if len(set(vals)) > 1:
        fail("%s: the documentation states different values for MAX_CELLS: %s" % (rel, ", ".join(map(str, vals))), hard=True)
    return vals[0], " | ".join(texts)


TB_NAMES = ["TB_START", "TB_INS", "TB_DEL", "TB_SUBST", "TB_MATCH", "TB_XCLIP_PREFIX", "TB_XCLIP_SUFFIX",
            "TB_YCLIP_PREFIX", "TB_YCLIP_SUFFIX"]


def lean_ident(cname):
    parts = cname.lower().split("_")
    return parts[0] + "".join(p.capitalize() for p in parts[1:])


def gen_tbcodes(repo):
    rel = "src/alignment/pairwise/mod.rs"
    s = Src(repo, rel)
    pos = [(n, s.int_const(n, "u8")) for n in ("I_POS", "D_POS", "S_POS")]
    codes = [(n, s.int_const(n, "u16")) for n in TB_NAMES]
    tb_max = s.int_const("TB_MAX", "u16")
    # any further TB_* constant would be a move the model does not know
    all_tb = sorted(set(re.findall(r"\bconst\s+(TB_[A-Z0-9_]+)\s*:", s.code)))
    extra = [n for n in all_tb if n not in TB_NAMES and n != "TB_MAX"]
    if extra:
        fail("%s: new traceback constants %s: the list of moves in tools/gen_tables.py (TB_NAMES) has to be extended"
             % (rel, ", ".join(extra)))
    # field mask and the cell type: `struct TracebackCell { v: u16 }`, `(0b1111) << pos`, `& (0b1111)`
    cell = re.findall(r"\bpub\s+struct\s+TracebackCell\s*\{\s*v\s*:\s*(\w+)\s*,?\s*\}", s.code)
    if len(cell) != 1 or cell[0] not in ("u8", "u16", "u32", "u64"):
        fail("%s: `pub struct TracebackCell { v: <unsigned> }` not found (restructured)" % rel)
    cell_bits = int(cell[0][1:])
    body, line = s.fn_body(r"\bfn\s+set_bits\s*\(\s*&\s*mut\s+self\s*,\s*pos\s*:\s*u8\s*,\s*value\s*:\s*u16\s*\)\s*\{", "TracebackCell::set_bits")
    m1 = s.unique_in(body, line, r"\blet\s+bits\s*:\s*u16\s*=\s*\(?\s*([0-9a-fA-Fxob_]+)\s*\)?\s*<<\s*pos\s*;", "set_bits mask", "`let bits: u16 = (<mask>) << pos;`")
    s.unique_in(body, line, r"assert!\s*\(\s*value\s*<=\s*TB_MAX\s*,", "set_bits guard", "`assert!(value <= TB_MAX, …)`")
    s.unique_in(body, line, r"self\s*\.\s*v\s*=\s*\(\s*self\s*\.\s*v\s*&\s*!\s*bits\s*\)\s*\|\s*\(\s*value\s*<<\s*pos\s*\)", "set_bits update",
                "`self.v = (self.v & !bits) | (value << pos)`")
    gbody, gline = s.fn_body(r"\bfn\s+get_bits\s*\(\s*self\s*,\s*pos\s*:\s*u8\s*\)\s*->\s*u16\s*\{", "TracebackCell::get_bits")
    m2 = s.unique_in(gbody, gline, r"\(\s*self\s*\.\s*v\s*>>\s*pos\s*\)\s*&\s*\(?\s*([0-9a-fA-Fxob_]+)\s*\)?", "get_bits", "`(self.v >> pos) & (<mask>)`")
    mask1, mask2 = parse_int(m1.group(1)), parse_int(m2.group(1))
    if mask1 is None or mask2 is None:
        fail("%s: the field mask of set_bits/get_bits is no longer an integer literal" % rel)
    if mask1 != mask2:
        fail("%s: set_bits clears mask %d but get_bits reads mask %d" % (rel, mask1, mask2), hard=True)
    # which position each accessor pair uses
    for fld, p in (("i", "I_POS"), ("d", "D_POS"), ("s", "S_POS")):
        for acc, rx in (("set_%s_bits" % fld, r"\bfn\s+set_%s_bits\s*\([^)]*\)\s*\{[^}]*self\s*\.\s*set_bits\s*\(\s*%s\s*,\s*value\s*\)" % (fld, p)),
                        ("get_%s_bits" % fld, r"\bfn\s+get_%s_bits\s*\([^)]*\)\s*->\s*u16\s*\{[^}]*self\s*\.\s*get_bits\s*\(\s*%s\s*\)" % (fld, p))):
            if len(re.findall(rx, s.code)) != 1:
                fail("%s: `%s` no longer is the accessor of the field at %s" % (rel, acc, p))
    for i, (a, va) in enumerate(codes):
        if va > tb_max:
            note("%s = %d > TB_MAX = %d: tb_codes_le_max will fail (the assert! in set_bits would fire)" % (a, va, tb_max))
        for b, vb in codes[i + 1:]:
            if va == vb:
                note("%s = %s = %d: tb_codes_distinct will fail" % (a, b, va))
    for i, (a, pa) in enumerate(pos):
        if pa + 4 > cell_bits:
            note("%s = %d: the field leaves the %d-bit cell: tb_fields_disjoint will fail" % (a, pa, cell_bits))
        for b, pb in pos[i + 1:]:
            if abs(pa - pb) < 4:
                note("fields at %s = %d and %s = %d overlap: tb_fields_disjoint will fail" % (a, pa, b, pb))
    out = ["/-! GENERATED by tools/gen_tables.py (properties C01, C02) — do not edit.",
           "Extracted from the source text of `" + rel + "` on every `./check C01|C02`: the traceback-cell",
           "constants (`I_POS`, `D_POS`, `S_POS`, `TB_*`), the 4-bit field mask used by `set_bits`/`get_bits` and the width of",
           "`TracebackCell::v`.  Theorems over these constants: `RbV/Thm/GenTbCodes.lean`. -/",
           "namespace RbV.Gen.TbCodes", ""]
    for n, v in pos:
        out.append("/-- `const %s: u8` -/" % n)
        out.append("def %s : Nat := %d" % (lean_ident(n), v))
    out.append("")
    for n, v in codes:
        out.append("/-- `const %s: u16` -/" % n)
        out.append("def %s : Nat := %d" % (lean_ident(n), v))
    out.append("")
    out.append("/-- `const TB_MAX: u16` (bound asserted by `set_bits`) -/")
    out.append("def tbMax : Nat := %d" % tb_max)
    out.append("")
    out.append("/-- the mask literal of `set_bits` (`(0b1111) << pos`) and `get_bits` (`& (0b1111)`) -/")
    out.append("def fieldMask : Nat := %d" % mask1)
    out.append("")
    out.append("/-- width of `TracebackCell::v` (`%s`) -/" % cell[0])
    out.append("def cellBits : Nat := %d" % cell_bits)
    out.append("")
    out.append("/-- the field positions in the order I, D, S -/")
    out.append("def positions : List Nat := [%s]" % ", ".join(lean_ident(n) for n, _ in pos))
    out.append("")
    out.append("/-- all move codes, in source order -/")
    out.append("def codes : List Nat := [%s]" % ", ".join(lean_ident(n) for n, _ in codes))
    out.append("")
    out.append("/-- names of `codes`, same order (for messages) -/")
    out.append("def codeNames : List String := [%s]" % ", ".join('"%s"' % n for n, _ in codes))
    out.append("")
    out.append("end RbV.Gen.TbCodes")
    emit("TbCodes", "C01,C02", "\n".join(out) + "\n", [(rel, s.raw)], s.snippets)


# ------------------------------------------------------------------------------------------ C03/C04: Occ::get

def gen_occ(repo):
    rel = "src/data_structures/bwt.rs"
    s = Src(repo, rel)
    body, line = s.fn_body(r"pub\s+fn\s+get\s*\(\s*&\s*self\s*,\s*bwt\s*:\s*&\s*BWTSlice\s*,\s*r\s*:\s*usize\s*,\s*a\s*:\s*u8\s*\)\s*->\s*usize\s*\{",
                           "Occ::get")
    # `occ_get_exact` holds for every threshold and the oracle is the specification (`occRef`): the literal only selects the
    # branch the mirror model takes and the driver's coverage tags.  A rewritten statement is therefore a shape note, and
    # the model keeps the threshold it was written with.
    PINNED = 64
    thr = None
    m = s.unique_in(body, line, r"\bif\s+self\s*\.\s*k\s*(>=|>|<=|<|==|!=)\s*([^{]+?)\s*\{", "k threshold", "`if self.k > <literal> {`", soft=True)
    if m is not None:
        if m.group(1) != ">":
            shape_note("%s: Occ::get: the sampling-rate test is now `self.k %s …` (the mirror model `occGet` has `k > threshold`)"
                       % (rel, m.group(1)))
        else:
            thr = parse_int(m.group(2))
            if thr is None or thr < 0:
                shape_note("%s: Occ::get: the threshold `%s` is no longer an integer literal" % (rel, m.group(2)))
                thr = None
    if thr is None:
        thr = PINNED
    # the backward branch condition the model transcribes
    s.unique_in(body, line, r"\(\s*hi_idx\s*-\s*r\s*\)\s*<\s*\(\s*self\s*\.\s*k\s+as\s+usize\s*/\s*2\s*\)", "backward test",
                "`(hi_idx - r) < (self.k as usize / 2)`", soft=True)
    text = (
        "/-! GENERATED by tools/gen_tables.py (properties C03, C04) — do not edit.\n"
        "Extracted from the source text of `" + rel + "` on every `./check C03|C04`: the literal of\n"
        "`if self.k > <literal> {` in `Occ::get` (above it the closer of the two neighbouring checkpoints is used).\n"
        "`RbV.OccM.occGet` / `occBranch` (`RbV/Model/Occ.lean`) use it; `occ_get_eq` holds for every threshold. -/\n"
        "namespace RbV.Gen.Occ\n\n"
        "def hiCheckpointThreshold : Nat := %d\n\n" % thr +
        "end RbV.Gen.Occ\n")
    emit("Occ", "C03,C04", text, [(rel, s.raw)], s.snippets)


# ------------------------------------------------------------------------------------------ C03: SA-IS integer widths

def _width_threshold(s, what, op, expr, line):
    """largest count for which `count <op> <expr>` holds (`<=` or `<`; `<expr>` = `[std::]uN::MAX as usize` or a literal)"""
    e = " ".join(expr.split())
    m = re.fullmatch(r"(?:std\s*::\s*)?u(8|16|32|64)\s*::\s*MAX\s+as\s+usize", e)
    if m:
        v = 2 ** int(m.group(1)) - 1
    else:
        v = parse_int(e)
        if v is None or v < 0:
            fail("%s:%d: %s: the bound `%s` is neither `uN::MAX as usize` nor an integer literal" % (s.rel, line, what, e[:60]))
    if op == "<":
        if v == 0:
            fail("%s:%d: %s: `< 0` selects nothing" % (s.rel, line, what))
        v -= 1
    return v


def gen_saiswidth(repo):
    """the two width dispatches of SA-IS: `suffix_array` chooses the integer type of the transformed text from
    `alphabet.len() + sentinel_count`, `calc_lms_pos` the type of the reduced text from `lms_substring_count`; every value
    stored is `cast(v).unwrap()`.  Extracted: per arm (largest count selecting it, bits of the type), and the type of the
    final `else`/`_` arm.  Theorems: `RbV/Lemmas/SaisWidth.lean`, restated in `RbV/Thm/C03.lean`."""
    rel = "src/data_structures/suffix_array.rs"
    s = Src(repo, rel)
    body, line = s.fn_body(r"pub\s+fn\s+suffix_array\s*\(\s*text\s*:\s*&\s*\[\s*u8\s*\]\s*\)\s*->\s*RawSuffixArray\s*\{", "suffix_array")
    m = s.unique_in(body, line, r"\bmatch\s+alphabet\s*\.\s*len\s*\(\s*\)\s*\+\s*sentinel_count\s*\{", "transform dispatch",
                    "`match alphabet.len() + sentinel_count {`")
    arms_t = []
    for a in re.finditer(r"\b(\w+)\s+if\s+(\w+)\s*(<=|<)\s*([^=>]+?)\s*=>\s*\{?\s*sais\s*\.\s*construct\s*\(\s*&\s*transform_text\s*::\s*<\s*u(8|16|32|64)\s*>",
                         body[m.end():]):
        if a.group(1) != a.group(2):
            fail("%s: suffix_array: guard `%s if %s …` does not test the matched value" % (rel, a.group(1), a.group(2)))
        arms_t.append((_width_threshold(s, "suffix_array", a.group(3), a.group(4), line), int(a.group(5))))
    e = re.findall(r"\b_\s*=>\s*\{?\s*sais\s*\.\s*construct\s*\(\s*&\s*transform_text\s*::\s*<\s*u(8|16|32|64)\s*>", body[m.end():])
    if len(e) != 1 or not arms_t:
        fail("%s: suffix_array: the width dispatch (guarded arms + one `_` arm calling `sais.construct(&transform_text::<uN>(…))`) "
             "was restructured" % rel)
    if body[m.end():].count("transform_text") != len(arms_t) + 1:
        fail("%s: suffix_array: %d calls of transform_text, %d recognised arms" % (rel, body[m.end():].count("transform_text"), len(arms_t) + 1))
    else_t = int(e[0])
    body2, line2 = s.fn_body(r"fn\s+calc_lms_pos\s*<[^{]*?>\s*\([^{]*?\)\s*\{", "calc_lms_pos")
    arms_r = []
    for a in re.finditer(r"\bif\s+lms_substring_count\s*(<=|<)\s*([^{]+?)\s*\{\s*self\s*\.\s*sort_lms_suffixes\s*::\s*<\s*T\s*,\s*u(8|16|32|64)\s*>",
                         body2):
        arms_r.append((_width_threshold(s, "calc_lms_pos", a.group(1), a.group(2), line2), int(a.group(3))))
    e2 = re.findall(r"\belse\s*\{\s*self\s*\.\s*sort_lms_suffixes\s*::\s*<\s*T\s*,\s*u(8|16|32|64)\s*>", body2)
    if len(e2) != 1 or not arms_r or body2.count("sort_lms_suffixes") != len(arms_r) + 1:
        fail("%s: calc_lms_pos: the width dispatch (`if lms_substring_count <= … { self.sort_lms_suffixes::<T, uN>(…) } … else { … }`) "
             "was restructured" % rel)
    else_r = int(e2[0])
    s.snippets["transform dispatch arms"] = repr(arms_t) + " else u%d" % else_t
    s.snippets["reduced dispatch arms"] = repr(arms_r) + " else u%d" % else_r
    for what, arms in (("suffix_array", arms_t), ("calc_lms_pos", arms_r)):
        for thr, bits in arms:
            if thr >= 2 ** bits:
                note("%s: %s: counts up to %d select u%d, whose maximum is %d: `width_arms_fit` will fail"
                     % (rel, what, thr, bits, 2 ** bits - 1))
    fmt = lambda arms: "[" + ", ".join("(%d, %d)" % a for a in arms) + "]"
    text = (
        "/-! GENERATED by tools/gen_tables.py (property C03) — do not edit.\n"
        "Extracted from the source text of `" + rel + "` on every `./check C03`: the width dispatches of SA-IS.\n"
        "Per guarded arm, in source order: (largest count that satisfies the guard, bits of the unsigned type the arm\n"
        "instantiates); and the bits of the final arm.  Theorems: `RbV/Lemmas/SaisWidth.lean`, `RbV/Thm/C03.lean`\n"
        "(`sais_width_arms_fit`, `sais_reduced_width_fits`, `sais_transform_width_fits`). -/\n"
        "namespace RbV.Gen.SaisWidth\n\n"
        "/-- `suffix_array`: `match alphabet.len() + sentinel_count { a if a <= … => …transform_text::<uN>… }` -/\n"
        "def transformArms : List (Nat × Nat) := %s\n\n" % fmt(arms_t) +
        "def transformElse : Nat := %d\n\n" % else_t +
        "/-- `calc_lms_pos`: `if lms_substring_count <= … { self.sort_lms_suffixes::<T, uN>(…) } else if …` -/\n"
        "def reducedArms : List (Nat × Nat) := %s\n\n" % fmt(arms_r) +
        "def reducedElse : Nat := %d\n\n" % else_r +
        "end RbV.Gen.SaisWidth\n")
    emit("SaisWidth", "C03", text, [(rel, s.raw)], s.snippets)


# ------------------------------------------------------------------------------------------ translated function bodies

def gen_src(unit_name):
    """Gen/Src<Name>.lean: the text of whole functions translated to Lean by tools/rs2lean.py (the translation spec —
    file, pinned header, types of locals, loop fuel — is `UNITS[unit_name]` there).  The equality theorems with the
    hand-written mirror models live in Thm/GenSrc<Name>.lean and are restated in the property's Thm/Cxx.lean."""
    def run_src(repo):
        sys.path.insert(0, os.path.dirname(os.path.abspath(__file__)))
        # The translator exists in several *dialect modules* (one per builder who extended it in parallel: the base +
        # bit-container constructs in rs2lean.py, the search-loop constructs in rs2lean_pm.py, …).  A unit is translated by
        # the first module whose UNITS defines it; every module is a complete translator over the same semantics
        # (lean/RbV/Basic/RsSem*.lean) and has its own --selftest.
        import importlib
        rs2lean = None
        for modname in TRANSLATOR_MODULES:
            mod = importlib.import_module(modname)
            if unit_name in mod.UNITS:
                rs2lean = mod
                break
        if rs2lean is None:
            fail("translation unit %s is not defined by any of %s" % (unit_name, ", ".join(TRANSLATOR_MODULES)))
        u = rs2lean.UNITS[unit_name]
        s = Src(repo, u["file"])
        text, snippets = rs2lean.translate_unit(s, u, fail)
        THEOREMS.setdefault(unit_name, [f["theorem"] for f in u["functions"] if f.get("theorem")])
        emit(unit_name, u["props"].replace("property ", "").replace("properties ", ""), text, [(u["file"], s.raw)], snippets)
    run_src.__name__ = "gen_src_" + unit_name
    return run_src


# dialect modules of the Rust→Lean translator, in lookup order (tools/<name>.py)
TRANSLATOR_MODULES = ["rs2lean", "rs2lean_pm", "rs2lean_fm", "rs2lean_cfbase"]
GEN_SRC = {n: gen_src(n) for n in ("SrcKmpLps", "SrcShiftAndMasks", "SrcHorspoolNew", "SrcFenwick", "SrcBitEnc", "SrcBwt", "SrcPrescan")}
# (genbits) bit-packed containers: SmallInts (C18, C03), RankSelect and WaveletMatrix (C17)
GEN_SRC.update({n: gen_src(n) for n in ("SrcSmallInts", "SrcRankSelect", "SrcWavelet")})

# genpm: search loops of the exact matchers (C08) and distance functions (C09)
GEN_SRC.update({n: gen_src(n) for n in ("SrcShiftAndNext", "SrcKmpNext", "SrcHorspoolNext", "SrcBndmNext", "SrcBomNext")})
GEN_SRC.update({n: gen_src(n) for n in ("SrcHamming",)})
# genukk: the approximate matchers (C09/C10): Ukkonen, single-word Myers, block-based Myers (tools/rs2lean_pm.py)
GEN_SRC.update({n: gen_src(n) for n in ("SrcUkkonen", "SrcMyersState", "SrcMyersSimple", "SrcMyersMatches")})
GEN_SRC.update({n: gen_src(n) for n in ("SrcMyersLong",)})

# genfm: the FM-index chain (C04/C05) — added separately so that concurrent edits of the line above merge trivially
GEN_SRC.update({n: gen_src(n) for n in ("SrcOcc", "SrcLess", "SrcBackwardSearch", "SrcSampledGet")})
GEN_SRC.update({n: gen_src(n) for n in ("SrcOrf", "SrcGc", "SrcAlphabet", "SrcQGrams", "SrcQGramIndex", "SrcIit")})       # dialect "cf" (tools/rs2lean_cf.py)


# genio: sub-dialect "io" of dialect cf (rs2lean_cf.IoFn): the indexed FASTA reader (C12)
GEN_SRC.update({n: gen_src(n) for n in ("SrcIdxFa",)})


# ------------------------------------------------------------------------------------------ theorem modules built here

def enclosing_decl(rel, line):
    """name of the theorem/example/def around line `line` of lean/<rel> (for messages)"""
    try:
        lines = open(os.path.join(LEAN, rel), encoding="utf8").read().splitlines()
    except OSError:
        return "?"
    for k in range(min(line, len(lines)) - 1, -1, -1):
        m = re.match(r"\s*(?:private\s+|noncomputable\s+)*(theorem|lemma|def|example)\b\s*([\w.']*)", lines[k])
        if m:
            return (m.group(1) + " " + m.group(2)).strip()
    return "?"


def verify_modules(mods):
    """`lake build` of theorem modules that no property's Thm file imports yet (runs under the caller's lake lock)"""
    def run(repo):
        p = subprocess.run(["lake", "build"] + mods, cwd=LEAN, stdout=subprocess.PIPE, stderr=subprocess.STDOUT,
                           text=True, timeout=3600)
        if p.returncode != 0:
            names = []
            for mm in re.finditer(r"error: (RbV/[\w/]+\.lean):(\d+):\d+:\s*(.*)", p.stdout):
                d = "%s (%s:%s: %s)" % (enclosing_decl(mm.group(1), int(mm.group(2))), mm.group(1), mm.group(2),
                                        mm.group(3)[:60])
                if d not in names:
                    names.append(d)
            if not names:
                names = [l for l in p.stdout.splitlines() if "error" in l][:6]
            fail("theorems over the generated constants no longer check: " + " | ".join(names[:6]), hard=True)
        print("gen_tables: %s checked" % " ".join(mods))
    return run


EXTRACTORS = {
    "C20": [gen_complement, GEN_SRC["SrcOrf"], GEN_SRC["SrcGc"], GEN_SRC["SrcAlphabet"]],
    "C17": [gen_dna2int],
    "C15": [gen_scales],
    # C01/C02: Thm/C01.lean and Thm/C02.lean import RbV.Thm.GenLimits / GenTbCodes and restate their theorems, and
    # Spec/Align.lean / Ref/Banded.lean are defined by the generated constants, so the orchestrator's `lake build`
    # re-checks everything (no separate build here)
    "C01": [gen_limits, gen_tbcodes],
    "C02": [gen_limits, gen_tbcodes],
    # C16: Thm/C16.lean imports RbV.Thm.GenLimits and restates; Model/PoaBanded.lean, Drv/C16.lean use Gen.Limits.minScorePoa
    "C16": [gen_limits],
    "C03": [gen_occ],
    "C04": [gen_occ, GEN_SRC["SrcBwt"], GEN_SRC["SrcPrescan"]],
    # translated function bodies (tools/rs2lean.py); Thm/C08.lean imports RbV.Thm.GenSrc* and restates the theorems
    "C08": [GEN_SRC["SrcKmpLps"], GEN_SRC["SrcShiftAndMasks"], GEN_SRC["SrcHorspoolNew"]],
    "C18": [GEN_SRC["SrcFenwick"], GEN_SRC["SrcBitEnc"]],
    # SrcAlphabet: Thm/C19.lean composes the q-gram iterator with the translated RankTransform::{new, get}
    "C19": [GEN_SRC["SrcQGrams"], GEN_SRC["SrcQGramIndex"], GEN_SRC["SrcAlphabet"]],
    "C07": [GEN_SRC["SrcIit"]],
}
# (genbits) additional units, appended so that concurrent edits of the table above merge trivially
EXTRACTORS["C18"] = EXTRACTORS["C18"] + [GEN_SRC["SrcSmallInts"]]
EXTRACTORS["C03"] = EXTRACTORS["C03"] + [GEN_SRC["SrcSmallInts"]]
EXTRACTORS["C17"] = EXTRACTORS["C17"] + [GEN_SRC["SrcRankSelect"], GEN_SRC["SrcWavelet"]]

# genpm: `Matches::next` of the exact matchers; Thm/C08.lean imports RbV.Thm.GenSrc*Next and restates the theorems
EXTRACTORS["C08"] = EXTRACTORS["C08"] + [GEN_SRC[n] for n in ("SrcShiftAndNext", "SrcKmpNext", "SrcHorspoolNext", "SrcBndmNext", "SrcBomNext")]
# genpm: C09 — Thm/C09.lean imports RbV.Thm.GenSrcHamming (…) and restates the theorems
EXTRACTORS["C09"] = EXTRACTORS.get("C09", []) + [GEN_SRC[n] for n in ("SrcHamming",)]
# genukk: C09 — Thm/C09.lean imports RbV.Thm.GenSrcUkkonen (…) and restates the theorems
EXTRACTORS["C09"] = EXTRACTORS["C09"] + [GEN_SRC[n] for n in ("SrcUkkonen", "SrcMyersState", "SrcMyersSimple", "SrcMyersMatches")]
# genukk: C10 — the columns the traceback reads are produced by the same `_step`; Thm/C10.lean restates the step theorem
EXTRACTORS["C09"] = EXTRACTORS["C09"] + [GEN_SRC[n] for n in ("SrcMyersLong",)]
EXTRACTORS["C10"] = EXTRACTORS.get("C10", []) + [GEN_SRC[n] for n in ("SrcMyersState", "SrcMyersSimple", "SrcMyersMatches")]

def soft_modules(mods, what):
    """genfm: `lake build` of shape-dependent equality theorems "translated body = mirror model" that a property-preserving
    rewrite may falsify (the property-level theorems over the same generated definition are hard obligations of
    Thm/Cxx.lean).  A failure is a note decided by the behavioural tie (`drift` tags), never a broken obligation."""
    def run_soft(repo):
        p = subprocess.run(["lake", "build"] + mods, cwd=LEAN, stdout=subprocess.PIPE, stderr=subprocess.STDOUT,
                           text=True, timeout=3600)
        if p.returncode != 0:
            names = []
            for mm in re.finditer(r"error: (RbV/[\w/]+\.lean):(\d+):\d+:\s*(.*)", p.stdout):
                d = "%s (%s:%s)" % (enclosing_decl(mm.group(1), int(mm.group(2))), mm.group(1), mm.group(2))
                if d not in names:
                    names.append(d)
            shape_note("%s: %s" % (what, " | ".join(names[:4]) or "lake build failed"))
        else:
            print("gen_tables: %s checked (soft)" % " ".join(mods))
    run_soft.__name__ = "run_soft_" + "_".join(m.split(".")[-1] for m in mods)
    return run_soft


# genfm: translated bodies of the FM-index chain; Thm/C04.lean and Thm/C05.lean import RbV.Thm.GenSrc* and restate
SOFT_OCC = soft_modules(["RbV.Thm.GenSrcOccModel"], "the mirror model `occGet` no longer mirrors the text of `Occ::get` "
                        "branch by branch (the property-level theorem `occ_get_source_exact` is checked separately)")
EXTRACTORS["C04"] = EXTRACTORS["C04"] + [GEN_SRC["SrcOcc"], SOFT_OCC, GEN_SRC["SrcLess"]]
EXTRACTORS["C05"] = EXTRACTORS.get("C05", []) + [gen_occ, GEN_SRC["SrcOcc"], GEN_SRC["SrcBackwardSearch"]]
EXTRACTORS["C03"] = EXTRACTORS["C03"] + [GEN_SRC["SrcSampledGet"], GEN_SRC["SrcOcc"]]


# genfmd: the FMD index (C06: bi-interval extensions, `smems`, `all_smems`) — dialect "fmd" of tools/rs2lean_fm.py;
# Thm/C06.lean imports RbV.Thm.GenSrcFmd* and restates the theorems
GEN_SRC.update({n: gen_src(n) for n in ("SrcFmdExt", "SrcFmdSmems", "SrcFmdAllSmems")})
EXTRACTORS["C06"] = EXTRACTORS.get("C06", []) + [GEN_SRC[n] for n in ("SrcFmdExt", "SrcFmdSmems", "SrcFmdAllSmems")]
# soft: the unconditional step-by-step equality of `smems` with `SmemModel.smems` (every `l`, dead start included); the hard
# obligations are `fmd_smems_source_eq_model` (under "nothing is reported when pattern[i] does not occur") and
# `fmd_smems_source_correct` in Thm/C06.lean
SOFT_FMD_SMEMS = soft_modules(["RbV.Thm.GenSrcFmdSmemsModel"], "the text of `FMDIndex::smems` no longer follows `SmemModel.smems` step "
                              "by step on every input (the property-level theorem `fmd_smems_source_correct` is checked separately)")
EXTRACTORS["C06"] = EXTRACTORS["C06"] + [SOFT_FMD_SMEMS]

# genfmd: `shortest_unique_substrings` (C03) — Thm/C03.lean imports RbV.Thm.GenSrcSus and restates
GEN_SRC.update({n: gen_src(n) for n in ("SrcSus",)})
EXTRACTORS["C03"] = EXTRACTORS["C03"] + [GEN_SRC["SrcSus"]]

# genio: C12 — Thm/C12.lean imports RbV.Thm.GenSrcIdxFa and restates the theorems
EXTRACTORS["C12"] = EXTRACTORS.get("C12", []) + [GEN_SRC["SrcIdxFa"]]

# gensparse: sparse alignment (C19) — dialect "sp" of tools/rs2lean_gensparse.py; Thm/C19.lean imports RbV.Thm.GenSrcLcskpp (…)
# and restates.  SrcFenwick (C18's unit) is regenerated for C19 too: the translated lcskpp calls its `get` / `set`.
TRANSLATOR_MODULES.append("rs2lean_gensparse")
GEN_SRC.update({n: gen_src(n) for n in ("SrcFenwickNew", "SrcLcskpp")})
EXTRACTORS["C19"] = EXTRACTORS["C19"] + [GEN_SRC["SrcFenwick"], GEN_SRC["SrcFenwickNew"], GEN_SRC["SrcLcskpp"]]

GEN_SRC.update({n: gen_src(n) for n in ("SrcSdpkpp",)})
EXTRACTORS["C19"] = EXTRACTORS["C19"] + [GEN_SRC["SrcSdpkpp"]]

GEN_SRC.update({n: gen_src(n) for n in ("SrcKmerMatches",)})
EXTRACTORS["C19"] = EXTRACTORS["C19"] + [GEN_SRC["SrcKmerMatches"]]

GEN_SRC.update({n: gen_src(n) for n in ("SrcQGramExact",)})
EXTRACTORS["C19"] = EXTRACTORS["C19"] + [GEN_SRC["SrcQGramExact"]]

# additive registrations (kept outside the dict literal so that concurrent edits merge)
EXTRACTORS["C03"] = EXTRACTORS["C03"] + [gen_saiswidth]
THEOREMS["SaisWidth"] = ["RbV.Thm.C03.sais_width_arms_fit", "RbV.Thm.C03.sais_reduced_width_fits",
                         "RbV.Thm.C03.sais_transform_width_fits"]

# genfx: dialect "fx" (tools/rs2lean_genfx.py): the FASTA / FASTQ readers and writers (C11)
TRANSLATOR_MODULES.append("rs2lean_genfx")
GEN_SRC.update({n: gen_src(n) for n in ("SrcFasta", "SrcFastq")})
EXTRACTORS["C11"] = EXTRACTORS.get("C11", []) + [GEN_SRC[n] for n in ("SrcFasta", "SrcFastq")]
GEN_SRC.update({n: gen_src(n) for n in ("SrcFastx",)})
EXTRACTORS["C11"] = EXTRACTORS["C11"] + [GEN_SRC["SrcFastx"]]


# genhmm: the generic HMM algorithms (C14) — dialect "hmm" of tools/rs2lean_genhmm.py; Thm/C14.lean imports
# RbV.Thm.GenSrcHmm* and restates the theorems
TRANSLATOR_MODULES.append("rs2lean_genhmm")
GEN_SRC.update({n: gen_src(n) for n in ("SrcHmmViterbi", "SrcHmmForward", "SrcHmmBackward")})
EXTRACTORS["C14"] = EXTRACTORS.get("C14", []) + [GEN_SRC[n] for n in ("SrcHmmViterbi", "SrcHmmForward", "SrcHmmBackward")]
# genavl: the AVL interval tree (C07) — dialect "avl" of tools/rs2lean_genavl.py (recursive structure `Node`); Thm/C07.lean
# imports RbV.Thm.GenSrcAvl* and restates the theorems
TRANSLATOR_MODULES.append("rs2lean_genavl")
GEN_SRC.update({n: gen_src(n) for n in ("SrcAvl",)})
EXTRACTORS["C07"] = EXTRACTORS["C07"] + [GEN_SRC["SrcAvl"]]
# genpoa: partial-order alignment (C16) — dialect "poa" of tools/rs2lean_genpoa.py; Thm/C16.lean imports RbV.Thm.GenSrcPoa*
TRANSLATOR_MODULES.append("rs2lean_genpoa")
GEN_SRC.update({n: gen_src(n) for n in ("SrcPoaAlign", "SrcPoaAdd", "SrcPoaConsensus")})
EXTRACTORS["C16"] = EXTRACTORS.get("C16", []) + [GEN_SRC[n] for n in ("SrcPoaAlign", "SrcPoaAdd", "SrcPoaConsensus")]
SOFT_POA_CUSTOM = soft_modules(["RbV.Thm.GenSrcPoaCustom"], "the DP phase of the translated `Poa::custom` is no longer equal to the "
                               "checked-i32 mirror `cStepC` cell by cell, tie-breaks included (exact equality: soft; decided by the "
                               "behavioural tie)")
EXTRACTORS["C16"] = EXTRACTORS["C16"] + [SOFT_POA_CUSTOM]

# genlong: the rest of the Myers matchers (C09/C10) — tools/rs2lean_genlong.py (on top of rs2lean_pm.py): `States::new`, `known_dist`,
# the glue of long.rs, `Matches::new/next` + `distance` at the long.rs instance of `impl_myers!`; Thm/C09.lean restates the theorems
TRANSLATOR_MODULES.append("rs2lean_genlong")
GEN_SRC.update({n: gen_src(n) for n in ("SrcMyersHelpers", "SrcMyersLongNew", "SrcMyersLongMatches")})
EXTRACTORS["C09"] = EXTRACTORS["C09"] + [GEN_SRC[n] for n in ("SrcMyersHelpers", "SrcMyersLongNew", "SrcMyersLongMatches")]
GEN_SRC.update({n: gen_src(n) for n in ("SrcMyersSimpleBest",)})
EXTRACTORS["C09"] = EXTRACTORS["C09"] + [GEN_SRC[n] for n in ("SrcMyersSimpleBest",)]
# genlong: the constructors (`new` / `new_ambig` of simple.rs and long.rs, `MyersBuilder`)
GEN_SRC.update({n: gen_src(n) for n in ("SrcMyersSimpleNew", "SrcMyersLongCtor", "SrcMyersBuilder")})
SOFT_MYERS_NEW = soft_modules(["RbV.Thm.GenSrcMyersNewSoft"], "the constructor theorems (`myers_new_source_eq_model`, word-level "
                              "masks of `new_ambig`) no longer follow the text (property-level tie: correspondence run)")
EXTRACTORS["C09"] = EXTRACTORS["C09"] + [GEN_SRC[n] for n in ("SrcMyersSimpleNew", "SrcMyersLongCtor", "SrcMyersBuilder")] + [SOFT_MYERS_NEW]
# genlong: C10 — the cursor moves of the single-word traceback handler; Thm/C10.lean imports RbV.Thm.GenSrcMyersTb and restates
GEN_SRC.update({n: gen_src(n) for n in ("SrcMyersTbState", "SrcMyersTbShort")})
EXTRACTORS["C10"] = EXTRACTORS["C10"] + [GEN_SRC[n] for n in ("SrcMyersTbState", "SrcMyersTbShort")]
GEN_SRC.update({n: gen_src(n) for n in ("SrcMyersTbMask", "SrcMyersTbShort2")})
EXTRACTORS["C10"] = EXTRACTORS["C10"] + [GEN_SRC[n] for n in ("SrcMyersTbMask", "SrcMyersTbShort2")]
GEN_SRC.update({n: gen_src(n) for n in ("SrcMyersTbLoop",)})
SOFT_TB_LOOP = soft_modules(["RbV.Thm.GenSrcMyersTbLoop", "RbV.Thm.GenSrcMyersTbSound"], "the translated `_traceback_at` no longer equals the model's loop `Handler.loop` "
                            "pass by pass (the order of the Subst / Ins / Del tests is not determined by C10: which of several optimal "
                            "paths is reported is decided by the behavioural tie, tags `tb-state-drift`)")
EXTRACTORS["C10"] = EXTRACTORS["C10"] + [GEN_SRC[n] for n in ("SrcMyersTbLoop",)] + [SOFT_TB_LOOP]


# genprob: log-space probability arithmetic (C15) — dialect "prob" of tools/rs2lean_genprob.py (`f64` abstract);
# Thm/C15.lean imports RbV.Thm.GenSrcProbs / GenSrcFastExp and restates the theorems; the shape-dependent equalities with
# the hand-written real-number model are soft (RbV.Thm.GenSrcProbsModel)
TRANSLATOR_MODULES.append("rs2lean_genprob")
GEN_SRC.update({n: gen_src(n) for n in ("SrcProbs", "SrcFastExp")})
SOFT_PROBS = soft_modules(["RbV.Thm.GenSrcProbsModel"], "the real-number model of `ln_add_exp` / `ln_1m_exp` / `ln_sub_exp` / "
                          "`ln_cumsum_exp` (Lemmas/C15*.lean) no longer mirrors the text branch by branch (the property-level "
                          "error bounds over the translated text are checked separately)")
EXTRACTORS["C15"] = EXTRACTORS["C15"] + [GEN_SRC["SrcProbs"], GEN_SRC["SrcFastExp"], SOFT_PROBS]
GEN_SRC.update({n: gen_src(n) for n in ("SrcProbsQuad",)})
EXTRACTORS["C15"] = EXTRACTORS["C15"] + [GEN_SRC["SrcProbsQuad"]]


# generated module written by each constant/table extractor (for the theorems not counted when it is unavailable)
EXTRACTOR_MODULE = {"gen_complement": "Gen.Complement", "gen_dna2int": "Gen.Dna2Int", "gen_scales": "Gen.Scales",
                    "gen_limits": "Gen.Limits", "gen_tbcodes": "Gen.TbCodes", "gen_occ": "Gen.Occ", "gen_saiswidth": "Gen.SaisWidth"}
# gensa: the suffix-array construction (C03) — dialect module tools/rs2lean_gensa.py; Thm/C03.lean imports RbV.Thm.GenSrcLcp (…)
TRANSLATOR_MODULES.append("rs2lean_gensa")
GEN_SRC.update({n: gen_src(n) for n in ("SrcLcp", "SrcTransform", "SrcPosTypes", "SrcSaisBuckets", "SrcSaisCalcPos", "SrcSaisLms")})
EXTRACTORS["C03"] = EXTRACTORS["C03"] + [GEN_SRC["SrcAlphabet"]] + [GEN_SRC[n] for n in ("SrcLcp", "SrcTransform", "SrcPosTypes", "SrcSaisBuckets", "SrcSaisCalcPos", "SrcSaisLms")]
SOFT_TRANSFORM = soft_modules(["RbV.Thm.GenSrcTransformModel"], "the mirror model `Sais.transformText` no longer gives the numbers of "
                                "`transform_text` (the property-level theorem `transform_text_source_eq_model`, `Transform.Ok`, is "
                                "checked separately)")
EXTRACTORS["C03"] = EXTRACTORS["C03"] + [SOFT_TRANSFORM]
SOFT_LCP = soft_modules(["RbV.Thm.GenSrcLcpModel"], "the mirror model `Kasai.kasaiGo` no longer follows `lcp` step by step (the "
                        "property-level theorem `lcp_source_exact` is model-free and checked separately)")
EXTRACTORS["C03"] = EXTRACTORS["C03"] + [SOFT_LCP]

# genalign: the pairwise aligner (C01; the traceback cell / matrix part also C02) — dialect "align" of tools/rs2lean_genalign.py;
# Thm/C01.lean imports RbV.Thm.GenSrcPw* and restates the theorems
TRANSLATOR_MODULES.append("rs2lean_genalign")
GEN_SRC.update({n: gen_src(n) for n in ("SrcPwTypes", "SrcPwModes", "SrcPwCustom")})
EXTRACTORS["C01"] = EXTRACTORS["C01"] + [GEN_SRC[n] for n in ("SrcPwTypes", "SrcPwModes", "SrcPwCustom")]
# genalign: the exact code equality of the main-loop cell with the mirror the driver runs (pinned order of the S candidates) is
# soft: a property-preserving change of that order (seeded C01-H4) is a note; the hard obligation is cell_update_any_order
SOFT_PWCELL = soft_modules(["RbV.Thm.GenSrcPwCustomExact"], "the main-loop cell of Aligner::custom no longer compares the candidates of "
                           "S(i,j) in the order of the mirror stepJC (values and admissible codes are checked separately: "
                           "cell_update_source_values_and_admissible_codes)")
EXTRACTORS["C01"] = EXTRACTORS["C01"] + [SOFT_PWCELL]
# genband: the band construction and the entry-point glue of the banded aligner (C02) — dialect "band" of
# tools/rs2lean_genband.py; Thm/C02.lean imports RbV.Thm.GenSrcBand* and restates the theorems.  The wrapper hands the tree
# under test to the module (struct declarations pinned in pairwise/mod.rs and sparse.rs).
TRANSLATOR_MODULES.append("rs2lean_genband")
GEN_SRC.update({n: gen_src(n) for n in ("SrcBand",)})


def _genband_unit(unit_name):
    inner = GEN_SRC[unit_name]

    def run(repo):
        import rs2lean_genband
        rs2lean_genband.REPO = repo
        return inner(repo)
    run.__name__ = "gen_src_" + unit_name
    return run


EXTRACTORS["C02"] = EXTRACTORS["C02"] + [_genband_unit("SrcBand")]
# genband, step 3: the per-column loop of compute_alignment as a unit of its own (Thm/GenSrcBandedFill.lean)
GEN_SRC.update({n: gen_src(n) for n in ("SrcBandedFill",)})
EXTRACTORS["C02"] = EXTRACTORS["C02"] + [_genband_unit("SrcBandedFill")]
# genleft: leftovers of the earlier translation builders — tools/rs2lean_genleft.py (dialect "px": expression-bodied
# functions; units of genio's sub-dialect "io"); docs/notes/GEN.md, section "genleft"
TRANSLATOR_MODULES.append("rs2lean_genleft")
GEN_SRC.update({n: gen_src(n) for n in ("SrcSbRankOrd",)})
EXTRACTORS["C17"] = EXTRACTORS["C17"] + [GEN_SRC["SrcSbRankOrd"]]
GEN_SRC.update({n: gen_src(n) for n in ("SrcOrfNew",)})
EXTRACTORS["C20"] = EXTRACTORS["C20"] + [GEN_SRC["SrcOrfNew"]]
GEN_SRC.update({n: gen_src(n) for n in ("SrcIdxFaIter",)})
EXTRACTORS["C12"] = EXTRACTORS["C12"] + [GEN_SRC["SrcIdxFaIter"]]
GEN_SRC.update({n: gen_src(n) for n in ("SrcFmAccess",)})
EXTRACTORS["C06"] = EXTRACTORS["C06"] + [GEN_SRC["SrcOcc"], GEN_SRC["SrcPrescan"], GEN_SRC["SrcLess"], GEN_SRC["SrcFmAccess"]]
EXTRACTORS["C05"] = EXTRACTORS["C05"] + [GEN_SRC["SrcFmAccess"]]
# gengff: the BED and GFF/GTF writers and the BED record accessors (C13) — dialect "gff" of tools/rs2lean_gengff.py (on dialect px
# of rs2lean_genleft.py); Thm/C13.lean imports RbV.Thm.GenSrcBed / GenSrcGff and restates the theorems
TRANSLATOR_MODULES.append("rs2lean_gengff")
GEN_SRC.update({n: gen_src(n) for n in ("SrcBed", "SrcGff")})
EXTRACTORS["C13"] = EXTRACTORS.get("C13", []) + [GEN_SRC[n] for n in ("SrcBed", "SrcGff")]
GEN_SRC.update({n: gen_src(n) for n in ("SrcGffRead",)})
EXTRACTORS["C13"] = EXTRACTORS["C13"] + [GEN_SRC[n] for n in ("SrcGffRead",)]
# gengff: the exact byte equality of gff::Writer::write including the order of the key groups is soft (a writer that sorts the keys,
# seeded C13-H1, satisfies the hard ∃-permutation theorem gff_write_source_eq_model only)
SOFT_GFF_EXACT = soft_modules(["RbV.Thm.GenSrcGffExact"], "gff::Writer::write no longer emits the attribute key groups in the iteration order "
                              "of the MultiMap (the bytes up to a permutation of the groups are checked separately: gff_write_source_eq_model)")
EXTRACTORS["C13"] = EXTRACTORS["C13"] + [SOFT_GFF_EXACT]


def main():
    ap = argparse.ArgumentParser()
    ap.add_argument("--repo", default=os.environ.get("VERIF_REPO", "/repo"))
    ap.add_argument("--prop", required=True, help="property id, or ALL")
    ap.add_argument("--json", action="store_true", help="print provenance of the generated files as one JSON line")
    a = ap.parse_args()
    repo = a.repo  # kept verbatim: ./check compares the bio-src link target with the same string
    if not os.path.isdir(os.path.join(repo, "src")):
        fail("repo %s has no src/ directory" % repo)
    if a.prop.upper() == "ALL":
        fns = []
        for k in sorted(EXTRACTORS):
            for fn in EXTRACTORS[k]:
                if fn not in fns and fn.__name__ != "run":
                    fns.append(fn)
    else:
        fns = EXTRACTORS.get(a.prop.upper(), [])
    # One extractor failing must not keep the others from regenerating their files.  Two kinds of failure:
    #  * a *translation unit* (gen_src_<Unit>: a function body translated by tools/rs2lean*.py) whose text can no longer be
    #    translated (construct outside the subset, pinned header gone): the translator has nothing to say about the new
    #    text.  Reported as `gen_tables-unavailable:` (exit status unaffected): for these functions the tie falls back to
    #    the hand-written mirror model + correspondence run (./check escalates the budget and does not count the theorems
    #    about the stale generated copy).  This is not a broken proof obligation: no statement about the current text failed.
    #  * everything else (constants, tables, use-site statements of constants; theorem modules built here): a broken
    #    source-extracted obligation, exit 1.
    hard, unavailable = [], []
    for fn in fns:
        try:
            fn(repo)
        except SystemExit as e:
            if e.code in (0, None):
                continue
            if e.code == 2:
                hard.append(fn.__name__)
            elif fn.__name__.startswith("gen_src_"):
                unavailable.append(fn.__name__[len("gen_src_"):])
            else:
                # constants / tables / use-site statements that can no longer be read from the text: same rule
                unavailable.append(EXTRACTOR_MODULE.get(fn.__name__, fn.__name__))
    if a.json:
        print("gen_tables-json: " + json.dumps(REPORT, sort_keys=True))
    if unavailable:
        print("gen_tables-unavailable: " + json.dumps(sorted(set(unavailable))))
    sys.exit(1 if hard else 0)


if __name__ == "__main__":
    main()
