#!/usr/bin/env python3
"""Print the prompt given to an independent seeding sub-agent (round 3): tools/seedprompt.py C07 [first-index]

The prompt contains ONLY the property record (from properties.jsonl) and generic instructions — nothing about the
verification machinery in /verif — so that what the agent writes is independent of what the checks can detect.
"""
import sys, json, os
ROOT = os.path.dirname(os.path.dirname(os.path.abspath(__file__)))
pid = sys.argv[1]
HARMLESS = "--harmless" in sys.argv
args = [a for a in sys.argv[2:] if not a.startswith("--")]
first = int(args[0]) if args else 6
rec = [json.loads(l) for l in open(os.path.join(ROOT, "properties.jsonl")) if json.loads(l)["id"] == pid][0]
a, b = "%s-%d" % (pid, first), "%s-%d" % (pid, first + 1)
if HARMLESS:
    a, b = "%s-H%d" % (pid, first), "%s-H%d" % (pid, first + 1)
    print(f"""You are testing whether a verification setup for a semantic property of the Rust library rust-bio (a bioinformatics library: alignment, FM/suffix indexes, interval trees, pattern matching, HMMs, FASTA/FASTQ/BED/GFF parsers) raises FALSE alarms on code changes that keep the property intact. The repository is a git repository at /repo. You must NOT modify /repo itself and you must NOT read anything under /verif (it is off limits for this task). Work only in your own scratch worktree.

## The property (this is all you are given)

```json
{json.dumps(rec, indent=1)}
```

## Your job

Produce TWO independent changes to rust-bio's source (`src/…`), named `{a}` and `{b}`, each of which **really changes the code of a mechanism named in the property's anchors** — its structure, its internal state, its tie-breaks, the order of elements the property treats as a set, its behaviour on inputs OUTSIDE the property's quantifier, an algebraically equivalent rewrite of its arithmetic, a different but equally valid algorithm for the same step, a wider/narrower private type, a re-ordered or fused loop, an extracted helper function, renamed locals, a changed function signature of a private helper — while the **property still holds for every input, configuration and history it quantifies over**. The crate must compile and the repository's existing test suite must still pass (`cargo test --offline --no-fail-fast`). The two changes must sit in different functions/mechanisms and be of different kinds (e.g. one pure refactoring with no observable difference at all, one that changes observable behaviour the property does not constrain). Make them realistic (what a maintainer would do in a clean-up or optimisation), and substantial enough that a checker which pins the exact text, the exact internal state or the exact choice among equally valid results would notice.

For each change write a demonstration: one Rust integration-test file using only the public API of `bio` (it will be copied to `tests/demo_seeded.rs`) that contains (1) *property sweeps*: deterministic tests (fixed seeds) that check the property's statement itself against an independent brute-force oracle on a few thousand generated inputs/histories — these must pass both on the unmodified tree and with your change; (2) if your change alters any observable behaviour, tests whose names start with `behaviour_differs_` that pin the OLD behaviour (they pass on the unmodified tree and FAIL with your change) — these document what changed; for a pure refactoring there are none. Argue in meta.json, clause by clause, why the property still holds.

## Procedure

```
mkdir -p /var/tmp/seed3h/{pid} && cd /var/tmp/seed3h/{pid}
git -C /repo worktree add --detach /var/tmp/seed3h/{pid}/wt HEAD
cd wt; export CARGO_NET_OFFLINE=true CARGO_TARGET_DIR=/var/tmp/seed3h/{pid}/target
cargo test --offline --no-fail-fast </dev/null        # baseline (no network: always --offline; one doc test of src/io/fastx.rs reads stdin — ignore it if it fails)
```
For each change: edit `src/…`; `cargo build --offline`; copy the demo to `tests/demo_seeded.rs`; `cargo test --offline --test demo_seeded` — the sweeps PASS, only `behaviour_differs_*` tests may fail; remove the demo and run the whole suite — must PASS; `git diff -- src > ../out/<name>/patch.diff`; `git checkout -- .`; copy the demo back and confirm EVERYTHING in it passes on the clean tree; `git apply --check` the patch on the clean tree. Second change from the clean tree again.

Deliverables in `/var/tmp/seed3h/{pid}/out/{a}/` and `/var/tmp/seed3h/{pid}/out/{b}/`: `patch.diff` (src only), `demo.rs`, `meta.json` = `{{"property": "{pid}", "kind": "harmless", "summary": "<file/function, what was changed>", "why_property_still_holds": "<argument>", "observable_difference": "<what differs, or 'none (pure refactor)'>", "ran": ["<commands and outcomes>"]}}`.

Clean up at the end: `git -C /repo worktree remove --force /var/tmp/seed3h/{pid}/wt; rm -rf /var/tmp/seed3h/{pid}/target` (keep `out/`). Final message: two or three sentences per change and the confirmation results. Budget: about 60–90 minutes.""")
    sys.exit(0)
print(f"""You are testing how well a semantic property of the Rust library rust-bio (a bioinformatics library: alignment, FM/suffix indexes, interval trees, pattern matching, HMMs, FASTA/FASTQ/BED/GFF parsers) is protected against realistic regressions. The repository is a git repository at /repo. You must NOT modify /repo itself and you must NOT read anything under /verif (it is off limits for this task). Work only in your own scratch worktree.

## The property (this is all you are given)

```json
{json.dumps(rec, indent=1)}
```

## Your job

Produce TWO independent changes to rust-bio's source (`src/…`), named `{a}` and `{b}`, each of which **breaks this property** while the crate **still compiles** and the repository's **existing test suite still passes** (lib tests, tests/, doc tests: `cargo test --offline --no-fail-fast`). The two changes must sit in different mechanisms / functions named in the property's anchors (or in code they depend on), not be variations of one idea.

Each change must look like something a well-meaning contributor could plausibly submit (an optimisation, a refactoring, a "simplification", a clean-up of an edge case, a tidied bound, a reuse of a buffer, a changed default), with plausible comments — not sabotage that ordinary use would expose at once. It must need **something specific to manifest**: a particular multi-step sequence of operations on one object, an unusual but in-domain input (boundary length, particular value, a size crossing an internal block/threshold), a specific configuration, a fault/cut at a particular point, or **two cooperating sites that each look fine alone**. Prefer these harder kinds. The broken behaviour must be *inside the property's quantifier* (inputs/configurations/histories the property covers), and must contradict a specific clause of the statement — quote that clause.

For each change also write a demonstration: one Rust integration-test file that uses only the public API of the crate `bio` (it will be copied to `tests/demo_seeded.rs`), which **passes on the unmodified tree** and **fails with your change applied**. Make the failing test(s) minimal and deterministic (no randomness without a fixed seed, no timing). If useful add an `#[ignore]`d sweep that measures how rare the manifestation is.

## Procedure

```
mkdir -p /var/tmp/seed3/{pid} && cd /var/tmp/seed3/{pid}
git -C /repo worktree add --detach /var/tmp/seed3/{pid}/wt HEAD
cd wt; export CARGO_NET_OFFLINE=true CARGO_TARGET_DIR=/var/tmp/seed3/{pid}/target
cargo test --offline --no-fail-fast          # baseline: everything passes (no network: always --offline)
```
For each change: edit `src/…` in the worktree; `cargo build --offline` (no new warnings if you can); copy your demo to `tests/demo_seeded.rs`; `cargo test --offline --test demo_seeded` must FAIL; remove the demo file and run the whole suite `cargo test --offline --no-fail-fast` — must PASS; `git diff -- src > ../out/<name>/patch.diff`; `git checkout -- .`; copy the demo back and confirm it PASSES on the clean tree; `git apply --check` the patch on the clean tree. Do the second change from the clean tree again (the two patches are independent, each against the unmodified tree).

Deliverables, in `/var/tmp/seed3/{pid}/out/{a}/` and `/var/tmp/seed3/{pid}/out/{b}/`:
* `patch.diff` — `git diff -- src` against the unmodified tree (src only, applies with `git apply`);
* `demo.rs` — the demonstration test file;
* `meta.json` — `{{"property": "{pid}", "summary": "<file/function and what was changed, how it is disguised>", "clause_broken": "<quoted clause and how it is contradicted>", "failing_example": "<concrete input/history and old vs new observable result>", "needs": "<what exactly is required to manifest, and an estimate of how rare that is under random use>", "ran": ["<each command you ran and its outcome>"]}}`.

When both are done (or if you can only find one, deliver one and say so), clean up: `git -C /repo worktree remove --force /var/tmp/seed3/{pid}/wt; rm -rf /var/tmp/seed3/{pid}/target` (keep `out/`). Your final message: for each change two or three sentences (what, where, what it needs) and the confirmation results. Budget: about 60–90 minutes.""")
