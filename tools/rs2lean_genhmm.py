#!/usr/bin/env python3
"""Dialect "hmm" of the Rust→Lean translator (builder genhmm): the generic HMM algorithms of `src/stats/hmm/mod.rs`
(`viterbi_matrices`, `viterbi_traceback`, `viterbi`, `forward`, `backward`) — docs/notes/GEN.md, "HMM algorithms (genhmm)".

Built on tools/rs2lean_cfbase.py (tokenizer, `Parser` base class: token access, types, `Unsupported`, header pinning);
the statement / expression grammar and the translation are new, because this code is written in another style than the
integer code the other dialects cover: iterator chains with closures over an abstract number type.

  * `LogProb` is an **abstract type `P`** with the operations of `Rs.LogOps P` (RbV/Basic/RsSemGenhmm.lean):
    `LogProb::ln_zero()` ↦ `L.zero`, `ln_one()` ↦ `L.one`, `a + b` ↦ `L.mul a b`, `a.ln_add_exp(b)` ↦ `L.add a b`,
    `LogProb::ln_sum_exp(&xs)` ↦ `L.sum xs`, `a.is_zero()` ↦ `L.isZero a`, `a.partial_cmp(&b).unwrap()` ↦ `L.cmp a b`,
    `OrderedFloat(*a)` ↦ `a` (ordered by `L.cmp`), comparisons `a > b` … ↦ tests on `L.cmp a b`.
  * the model accessors `hmm.…` are the fields of `Rs.HmmOps P O`; `State` = its index (`*s`, `State(a)` are the identity),
    `hmm.states()` = `List.range H.numStates`.
  * `ndarray::Array2<T>` = list of rows; `a[[i, j]]`, `a[[i, j]] = v`, `index_axis(Axis(0), i)`, `axis_iter(Axis(0))`,
    `len_of(Axis(0))`, `Array2::<T>::zeros((n, s))`.
  * iterator chains are lists: `.iter()`, `.into_iter()`, `.collect::<…>()`, `.copied()`, `.cloned()` = identity,
    `.enumerate()`, `.rev()`, `.map(closure)` (pure closure: `List.map`, closure that can panic: `List.mapM`),
    `.max_by(closure)`, `.max_by_key(closure)` (pure closures only), `Option::map`, `.unwrap()` (`Rs.expect`).
  * every closure and every loop body is a **named helper** `<fn>_map<k>`, `_cmp<k>`, `_key<k>`, `_for<k>` that takes
    `L`, `H` and the captured variables (in the order of their declaration) as parameters; loops are
    `List.foldlM helper state items`, the state being the outer variables the body assigns (declaration order).
  * statements: `let [mut] pat [: T] = e;`, assignments to variables / `v[[i, j]]` / `v[i]` (compound assignments are
    normalised), `if` / `else if` / `else`, `if let Some(x) = e { … }`, `for pat in e { … }`, `v.push(e)`, `v.reverse()`,
    `v.clear()`, `v.extend(e)`, calls of the other translated functions of the unit.
  * `usize` arithmetic is checked (`Rs.add 64`, `Rs.sub`), indexing panics out of bounds, `.unwrap()` panics on `None`.
Everything else (`break`, `continue`, `while`, `match`, `?`, `return`, other methods / paths) raises `Unsupported`: the unit
is `translation_unavailable` and the tie falls back to mirror model + correspondence run.

  python3 tools/rs2lean_genhmm.py --selftest [--lean]
"""
import sys, os, re, argparse

sys.path.insert(0, os.path.dirname(os.path.abspath(__file__)))
import rs2lean_cfbase as rs

N, Unsupported, tokenize, header_regex, dedent = rs.N, rs.Unsupported, rs.tokenize, rs.header_regex, rs.dedent
LEAN_KEYWORDS = rs.LEAN_KEYWORDS

# ================================================================================================== types
NAT, BOOL, PT, OT, ORD, UNIT = ("nat",), ("bool",), ("P",), ("O",), ("ord",), ("unit",)


def tlist(t):
    return ("list", t)


def ttup(ts):
    return ("tup", tuple(ts))


def topt(t):
    return ("opt", t)


def lean_ty(t):
    k = t[0]
    if k == "nat":
        return "Nat"
    if k == "bool":
        return "Bool"
    if k == "P":
        return "P"
    if k == "O":
        return "O"
    if k == "ord":
        return "Ordering"
    if k == "unit":
        return "Unit"
    if k == "list":
        return "List " + paren(lean_ty(t[1]))
    if k == "opt":
        return "Option " + paren(lean_ty(t[1]))
    if k == "tup":
        return " × ".join(paren(lean_ty(x)) if x[0] == "tup" and i + 1 < len(t[1]) else lean_ty_prod(x)
                          for i, x in enumerate(t[1]))
    raise Unsupported("type %r" % (t,))


def lean_ty_prod(t):
    s = lean_ty(t)
    return paren(s) if t[0] in ("tup",) else s


def paren(s):
    return "(%s)" % s if (" " in s and not (s.startswith("(") and rs.matching_close(s) == len(s) - 1)) else s


def atom(s):
    return rs.atom(s)


def lname(n):
    return n + "_" if n in LEAN_KEYWORDS else n


# ================================================================================================== parser

BINPREC = [("||",), ("&&",), ("==", "!=", "<", ">", "<=", ">="), ("+", "-"), ("*", "/", "%")]
ASSIGN_OPS = {"=": None, "+=": "+", "-=": "-", "*=": "*"}


class ParserH(rs.Parser):
    """statements and expressions of the HMM dialect (token access, `type_` are inherited)"""

    def pattern(self):
        x = self.peek()
        if self.at("&"):
            self.next()
            return self.pattern()
        if self.at("("):
            self.next()
            items = []
            while not self.at(")"):
                items.append(self.pattern())
                if self.at(","):
                    self.next()
                elif not self.at(")"):
                    raise Unsupported("pattern", self.peek().pos)
            self.expect(")")
            return N("ptuple", x.pos, items=items)
        if self.at("mut"):
            self.next()
            return N("pid", x.pos, name=self.ident().text)
        if x.kind == "id":
            self.next()
            if x.text in ("ref", "box") or self.at("::") or self.at("(") or self.at("{") or self.at("@"):
                raise Unsupported("pattern `%s …` (only names, `&name`, `_` and tuples are translated)" % x.text, x.pos)
            return N("pid", x.pos, name=x.text)
        raise Unsupported("pattern starting with `%s`" % x.text, x.pos)

    def block(self):
        b = self.expect("{")
        stmts, tail = [], None
        while not self.at("}"):
            if self.peek().kind == "eof":
                raise Unsupported("unbalanced block", b.pos)
            s = self.stmt()
            if s.kind == "tail":
                if not self.at("}"):
                    raise Unsupported("expected `;` or `}` after the expression", self.peek().pos)
                tail = s.e
            else:
                stmts.append(s)
        self.expect("}")
        return N("block", b.pos, stmts=stmts, tail=tail)

    def body(self):
        stmts, tail = [], None
        p0 = self.peek().pos
        while self.peek().kind != "eof":
            s = self.stmt()
            if s.kind == "tail":
                if self.peek().kind != "eof":
                    raise Unsupported("expected `;` after the expression", self.peek().pos)
                tail = s.e
            else:
                stmts.append(s)
        return N("block", p0, stmts=stmts, tail=tail)

    def stmt(self):
        x = self.peek()
        if x.kind == "id" and x.text == "let":
            self.next()
            pat = self.pattern()
            ty = None
            if self.at(":"):
                self.next()
                ty = self.type_()
            self.expect("=")
            e = self.expr()
            self.expect(";")
            return N("let", x.pos, pat=pat, ty=ty, e=e)
        if x.kind == "id" and x.text == "for":
            self.next()
            pat = self.pattern()
            self.expect("in")
            it = self.expr(nostruct=True)
            body = self.block()
            return N("for", x.pos, pat=pat, it=it, body=body)
        if x.kind == "id" and x.text in ("while", "loop", "match", "return", "break", "continue"):
            raise Unsupported("`%s` is outside the translated subset" % x.text, x.pos)
        if x.kind == "id" and x.text == "if":
            e = self.if_()
            if self.at(";"):
                self.next()
            return N("ifs", x.pos, e=e) if (e.els is None or not self.at("}") or True) and not self._if_is_tail(e) else N("tail", x.pos, e=e)
        e = self.expr()
        if self.peek().kind == "op" and self.peek().text in ASSIGN_OPS:
            op = self.next().text
            r = self.expr()
            self.expect(";")
            return N("assign", x.pos, lhs=e, op=ASSIGN_OPS[op], e=r)
        if self.at(";"):
            self.next()
            return N("exprs", x.pos, e=e)
        return N("tail", x.pos, e=e)

    def _if_is_tail(self, e):
        """an `if` directly before `}` / end whose branches have tail expressions is a value"""
        return (self.at("}") or self.peek().kind == "eof") and e.els is not None and e.then.tail is not None

    def if_(self):
        x = self.expect("if")
        if self.at("let"):
            self.next()
            nm = self.ident()
            if nm.text != "Some":
                raise Unsupported("`if let` on a pattern other than `Some(x)`", nm.pos)
            self.expect("(")
            pat = self.pattern()
            self.expect(")")
            self.expect("=")
            e = self.expr(nostruct=True)
            then = self.block()
            els = None
            if self.at("else"):
                self.next()
                els = self.block()
            return N("iflet", x.pos, pat=pat, e=e, then=then, els=els)
        c = self.expr(nostruct=True)
        then = self.block()
        els = None
        if self.at("else"):
            self.next()
            if self.at("if"):
                p = self.peek().pos
                els = N("block", p, stmts=[], tail=None)
                inner = self.if_()
                els.ifchain = inner
            else:
                els = self.block()
        return N("if", x.pos, c=c, then=then, els=els)

    def expr(self, nostruct=False, lvl=0):
        if lvl == len(BINPREC):
            return self.unary()
        l = self.expr(nostruct, lvl + 1)
        while self.peek().kind == "op" and self.peek().text in BINPREC[lvl]:
            # `a |x| …` cannot occur here: closures only start an expression
            op = self.next()
            r = self.expr(nostruct, lvl + 1)
            l = N("bin", op.pos, op=op.text, l=l, r=r)
        return l

    def unary(self):
        x = self.peek()
        if self.at("*") or self.at("&"):
            self.next()
            if self.at("mut"):
                self.next()
            return N("deref", x.pos, e=self.unary())
        if self.at("&&"):
            self.next()
            return N("deref", x.pos, e=self.unary())
        if self.at("!"):
            self.next()
            return N("not", x.pos, e=self.unary())
        if self.at("-"):
            raise Unsupported("unary minus", x.pos)
        return self.postfix(self.primary())

    def args(self):
        self.expect("(")
        a = []
        while not self.at(")"):
            a.append(self.expr())
            if self.at(","):
                self.next()
            elif not self.at(")"):
                raise Unsupported("argument list", self.peek().pos)
        self.expect(")")
        return a

    def turbofish(self):
        """`::<…>` is skipped (the types are re-derived)"""
        if self.at("::") and self.at("<", 1):
            self.next()
            self.next()
            depth = 1
            texts = []
            while depth:
                t = self.next()
                if t.kind == "eof":
                    raise Unsupported("unbalanced `::<`", t.pos)
                if t.text == "<":
                    depth += 1
                elif t.text == ">":
                    depth -= 1
                elif t.text == ">>":
                    depth -= 2
                    if depth >= 0:
                        texts.append(">" if depth == 0 else ">>")
                    continue
                if depth > 0:
                    texts.append(t.text)
            self.last_targs = " ".join(texts)
            return True
        return False

    def postfix(self, e):
        while True:
            x = self.peek()
            if self.at("."):
                self.next()
                f = self.next()
                if f.kind == "num":
                    e = N("field", x.pos, e=e, i=int(f.text))
                    continue
                if f.kind != "id":
                    raise Unsupported("`.%s`" % f.text, f.pos)
                self.turbofish()
                if self.at("("):
                    e = N("mcall", x.pos, recv=e, name=f.text, args=self.args())
                else:
                    raise Unsupported("field access `.%s`" % f.text, f.pos)
                continue
            if self.at("["):
                self.next()
                if self.at("["):
                    self.next()
                    a = self.expr()
                    self.expect(",")
                    b = self.expr()
                    self.expect("]")
                    self.expect("]")
                    e = N("index2", x.pos, e=e, i=a, j=b)
                else:
                    a = self.expr()
                    self.expect("]")
                    e = N("index", x.pos, e=e, i=a)
                continue
            if self.at("?"):
                raise Unsupported("`?`", x.pos)
            if self.at("as"):
                raise Unsupported("`as` cast", x.pos)
            return e

    def primary(self):
        x = self.peek()
        if x.kind == "num":
            self.next()
            return N("num", x.pos, v=int(re.sub(r"(usize|u64|u32|u8|_)", "", x.text), 0))
        if self.at("|") or self.at("||"):
            return self.closure()
        if self.at("("):
            self.next()
            items = []
            trailing = False
            while not self.at(")"):
                items.append(self.expr())
                trailing = False
                if self.at(","):
                    self.next()
                    trailing = True
            self.expect(")")
            if len(items) == 1 and not trailing:
                return items[0]
            return N("tuple", x.pos, items=items)
        if self.at("{"):
            return self.block()
        if x.kind == "id" and x.text == "if":
            return self.if_()
        if x.kind == "id" and x.text == "move":
            self.next()
            return self.closure()
        if x.kind == "id":
            self.next()
            path = [x.text]
            targs = None
            while True:
                if self.turbofish():
                    targs = self.last_targs
                    continue
                if self.at("::"):
                    self.next()
                    path.append(self.ident().text)
                    continue
                break
            if self.at("!"):
                if path != ["vec"]:
                    raise Unsupported("macro `%s!`" % "::".join(path), x.pos)
                self.next()
                self.expect("[")
                if self.at("]"):
                    self.next()
                    return N("vecnew", x.pos)
                a = self.expr()
                if self.at(";"):
                    self.next()
                    n = self.expr()
                    self.expect("]")
                    return N("vecrep", x.pos, e=a, n=n)
                raise Unsupported("`vec![a, b, …]`", x.pos)
            if self.at("("):
                return N("call", x.pos, path=path, args=self.args(), targs=targs)
            if len(path) == 1:
                return N("var", x.pos, name=x.text)
            return N("path", x.pos, path=path)
        raise Unsupported("expression starting with `%s`" % x.text, x.pos)

    def closure(self):
        x = self.peek()
        params = []
        if self.at("||"):
            self.next()
        else:
            self.expect("|")
            while not self.at("|"):
                params.append(self.pattern())
                if self.at(":"):
                    raise Unsupported("closure parameter with a type annotation", self.peek().pos)
                if self.at(","):
                    self.next()
            self.expect("|")
        body = self.expr()
        return N("closure", x.pos, params=params, body=body)


# ================================================================================================== translation

class Scope:
    """variables in declaration order with their types"""

    def __init__(self, parent=None):
        self.vars = list(parent.vars) if parent else []

    def declare(self, name, ty):
        self.vars = [(n, t) for n, t in self.vars if n != name] + [(name, ty)]

    def get(self, name):
        for n, t in self.vars:
            if n == name:
                return t
        return None

    def names(self):
        return [n for n, _ in self.vars]


def pat_names(p):
    if p.kind == "pid":
        return [] if p.name == "_" else [p.name]
    return [n for q in p.items for n in pat_names(q)]


def pat_text(p):
    if p.kind == "pid":
        return "_" if p.name == "_" else lname(p.name)
    return "(" + ", ".join(pat_text(q) for q in p.items) + ")"


def bind_pat(p, ty, scope, pos=None):
    if p.kind == "pid":
        if p.name != "_":
            scope.declare(p.name, ty)
        return
    if ty[0] != "tup" or len(ty[1]) != len(p.items):
        raise Unsupported("tuple pattern against a value of type %s" % (lean_ty(ty) if ty else "?"), p.pos)
    for q, t in zip(p.items, ty[1]):
        bind_pat(q, t, scope)


def walk(n, f):
    """pre-order walk over AST nodes"""
    if isinstance(n, N):
        f(n)
        for k, v in n.__dict__.items():
            if k in ("kind", "pos"):
                continue
            walk(v, f)
    elif isinstance(n, (list, tuple)):
        for v in n:
            walk(v, f)


def base_var(lhs):
    while lhs.kind in ("index", "index2", "deref", "field"):
        lhs = lhs.e
    return lhs.name if lhs.kind == "var" else None


MUT_METHODS = ("push", "reverse", "clear", "extend")


def assigned_in(node):
    """names assigned (or mutated through `push` …) anywhere below `node`, minus the names `let`-declared below it"""
    asg, decl = [], []

    def f(n):
        if n.kind == "assign":
            b = base_var(n.lhs)
            if b and b not in asg:
                asg.append(b)
        elif n.kind == "mcall" and n.name in MUT_METHODS and n.recv.kind == "var":
            if n.recv.name not in asg:
                asg.append(n.recv.name)
        elif n.kind == "let":
            decl.extend(pat_names(n.pat))
        elif n.kind == "closure":
            for p in n.params:
                decl.extend(pat_names(p))
        elif n.kind in ("for",):
            decl.extend(pat_names(n.pat))
        elif n.kind == "iflet":
            decl.extend(pat_names(n.pat))
    walk(node, f)
    return [a for a in asg if a not in decl]


def used_in(node):
    u = []

    def f(n):
        if n.kind == "var" and n.name not in u:
            u.append(n.name)
    walk(node, f)
    return u


class FnTr:
    """translation of one function"""

    def __init__(self, unit, spec, done):
        self.unit, self.spec, self.done = unit, spec, done
        self.fn = spec["lean"]
        self.helpers = []          # emitted helper definitions (text), in order
        self.counters = {}
        self.tmp = 0
        self.generic_o = unit.get("obs_type", "O")

    # ------------------------------------------------------------------ helpers
    def fresh(self):
        self.tmp += 1
        return "t%d" % self.tmp

    def helper_name(self, kind):
        self.counters[kind] = self.counters.get(kind, 0) + 1
        return "%s_%s%d" % (self.fn, kind, self.counters[kind])

    def rust_ty(self, t):
        if t.kind == "tref":
            return self.rust_ty(t.inner)
        if t.kind == "tslice":
            return tlist(self.rust_ty(t.elem))
        if t.kind == "ttuple":
            return ttup([self.rust_ty(x) for x in t.items])
        if t.kind == "tname":
            if t.name in ("usize", "u64", "State"):
                return NAT
            if t.name == "bool":
                return BOOL
            if t.name == "LogProb":
                return PT
            if t.name == self.generic_o:
                return OT
            if t.name == "Vec" and len(t.args) == 1:
                return tlist(self.rust_ty(t.args[0]))
            if t.name == "Array2" and len(t.args) == 1:
                return tlist(tlist(self.rust_ty(t.args[0])))
            if t.name == "Option" and len(t.args) == 1:
                return topt(self.rust_ty(t.args[0]))
        raise Unsupported("type `%s`" % getattr(t, "name", t.kind), t.pos)

    def parse_ty(self, text):
        p = ParserH(tokenize(text, 0))
        return self.rust_ty(p.type_())

    def caps_of(self, node, scope, exclude=()):
        """captured variables of `node`: the variables of `scope` it mentions, in declaration order (`hmm` is `H`)"""
        u = set(used_in(node)) | set(assigned_in(node))
        return [(n, t) for n, t in scope.vars if n in u and n not in exclude and n != self.spec.get("hmm", "hmm")]

    # ------------------------------------------------------------------ expressions: (binds, text, type)
    def ex(self, e, sc, expect=None):
        k = e.kind
        hmm = self.spec.get("hmm", "hmm")
        if k == "num":
            return [], str(e.v), NAT
        if k == "var":
            if e.name == hmm:
                raise Unsupported("`%s` used as a value" % hmm, e.pos)
            t = sc.get(e.name)
            if t is None:
                raise Unsupported("unknown variable `%s`" % e.name, e.pos)
            return [], lname(e.name), t
        if k == "deref":
            return self.ex(e.e, sc, expect)
        if k == "not":
            b, x, t = self.ex(e.e, sc)
            if t != BOOL:
                raise Unsupported("`!` on a non-boolean", e.pos)
            return b, "(!%s)" % atom(x), BOOL
        if k == "tuple":
            bs, xs, ts = [], [], []
            exps = list(expect[1]) if expect is not None and expect[0] == "tup" and len(expect[1]) == len(e.items) else [None] * len(e.items)
            for it, ex1 in zip(e.items, exps):
                b, x, t = self.ex(it, sc, ex1)
                bs += b
                xs.append(x)
                ts.append(t)
            return bs, "(" + ", ".join(xs) + ")", ttup(ts)
        if k == "field":
            b, x, t = self.ex(e.e, sc)
            if t[0] != "tup" or e.i >= len(t[1]):
                raise Unsupported("`.%d` on a non-tuple" % e.i, e.pos)
            n = len(t[1])
            s = atom(x) + ".2" * e.i + (".1" if e.i < n - 1 else "")
            return b, s, t[1][e.i]
        if k == "index2":
            b0, a, ta = self.ex(e.e, sc)
            b1, i, ti = self.ex(e.i, sc)
            b2, j, tj = self.ex(e.j, sc)
            if ta[0] != "list" or ta[1][0] != "list" or ti != NAT or tj != NAT:
                raise Unsupported("`[[i, j]]` on something that is not an Array2", e.pos)
            t = self.fresh()
            return b0 + b1 + b2 + ["let %s ← Rs.get2 %s %s %s" % (t, atom(a), atom(i), atom(j))], t, ta[1][1]
        if k == "index":
            b0, a, ta = self.ex(e.e, sc)
            b1, i, ti = self.ex(e.i, sc)
            if ta[0] != "list" or ti != NAT:
                raise Unsupported("index on something that is not a vector", e.pos)
            t = self.fresh()
            return b0 + b1 + ["let %s ← Rs.idx %s %s" % (t, atom(a), atom(i))], t, ta[1]
        if k == "bin":
            return self.binop(e, sc)
        if k == "path":
            p = "::".join(e.path)
            if e.path[0] == "Ordering" and len(e.path) == 2 and e.path[1] in ("Less", "Equal", "Greater"):
                return [], {"Less": "Ordering.lt", "Equal": "Ordering.eq", "Greater": "Ordering.gt"}[e.path[1]], ORD
            if p == "None":
                return [], "none", topt(None)
            raise Unsupported("path `%s`" % p, e.pos)
        if k == "vecnew":
            if expect is None or expect[0] != "list":
                raise Unsupported("`vec![]` without a declared type (add it to `locals` of the translation spec)", e.pos)
            return [], "([] : %s)" % lean_ty(expect), expect
        if k == "vecrep":
            b0, a, ta = self.ex(e.e, sc)
            b1, n, tn = self.ex(e.n, sc)
            if tn != NAT:
                raise Unsupported("`vec![e; n]` with a non-integer length", e.pos)
            return b0 + b1, "List.replicate %s %s" % (atom(n), atom(a)), tlist(ta)
        if k == "call":
            return self.call(e, sc, expect)
        if k == "mcall":
            return self.mcall(e, sc, expect)
        if k == "if":
            return self.if_expr(e, sc)
        if k == "block":
            lines, x, t = self.block_value(e, Scope(sc))
            if lines:
                raise Unsupported("block expression with statements outside a closure", e.pos)
            return [], x, t
        if k == "closure":
            raise Unsupported("closure outside `map` / `max_by` / `max_by_key`", e.pos)
        raise Unsupported("expression `%s`" % k, e.pos)

    def binop(self, e, sc):
        op = e.op
        bl, l, tl = self.ex(e.l, sc)
        br, r, tr_ = self.ex(e.r, sc)
        if op in ("&&", "||"):
            if tl != BOOL or tr_ != BOOL:
                raise Unsupported("`%s` on non-booleans" % op, e.pos)
            if not br:
                return bl, "(%s %s %s)" % (atom(l), op, atom(r)), BOOL
            t = self.fresh()
            short = "false" if op == "&&" else "true"
            cond = atom(l) if op == "&&" else "(!%s)" % atom(l)
            lines = ["let %s ← if %s then do" % (t, cond)] + ["    " + x for x in br] + ["    pure %s" % atom(r),
                                                                                      "  else pure %s" % short]
            return bl + lines, t, BOOL
        if tl != tr_:
            raise Unsupported("operands of `%s` have different types" % op, e.pos)
        b = bl + br
        if op == "+":
            if tl == PT:
                return b, "L.mul %s %s" % (atom(l), atom(r)), PT
            if tl == NAT:
                t = self.fresh()
                return b + ["let %s ← Rs.add 64 %s %s" % (t, atom(l), atom(r))], t, NAT
        if op == "-" and tl == NAT:
            t = self.fresh()
            return b + ["let %s ← Rs.sub %s %s" % (t, atom(l), atom(r))], t, NAT
        if op == "*" and tl == NAT:
            t = self.fresh()
            return b + ["let %s ← Rs.mul 64 %s %s" % (t, atom(l), atom(r))], t, NAT
        if op in ("==", "!=", "<", ">", "<=", ">="):
            if tl == NAT:
                if op in ("==", "!="):
                    return b, "(%s %s %s)" % (atom(l), op, atom(r)), BOOL
                return b, "decide (%s %s %s)" % (atom(l), {"<": "<", ">": ">", "<=": "≤", ">=": "≥"}[op], atom(r)), BOOL
            if tl == PT:
                c = "L.cmp %s %s" % (atom(l), atom(r))
                m = {"==": "(%s == .eq)", "!=": "(%s != .eq)", "<": "(%s == .lt)", ">": "(%s == .gt)",
                     "<=": "(%s != .gt)", ">=": "(%s != .lt)"}[op]
                return b, m % c, BOOL
            if tl == BOOL and op in ("==", "!="):
                return b, "(%s %s %s)" % (atom(l), op, atom(r)), BOOL
        raise Unsupported("operator `%s` on %s" % (op, lean_ty(tl)), e.pos)

    def call(self, e, sc, expect):
        p = "::".join(e.path)
        a = e.args
        if p == "LogProb::ln_zero" and not a:
            return [], "L.zero", PT
        if p == "LogProb::ln_one" and not a:
            return [], "L.one", PT
        if p == "LogProb::ln_sum_exp" and len(a) == 1:
            b, x, t = self.ex(a[0], sc)
            if t != tlist(PT):
                raise Unsupported("`ln_sum_exp` of something that is not a slice of LogProb", e.pos)
            return b, "L.sum %s" % atom(x), PT
        if p in ("State", "OrderedFloat") and len(a) == 1:
            return self.ex(a[0], sc)
        if p == "Some" and len(a) == 1:
            b, x, t = self.ex(a[0], sc)
            return b, "some %s" % atom(x), topt(t)
        if p == "Axis" and len(a) == 1:
            raise Unsupported("`Axis(..)` outside `index_axis` / `axis_iter` / `len_of`", e.pos)
        if p == "Array2::zeros" and len(a) == 1 and a[0].kind == "tuple" and len(a[0].items) == 2:
            if e.targs:
                expect = tlist(tlist(self.parse_ty(e.targs)))
            if expect is None or expect[0] != "list" or expect[1][0] != "list":
                raise Unsupported("`Array2::zeros` without a declared element type", e.pos)
            el = expect[1][1]
            z = {"P": "L.arrZero", "nat": "0"}.get(el[0])
            if z is None:
                raise Unsupported("`Array2::zeros` of this element type", e.pos)
            b0, n, tn = self.ex(a[0].items[0], sc)
            b1, s, ts = self.ex(a[0].items[1], sc)
            if tn != NAT or ts != NAT:
                raise Unsupported("`Array2::zeros` with a non-integer shape", e.pos)
            return b0 + b1, "Rs.zeros2 %s %s %s" % (z, atom(n), atom(s)), expect
        if p in ("Vec::new", "Vec::with_capacity"):
            bs = []
            for x in a:
                b, _, t = self.ex(x, sc)
                bs += b
            if expect is None or expect[0] != "list":
                raise Unsupported("`%s` without a declared type" % p, e.pos)
            return bs, "([] : %s)" % lean_ty(expect), expect
        if len(e.path) == 1 and e.path[0] in self.done:
            f = self.done[e.path[0]]
            hmm = self.spec.get("hmm", "hmm")
            bs, xs = [], []
            params = [q for q in f["params"]]
            if len(a) != len(params):
                raise Unsupported("call of `%s` with %d arguments" % (p, len(a)), e.pos)
            for x, (pn, pt) in zip(a, params):
                if pt == "hmm":
                    if not (x.kind == "var" and x.name == hmm) and not (x.kind == "deref" and x.e.kind == "var" and x.e.name == hmm):
                        raise Unsupported("call of `%s` with another model" % p, e.pos)
                    continue
                b, t, ty = self.ex(x, sc)
                if ty != pt:
                    raise Unsupported("argument `%s` of `%s` has another type" % (pn, p), e.pos)
                bs += b
                xs.append(atom(t))
            t = self.fresh()
            return bs + ["let %s ← %s L H %s" % (t, f["lean"], " ".join(xs))], t, f["ret"]
        raise Unsupported("call of `%s`" % p, e.pos)

    MODEL = {"num_states": ("numStates", [], NAT), "initial_prob": ("init", [NAT], PT),
             "observation_prob": ("emit", [NAT, OT], PT), "end_prob": ("fin", [NAT], PT),
             "transition_prob_idx": ("trans", [NAT, NAT, NAT], PT), "transition_prob": ("transProb", [NAT, NAT], PT),
             "has_end_state": ("hasEnd", [], BOOL)}

    def is_axis0(self, x):
        return x.kind == "call" and x.path == ["Axis"] and len(x.args) == 1 and x.args[0].kind == "num" and x.args[0].v == 0

    def mcall(self, e, sc, expect):
        hmm = self.spec.get("hmm", "hmm")
        nm, a = e.name, e.args
        if e.recv.kind == "var" and e.recv.name == hmm:
            if nm == "states" and not a:
                return [], "List.range H.numStates", tlist(NAT)
            if nm in self.MODEL:
                fld, tys, rt = self.MODEL[nm]
                if len(a) != len(tys):
                    raise Unsupported("`hmm.%s` with %d arguments" % (nm, len(a)), e.pos)
                bs, xs = [], []
                for x, ty in zip(a, tys):
                    b, t, tt = self.ex(x, sc)
                    if tt != ty:
                        raise Unsupported("argument of `hmm.%s` has type %s" % (nm, lean_ty(tt)), x.pos)
                    bs += b
                    xs.append(atom(t))
                return bs, ("H.%s %s" % (fld, " ".join(xs))).strip(), rt
            raise Unsupported("model method `hmm.%s`" % nm, e.pos)
        if nm == "partial_cmp" and len(a) == 1:
            b0, x, t0 = self.ex(e.recv, sc)
            b1, y, t1 = self.ex(a[0], sc)
            if t0 != PT or t1 != PT:
                raise Unsupported("`partial_cmp` on something that is not a LogProb", e.pos)
            return b0 + b1, "L.cmp %s %s" % (atom(x), atom(y)), ("optord",)
        b, x, t = self.ex(e.recv, sc)
        if nm == "unwrap" and not a:
            if t == ("optord",):
                return b, x, ORD
            if t[0] == "opt" and t[1] is not None:
                v = self.fresh()
                return b + ["let %s ← Rs.expect %s" % (v, atom(x))], v, t[1]
            raise Unsupported("`unwrap` on something that is not an Option", e.pos)
        if t == ("optord",):
            raise Unsupported("`partial_cmp(..)` not followed by `.unwrap()`", e.pos)
        if t == PT:
            if nm == "is_zero" and not a:
                return b, "L.isZero %s" % atom(x), BOOL
            if nm == "ln_add_exp" and len(a) == 1:
                b1, y, t1 = self.ex(a[0], sc)
                if t1 != PT:
                    raise Unsupported("`ln_add_exp` argument", e.pos)
                return b + b1, "L.add %s %s" % (atom(x), atom(y)), PT
        if t == NAT and nm == "checked_sub" and len(a) == 1:
            b1, y, t1 = self.ex(a[0], sc)
            return b + b1, "Rs.checkedSub %s %s" % (atom(x), atom(y)), topt(NAT)
        if t[0] == "list":
            if nm in ("iter", "into_iter", "collect", "copied", "cloned", "to_vec", "to_owned", "clone") and not a:
                return b, x, t
            if nm == "len" and not a:
                return b, "%s.length" % atom(x), NAT
            if nm == "is_empty" and not a:
                return b, "%s.isEmpty" % atom(x), BOOL
            if nm == "enumerate" and not a:
                return b, "Rs.enumerate %s" % atom(x), tlist(ttup([NAT, t[1]]))
            if nm == "rev" and not a:
                return b, "%s.reverse" % atom(x), t
            if nm == "len_of" and len(a) == 1 and self.is_axis0(a[0]) and t[1][0] == "list":
                return b, "%s.length" % atom(x), NAT
            if nm == "axis_iter" and len(a) == 1 and self.is_axis0(a[0]) and t[1][0] == "list":
                return b, x, t
            if nm == "index_axis" and len(a) == 2 and self.is_axis0(a[0]) and t[1][0] == "list":
                b1, i, ti = self.ex(a[1], sc)
                if ti != NAT:
                    raise Unsupported("`index_axis` index", e.pos)
                v = self.fresh()
                return b + b1 + ["let %s ← Rs.row2 %s %s" % (v, atom(x), atom(i))], v, t[1]
            if nm == "map" and len(a) == 1 and a[0].kind == "closure":
                h, pure, rt = self.closure(a[0], [t[1]], sc, "map")
                if pure:
                    return b, "List.map %s %s" % (paren(h), atom(x)), tlist(rt)
                v = self.fresh()
                return b + ["let %s ← List.mapM %s %s" % (v, paren(h), atom(x))], v, tlist(rt)
            if nm == "max_by" and len(a) == 1 and a[0].kind == "closure":
                h, pure, rt = self.closure(a[0], [t[1], t[1]], sc, "cmp")
                if not pure or rt != ORD:
                    raise Unsupported("`max_by` with a comparator that can panic or does not return an `Ordering`", e.pos)
                return b, "Rs.maxBy %s %s" % (paren(h), atom(x)), topt(t[1])
            if nm == "max_by_key" and len(a) == 1 and a[0].kind == "closure":
                h, pure, rt = self.closure(a[0], [t[1]], sc, "key")
                if not pure or rt != PT:
                    raise Unsupported("`max_by_key` with a key that can panic or is not a LogProb", e.pos)
                return b, "Rs.maxByKey L.cmp %s %s" % (paren(h), atom(x)), topt(t[1])
        if t[0] == "opt" and t[1] is not None:
            if nm == "map" and len(a) == 1 and a[0].kind == "closure":
                h, pure, rt = self.closure(a[0], [t[1]], sc, "map")
                if not pure:
                    raise Unsupported("`Option::map` with a closure that can panic", e.pos)
                return b, "Option.map %s %s" % (paren(h), atom(x)), topt(rt)
            if nm in ("copied", "cloned") and not a:
                return b, x, t
        raise Unsupported("method `.%s(…)` on a value of type %s" % (nm, lean_ty(t) if t[0] != "optord" else "Option<Ordering>"), e.pos)

    def if_expr(self, e, sc):
        """`if c { a } else { b }` in expression position"""
        if e.kind != "if" or e.els is None:
            raise Unsupported("`if` without `else` as a value", e.pos)
        bc, c, tc = self.ex(e.c, sc)
        if tc != BOOL:
            raise Unsupported("condition is not a boolean", e.c.pos)
        l1, x1, t1 = self.block_value(e.then, Scope(sc))
        els = e.els
        if getattr(els, "ifchain", None) is not None:
            b2, x2, t2 = self.if_expr(els.ifchain, sc)
            l2 = b2
        else:
            l2, x2, t2 = self.block_value(els, Scope(sc))
        if t1 != t2:
            raise Unsupported("branches of `if` have different types", e.pos)
        if not l1 and not l2:
            return bc, "if %s then %s else %s" % (c, x1, x2), t1
        v = self.fresh()
        lines = ["let %s ← if %s then do" % (v, c)] + ["    " + s for s in l1] + ["    pure %s" % atom(x1), "  else do"] \
            + ["    " + s for s in l2] + ["    pure %s" % atom(x2)]
        return bc + lines, v, t1

    def block_value(self, blk, sc):
        """a block used as a value: (lines, text of the tail, type)"""
        if blk.kind != "block":
            return self.ex(blk, sc)
        lines = []
        for s in blk.stmts:
            if s.kind != "let":
                raise Unsupported("statement other than `let` inside a value block", s.pos)
            lines += self.stmt(s, sc)
        if blk.tail is None:
            raise Unsupported("block without a value", blk.pos)
        b, x, t = self.ex(blk.tail, sc)
        return lines + b, x, t

    def closure(self, c, param_tys, sc, kind):
        """named helper for a closure: returns (application text `name L H caps…`, is_pure, return type)"""
        if len(c.params) != len(param_tys):
            raise Unsupported("closure with %d parameters where %d are expected" % (len(c.params), len(param_tys)), c.pos)
        inner = Scope(sc)
        pnames = []
        for p, t in zip(c.params, param_tys):
            bind_pat(p, t, inner)
            pnames += pat_names(p)
        if assigned_in(c.body):
            raise Unsupported("closure that assigns to a variable", c.pos)
        caps = self.caps_of(c.body, sc, exclude=pnames)
        name = self.helper_name(kind)
        save = self.tmp
        self.tmp = 0
        lines, x, rt = self.block_value(c.body, inner) if c.body.kind == "block" else self.ex(c.body, inner)
        self.tmp = save
        pure = not any("←" in l for l in lines)
        head = "def %s (L : Rs.LogOps P) (H : Rs.HmmOps P O)%s : %s → %s" % (
            name, "".join(" (%s : %s)" % (lname(n), lean_ty(t)) for n, t in caps),
            " → ".join(paren(lean_ty(t)) for t in param_tys), lean_ty(rt) if pure else "Res " + paren(lean_ty(rt)))
        pats = ", ".join(pat_text(p) for p in c.params)
        out = ["/-- closure `|%s| …` of `.%s(…)` (line %d) -/" % (
            ", ".join(self.src_text(p) for p in c.params), {"cmp": "max_by", "key": "max_by_key"}.get(kind, kind),
            self.line_of(c.pos)), head]
        if pure:
            out.append("  | %s =>" % pats)
            for l in lines:
                out.append("    " + l)
            out.append("    " + x)
        else:
            out.append("  | %s => do" % pats)
            for l in lines:
                out.append("    " + l)
            out.append("    pure %s" % atom(x))
        self.helpers.append("\n".join(out))
        app = "%s L H%s" % (name, "".join(" " + lname(n) for n, _ in caps))
        return app, pure, rt

    def src_text(self, p):
        return pat_text(p)

    def line_of(self, pos):
        return self.src.line_of(pos)

    # ------------------------------------------------------------------ statements: list of lines
    def tuple_of(self, names):
        if not names:
            return "()"
        return lname(names[0]) if len(names) == 1 else "(" + ", ".join(lname(n) for n in names) + ")"

    def tuple_ty(self, vs):
        if not vs:
            return UNIT
        return vs[0][1] if len(vs) == 1 else ttup([t for _, t in vs])

    def stmts(self, blk, sc):
        lines = []
        for s in blk.stmts:
            lines += self.stmt(s, sc)
        return lines

    def stmt(self, s, sc):
        k = s.kind
        if k == "let":
            declared = None
            names = pat_names(s.pat)
            if s.ty is not None:
                declared = self.rust_ty(s.ty)
            elif s.pat.kind == "pid" and s.pat.name in self.spec.get("locals", {}):
                declared = self.parse_ty(self.spec["locals"][s.pat.name])
            b, x, t = self.ex(s.e, sc, expect=declared)
            if t == ("optord",):
                raise Unsupported("`partial_cmp(..)` not followed by `.unwrap()`", s.pos)
            if declared is not None and t != declared and not (t[0] == "opt" and t[1] is None):
                raise Unsupported("`let %s` declared with another type than its initialiser" % pat_text(s.pat), s.pos)
            if t[0] == "opt" and t[1] is None:
                if declared is None:
                    raise Unsupported("`None` without a declared type", s.pos)
                t = declared
            bind_pat(s.pat, t, sc)
            return b + ["let %s := %s" % (pat_text(s.pat), x)]
        if k == "assign":
            return self.assign(s, sc)
        if k == "exprs":
            e = s.e
            if e.kind == "mcall" and e.name in MUT_METHODS and e.recv.kind == "var":
                v = e.recv.name
                t = sc.get(v)
                if t is None or t[0] != "list":
                    raise Unsupported("`.%s` on something that is not a vector" % e.name, e.pos)
                if e.name == "push" and len(e.args) == 1:
                    b, x, tx = self.ex(e.args[0], sc)
                    if tx != t[1]:
                        raise Unsupported("`push` of a value of another type", e.pos)
                    return b + ["let %s := %s ++ [%s]" % (lname(v), lname(v), x)]
                if e.name == "reverse" and not e.args:
                    return ["let %s := %s.reverse" % (lname(v), lname(v))]
                if e.name == "clear" and not e.args:
                    return ["let %s := ([] : %s)" % (lname(v), lean_ty(t))]
                if e.name == "extend" and len(e.args) == 1:
                    b, x, tx = self.ex(e.args[0], sc)
                    if tx != t:
                        raise Unsupported("`extend` with items of another type", e.pos)
                    return b + ["let %s := %s ++ %s" % (lname(v), lname(v), atom(x))]
            raise Unsupported("expression statement", s.pos)
        if k == "ifs":
            return self.if_stmt(s.e, sc)
        if k == "for":
            return self.for_(s, sc)
        raise Unsupported("statement `%s`" % k, s.pos)

    def assign(self, s, sc):
        lhs = s.lhs
        while lhs.kind == "deref":
            lhs = lhs.e
        rhs = s.e if s.op is None else N("bin", s.pos, op=s.op, l=s.lhs, r=s.e)
        if lhs.kind == "var":
            t = sc.get(lhs.name)
            if t is None:
                raise Unsupported("assignment to unknown variable `%s`" % lhs.name, s.pos)
            b, x, tx = self.ex(rhs, sc, expect=t)
            if tx != t:
                raise Unsupported("assignment of a value of another type to `%s`" % lhs.name, s.pos)
            return b + ["let %s := %s" % (lname(lhs.name), x)]
        if lhs.kind == "index2" and lhs.e.kind == "var":
            v = lhs.e.name
            t = sc.get(v)
            if t is None or t[0] != "list" or t[1][0] != "list":
                raise Unsupported("`[[i, j]] =` on something that is not an Array2", s.pos)
            b, x, tx = self.ex(rhs, sc)
            if tx != t[1][1]:
                raise Unsupported("element assignment of a value of another type", s.pos)
            b1, i, ti = self.ex(lhs.i, sc)
            b2, j, tj = self.ex(lhs.j, sc)
            if ti != NAT or tj != NAT:
                raise Unsupported("non-integer index", s.pos)
            return b + b1 + b2 + ["let %s ← Rs.set2 %s %s %s %s" % (lname(v), lname(v), atom(i), atom(j), atom(x))]
        if lhs.kind == "index" and lhs.e.kind == "var":
            v = lhs.e.name
            t = sc.get(v)
            if t is None or t[0] != "list":
                raise Unsupported("`[i] =` on something that is not a vector", s.pos)
            b, x, tx = self.ex(rhs, sc)
            if tx != t[1]:
                raise Unsupported("element assignment of a value of another type", s.pos)
            b1, i, ti = self.ex(lhs.i, sc)
            if ti != NAT:
                raise Unsupported("non-integer index", s.pos)
            return b + b1 + ["let %s ← Rs.setIdx %s %s %s" % (lname(v), lname(v), atom(i), atom(x))]
        raise Unsupported("assignment target", s.pos)

    def branch(self, blk, sc, outs):
        inner = Scope(sc)
        if getattr(blk, "ifchain", None) is not None:
            lines = self.if_stmt(blk.ifchain, inner)
        else:
            if blk.tail is not None:
                raise Unsupported("`if` statement whose branch has a value", blk.pos)
            lines = self.stmts(blk, inner)
        return lines + ["pure %s" % self.tuple_of(outs)]

    def if_stmt(self, e, sc):
        outs = [n for n in sc.names() if n in assigned_in(e)]
        pat = self.tuple_of(outs) if outs else "_"
        if e.kind == "iflet":
            b, x, t = self.ex(e.e, sc)
            if t[0] != "opt" or t[1] is None:
                raise Unsupported("`if let Some(..)` on something that is not an Option", e.pos)
            inner = Scope(sc)
            bind_pat(e.pat, t[1], inner)
            l1 = self.stmts(e.then, inner) + ["pure %s" % self.tuple_of(outs)]
            if e.then.tail is not None:
                raise Unsupported("`if let` with a value", e.pos)
            out = b + ["let %s ← match %s with" % (pat, x), "  | some %s => do" % pat_text(e.pat)] + ["      " + l for l in l1]
            if e.els is None:
                out.append("  | none => pure %s" % self.tuple_of(outs))
            else:
                out.append("  | none => do")
                out += ["      " + l for l in self.branch(e.els, sc, outs)]
            return out
        bc, c, tc = self.ex(e.c, sc)
        if tc != BOOL:
            raise Unsupported("condition is not a boolean", e.c.pos)
        l1 = self.branch(e.then, sc, outs)
        out = bc + ["let %s ← if %s then do" % (pat, c)] + ["    " + l for l in l1]
        if e.els is None:
            out.append("  else pure %s" % self.tuple_of(outs))
        else:
            out.append("  else do")
            out += ["    " + l for l in self.branch(e.els, sc, outs)]
        return out

    def for_(self, s, sc):
        b, it, t = self.ex(s.it, sc)
        if t[0] != "list":
            raise Unsupported("`for` over something that is not an iterator / slice", s.pos)
        inner = Scope(sc)
        bind_pat(s.pat, t[1], inner)
        pn = pat_names(s.pat)
        asg = assigned_in(s.body)
        state = [(n, ty) for n, ty in sc.vars if n in asg and n not in pn]
        snames = [n for n, _ in state]
        caps = [(n, ty) for n, ty in self.caps_of(s.body, sc, exclude=pn) if n not in snames]
        name = self.helper_name("for")
        idx = len(self.helpers)
        save = self.tmp
        self.tmp = 0
        if s.body.tail is not None:
            raise Unsupported("loop body with a value", s.pos)
        body = self.stmts(s.body, inner)
        self.tmp = save
        sty = self.tuple_ty(state)
        head = "def %s (L : Rs.LogOps P) (H : Rs.HmmOps P O)%s : %s → %s → Res %s" % (
            name, "".join(" (%s : %s)" % (lname(n), lean_ty(ty)) for n, ty in caps), paren(lean_ty(sty)),
            paren(lean_ty(t[1])), paren(lean_ty(sty)))
        out = ["/-- body of `for %s in …` (line %d) -/" % (pat_text(s.pat), self.line_of(s.pos)), head,
               "  | %s, %s => do" % (self.tuple_of(snames), pat_text(s.pat))]
        out += ["    " + l for l in body]
        out.append("    pure %s" % self.tuple_of(snames))
        self.helpers.append("\n".join(out))
        app = "%s L H%s" % (name, "".join(" " + lname(n) for n, _ in caps))
        return b + ["let %s ← List.foldlM (%s) %s %s" % (self.tuple_of(snames) if snames else "_", app,
                                                          self.tuple_of(snames), atom(it))]

    # ------------------------------------------------------------------ whole function
    def translate(self, src, body_text, start):
        self.src = src
        toks = tokenize(body_text, start)
        p = ParserH(toks)
        blk = p.body()
        sc = Scope()
        params = []
        for pn, pt in self.spec["params"]:
            if pt == "hmm":
                params.append((pn, "hmm"))
                continue
            ty = self.parse_ty(pt)
            sc.declare(pn, ty)
            params.append((pn, ty))
        lines = self.stmts(blk, sc)
        if blk.tail is None:
            raise Unsupported("function without a result expression", blk.pos)
        ret = self.parse_ty(self.spec["ret"])
        b, x, t = self.ex(blk.tail, sc, expect=ret)
        if t != ret:
            raise Unsupported("the result has type %s, the pinned header says %s" % (lean_ty(t), lean_ty(ret)), blk.tail.pos)
        head = "def %s (L : Rs.LogOps P) (H : Rs.HmmOps P O)%s : Res %s := do" % (
            self.fn, "".join(" (%s : %s)" % (lname(n), lean_ty(ty)) for n, ty in params if ty != "hmm"), paren(lean_ty(ret)))
        main = "\n".join([head] + ["  " + l for l in lines + b] + ["  pure %s" % atom(x)])
        self.done[self.spec["name"]] = dict(lean=self.fn, params=params, ret=ret)
        return self.helpers, main


# ================================================================================================== units

def translate_unit(src, unit, fail):
    """src: gen_tables.Src of unit['file']; returns (lean text, snippets dict)"""
    rel = unit["file"]
    out_fns, snippets, done = [], {}, {}
    for f in unit["functions"]:
        what = "fn %s" % f["name"]
        rx = header_regex(f["header"])
        ms = list(re.finditer(rx, src.code))
        if len(ms) != 1:
            fail("%s: %s: expected exactly one function with the header `%s`, found %d (signature changed, renamed or "
                 "restructured: the translation spec in tools/rs2lean_genhmm.py pins the header)" % (rel, what, f["header"], len(ms)))
        body, line = src.fn_body(rx, what)
        start = src.code.find("{", ms[0].end() - 1) + 1
        snippets[f["name"]] = ms[0].group(0)[:-1].strip() + " {" + body + "}"
        try:
            tr = FnTr(unit, f, done)
            helpers, main = tr.translate(src, body, start)
        except Unsupported as u:
            where = "%s:%d" % (rel, src.line_of(u.pos)) if u.pos is not None else "%s:%d" % (rel, line)
            fail("%s: %s: cannot translate: %s (outside the subset of tools/rs2lean_genhmm.py; the equality theorem %s can no "
                 "longer be regenerated)" % (where, what, u.msg, f.get("theorem", "")))
        out_fns.append((f, line, body, helpers, main))
    name = unit["name"]
    txt = ["import RbV.Basic.RsSemGenhmm"] + ["import " + m for m in unit.get("lean_imports", [])] + [
        "/-! GENERATED by tools/rs2lean_genhmm.py (tools/gen_tables.py, %s) — do not edit." % unit["props"],
        "Translation of the *text* of the following functions of `%s` (comments blanked) into Lean, regenerated from" % rel,
        "the source tree on every `./check`.  `LogProb` is the abstract type `P` with the operations `L : Rs.LogOps P`, the",
        "model accessors `hmm.…` are `H : Rs.HmmOps P O`, `Array2` is a list of rows (semantics: `RbV/Basic/RsSemGenhmm.lean`,",
        "`RbV/Basic/RsSem.lean`; `Res.panic` = the Rust code panics: index out of bounds, checked `usize` arithmetic, `unwrap`",
        "of `None`).  Equality with the hand-written mirror models at `P := Nat`: `RbV/Thm/Gen%s.lean`." % name,
        ""]
    for f, line, body, helpers, main in out_fns:
        txt.append("`%s` (line %d):" % (" ".join(f["header"].split()), line))
        txt.append("```")
        for l in dedent(body).splitlines():
            if l.strip():
                txt.append(l.rstrip().replace("-/", "- /").replace("/-", "/ -"))
        txt.append("```")
    txt.append("-/")
    txt.append("set_option linter.unusedVariables false")
    txt.append("namespace RbV.Gen.%s" % name)
    txt.append("open RbV RbV.Rs")
    for o in unit.get("opens", []):
        txt.append("open " + o)
    txt.append("variable {P O : Type}")
    txt.append("")
    for f, line, body, helpers, main in out_fns:
        for h in helpers:
            txt.append(h)
            txt.append("")
        txt.append("/-- `%s` (%s, line %d) -/" % (" ".join(f["header"].split()).replace("-/", "- /"), rel, line))
        txt.append(main)
        txt.append("")
    txt.append("end RbV.Gen.%s" % name)
    return "\n".join(txt) + "\n", snippets


UNITS = {}


def unit(**kw):
    UNITS[kw["name"]] = kw
    return kw


HMM_FILE = "src/stats/hmm/mod.rs"

unit(name="SrcHmmViterbi", props="property C14", file=HMM_FILE,
     functions=[
         dict(name="viterbi_matrices", lean="viterbi_matrices",
              header="fn viterbi_matrices<O, M: Model<O>>(hmm: &M, observations: &[O],) -> (Array2<LogProb>, Array2<usize>)",
              params=[("hmm", "hmm"), ("observations", "&[O]")], ret="(Array2<LogProb>, Array2<usize>)",
              theorem="RbV.Thm.C14.viterbi_matrices_source_eq_model"),
         dict(name="viterbi_traceback", lean="viterbi_traceback",
              header="fn viterbi_traceback(vals: Array2<LogProb>, from: Array2<usize>) -> (Vec<State>, LogProb)",
              params=[("vals", "Array2<LogProb>"), ("from", "Array2<usize>")], ret="(Vec<State>, LogProb)",
              locals={"curr": "usize"},
              theorem="RbV.Thm.C14.viterbi_traceback_source_eq_model"),
         dict(name="viterbi", lean="viterbi",
              header="pub fn viterbi<O, M: Model<O>>(hmm: &M, observations: &[O]) -> (Vec<State>, LogProb)",
              params=[("hmm", "hmm"), ("observations", "&[O]")], ret="(Vec<State>, LogProb)",
              theorem="RbV.Thm.C14.viterbi_source_eq_model"),
     ])

unit(name="SrcHmmForward", props="property C14", file=HMM_FILE,
     functions=[
         dict(name="forward", lean="forward",
              header="pub fn forward<O, M: Model<O>>(hmm: &M, observations: &[O]) -> (Array2<LogProb>, LogProb)",
              params=[("hmm", "hmm"), ("observations", "&[O]")], ret="(Array2<LogProb>, LogProb)",
              theorem="RbV.Thm.C14.forward_source_eq_model"),
     ])

unit(name="SrcHmmBackward", props="property C14", file=HMM_FILE,
     functions=[
         dict(name="backward", lean="backward",
              header="pub fn backward<O, M: Model<O>>(hmm: &M, observations: &[O]) -> (Array2<LogProb>, LogProb)",
              params=[("hmm", "hmm"), ("observations", "&[O]")], ret="(Array2<LogProb>, LogProb)",
              locals={"prob_vec_final": "Vec<LogProb>"},
              theorem="RbV.Thm.C14.backward_source_eq_model"),
     ])


# ================================================================================================== self-test

SELFTEST_RS = r"""
pub fn best<O, M: Model<O>>(hmm: &M, observations: &[O]) -> (Vec<State>, LogProb) {
    let mut vals = Array2::<LogProb>::zeros((observations.len(), hmm.num_states()));
    let mut acc: Vec<State> = Vec::new();
    let mut total = LogProb::ln_zero();
    for (i, o) in observations.iter().enumerate().rev() {
        for s in hmm.states() {
            vals[[i, *s]] = hmm.initial_prob(s) + hmm.observation_prob(s, o);
            if i + 1 == observations.len() && hmm.has_end_state() {
                vals[[i, *s]] += hmm.end_prob(s);
            }
        }
        let xs = hmm.states().map(|k| vals[[i, *k]]).collect::<Vec<LogProb>>();
        total = total.ln_add_exp(LogProb::ln_sum_exp(&xs));
        let b = vals
            .index_axis(Axis(0), i)
            .iter()
            .enumerate()
            .max_by(|(_, &x), (_, &y)| x.partial_cmp(&y).unwrap())
            .map(|(a, y)| (State(a), *y))
            .unwrap();
        if b.1 > total || b.1.is_zero() {
            acc.push(b.0);
        } else if let Some(j) = i.checked_sub(1) {
            acc.push(State(j));
        }
    }
    acc.reverse();
    (acc, total)
}
"""

SELFTEST_UNIT = dict(name="SrcSelfHmm", props="self-test", file="selftest.rs", functions=[
    dict(name="best", lean="best", header="pub fn best<O, M: Model<O>>(hmm: &M, observations: &[O]) -> (Vec<State>, LogProb)",
         params=[("hmm", "hmm"), ("observations", "&[O]")], ret="(Vec<State>, LogProb)")])

SELFTEST_REFUSED = [
    ("let mut i = 0; while i < 3 { i += 1; } (Vec::new(), LogProb::ln_zero())", "`while`"),
    ("for s in hmm.states() { if *s == 1 { break; } } (Vec::new(), LogProb::ln_zero())", "`break`"),
    ("for s in hmm.states() { if *s == 1 { continue; } } (Vec::new(), LogProb::ln_zero())", "`continue`"),
    ("let x = hmm.states().map(|k| k).sum::<usize>(); (Vec::new(), LogProb::ln_zero())", "method `.sum"),
    ("let p = hmm.foo(); (Vec::new(), p)", "model method"),
    ("let p = LogProb::from(Prob(0.5)); (Vec::new(), p)", "call of `LogProb::from`"),
    ("let x = observations.len() as u32; (Vec::new(), LogProb::ln_zero())", "`as` cast"),
    ("let v = vec![]; (v, LogProb::ln_zero())", "`vec![]` without a declared type"),
    ("let p = hmm.initial_prob(State(0)).partial_cmp(&LogProb::ln_one()); (Vec::new(), LogProb::ln_zero())", "not followed by"),
]

SELFTEST_LEAN = r"""
open RbV RbV.Rs RbV.Gen.SrcSelfHmm
def LN : LogOps Nat := { zero := 0, one := 1, mul := (· * ·), add := (· + ·), sum := List.sum, isZero := (· == 0), cmp := compare, arrZero := 7 }
def HN : HmmOps Nat Nat :=
  { numStates := 2, trans := fun _ _ _ => 1, transProb := fun _ _ => 1, init := fun s => s + 1,
    emit := fun s o => s + o, fin := fun s => 3 - s, hasEnd := true }
#eval best LN HN [1, 2]
example : best LN HN [1, 2] = Res.ok ([0], 23) := by decide
example : best LN HN ([] : List Nat) = Res.ok ([], 0) := by decide
"""


class _Src:
    """stand-in for gen_tables.Src in the self-test"""

    def __init__(self, text):
        self.raw = self.code = text
        self.rel = "selftest.rs"

    def line_of(self, pos):
        return self.code.count("\n", 0, pos) + 1

    def fn_body(self, rx, what):
        m = re.search(rx, self.code)
        start = self.code.find("{", m.end() - 1)
        depth = 0
        for i in range(start, len(self.code)):
            if self.code[i] == "{":
                depth += 1
            elif self.code[i] == "}":
                depth -= 1
                if depth == 0:
                    return self.code[start + 1:i], self.line_of(start)
        raise Unsupported("unbalanced")


class _Refused(Exception):
    pass


def selftest(with_lean):
    def refuse(msg):
        raise _Refused(msg)
    src = _Src(SELFTEST_RS)
    text, _ = translate_unit(src, SELFTEST_UNIT, refuse)
    text2, _ = translate_unit(_Src(SELFTEST_RS), SELFTEST_UNIT, refuse)
    assert text == text2, "translation is not deterministic"
    for frag in ("best_for1", "best_for2", "best_map1", "best_cmp1", "best_map2", "Rs.maxBy", "List.mapM", "Rs.checkedSub",
                 "L.add", "L.sum", "Rs.set2", "Rs.get2", "Rs.row2", ".reverse"):
        assert frag in text, "missing `%s` in the translation of the self-test function" % frag
    hdr = "pub fn best<O, M: Model<O>>(hmm: &M, observations: &[O]) -> (Vec<State>, LogProb) {"
    for body, expect in SELFTEST_REFUSED:
        try:
            translate_unit(_Src(hdr + body + "}"), SELFTEST_UNIT, refuse)
        except _Refused as r:
            assert expect in str(r), "refused for another reason: %s (expected %s)" % (r, expect)
        else:
            raise AssertionError("not refused: " + body)
    print("rs2lean_genhmm selftest: translation ok, %d non-subset snippets refused" % len(SELFTEST_REFUSED))
    if with_lean:
        import subprocess, tempfile
        root = os.path.dirname(os.path.dirname(os.path.abspath(__file__)))
        d = tempfile.mkdtemp(dir=os.path.join(root, ".work") if os.path.isdir(os.path.join(root, ".work")) else os.path.dirname(root))
        fn = os.path.join(d, "SelfHmm.lean")
        with open(fn, "w") as f:
            f.write(text.replace("namespace RbV.Gen.SrcSelfHmm", "namespace RbV.Gen.SrcSelfHmm") + SELFTEST_LEAN)
        p = subprocess.run(["lake", "env", "lean", fn], cwd=os.path.join(root, "lean"), stdout=subprocess.PIPE,
                           stderr=subprocess.STDOUT, text=True)
        print(p.stdout.strip())
        os.remove(fn)
        os.rmdir(d)
        assert p.returncode == 0, "lean rejected the translated self-test function"
        print("rs2lean_genhmm selftest: lean ok")


def main():
    ap = argparse.ArgumentParser()
    ap.add_argument("--selftest", action="store_true")
    ap.add_argument("--lean", action="store_true")
    ap.add_argument("--show", help="print the translation of a unit from --repo")
    ap.add_argument("--repo", default="/repo")
    a = ap.parse_args()
    if a.selftest:
        selftest(a.lean)
        return
    if a.show:
        import gen_tables
        u = UNITS[a.show]
        s = gen_tables.Src(a.repo, u["file"])
        text, _ = translate_unit(s, u, gen_tables.fail)
        print(text)


if __name__ == "__main__":
    main()
