#!/usr/bin/env python3
"""validate MANIFEST.json and evidence/*.json against the schemas (needs jsonschema: run with python3-vt)"""
import json, glob, jsonschema, sys
jsonschema.validate(json.load(open('/verif/MANIFEST.json')), json.load(open('/root/.vp/MANIFEST.schema.json')))
print("manifest ok")
es = json.load(open('/root/.vp/EVIDENCE.schema.json'))
for f in sorted(glob.glob('/verif/evidence/*.json')):
    jsonschema.validate(json.load(open(f)), es)
    print(f, "ok")
