#!/usr/bin/env python3
"""validate MANIFEST.json and evidence/*.json of the tree this script lives in (needs jsonschema: run with python3-vt)"""
import json, glob, jsonschema, sys, os
ROOT = os.path.dirname(os.path.dirname(os.path.abspath(__file__)))
jsonschema.validate(json.load(open(os.path.join(ROOT, 'MANIFEST.json'))), json.load(open('/root/.vp/MANIFEST.schema.json')))
print("manifest ok")
es = json.load(open('/root/.vp/EVIDENCE.schema.json'))
for f in sorted(glob.glob(os.path.join(ROOT, 'evidence', '*.json'))):
    jsonschema.validate(json.load(open(f)), es)
    print(f, "ok")
