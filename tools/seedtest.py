#!/usr/bin/env python3
"""Confirm a seeded defect and run the registered check against it.

  tools/seedtest.py <dir with patch.diff, demo.rs[, meta.json]> [--skip-suite] [--tier quick|thorough] [--no-check]

Uses ONE scratch worktree of /repo (/var/tmp/seedwt/wt, shared target dir so rebuilds are incremental), never /repo
itself. Steps: (1) demo passes on the unmodified tree, (2) patch applies, (3) the repository's own test suite still
passes with the patch, (4) the demo fails with the patch, (5) `VERIF_REPO=<worktree> ./check <prop>` — does the quick
tier report a VIOLATION?  Prints a JSON summary (and merges it into <dir>/result.json).
"""
import sys, os, json, subprocess, shutil, time, argparse, re

ROOT = os.path.dirname(os.path.dirname(os.path.abspath(__file__)))
SEEDWT = os.environ.get("SEEDWT_DIR", "/var/tmp/seedwt")   # one scratch worktree + target dir per concurrent runner
WT = SEEDWT + "/wt"
ENV = dict(os.environ, CARGO_NET_OFFLINE="true", CARGO_TARGET_DIR=SEEDWT + "/target")


def sh(cmd, cwd=None, env=None, timeout=3600):
    p = subprocess.run(cmd, cwd=cwd, env=env or ENV, shell=isinstance(cmd, str), stdin=subprocess.DEVNULL, stdout=subprocess.PIPE,
                       stderr=subprocess.STDOUT, text=True, timeout=timeout)
    return p.returncode, p.stdout


def ensure_wt():
    if not os.path.exists(WT):
        os.makedirs(os.path.dirname(WT), exist_ok=True)
        rc, out = sh(["git", "-C", "/repo", "worktree", "add", "--detach", WT, "HEAD"])
        assert rc == 0, out
    else:
        sh(["git", "-C", WT, "checkout", "-q", "--detach", subprocess.check_output(["git", "-C", "/repo", "rev-parse", "HEAD"], text=True).strip()])
    sh(["git", "-C", WT, "checkout", "--", "."])
    sh(["git", "-C", WT, "clean", "-fdq", "tests/"])


def main():
    ap = argparse.ArgumentParser()
    ap.add_argument("dir")
    ap.add_argument("--skip-suite", action="store_true")
    ap.add_argument("--no-check", action="store_true")
    ap.add_argument("--no-demo", action="store_true", help="skip the demonstration runs (they were confirmed when the seed was kept)")
    ap.add_argument("--tier", default="quick")
    ap.add_argument("--prop")
    a = ap.parse_args()
    d = os.path.abspath(a.dir)
    meta = json.load(open(os.path.join(d, "meta.json"))) if os.path.exists(os.path.join(d, "meta.json")) else {}
    prop = a.prop or meta.get("property") or re.match(r"(C\d+)", os.path.basename(d)).group(1)
    res = {"property": prop, "dir": d}
    ensure_wt()
    demo = os.path.join(d, "demo.rs")
    has_demo = os.path.exists(demo) and not a.no_demo
    if has_demo:
        shutil.copyfile(demo, os.path.join(WT, "tests", "demo_seeded.rs"))
        rc, out = sh(["cargo", "test", "--offline", "--test", "demo_seeded"], cwd=WT)
        res["demo_passes_unmodified"] = rc == 0
        if rc != 0:
            res["demo_unmodified_output"] = out[-1500:]
    rc, out = sh(["git", "-C", WT, "apply", os.path.join(d, "patch.diff")])
    if rc != 0:
        # the tree moved on since the seed was written (fix: commits): a conflict-free 3-way apply is accepted
        rc, out3 = sh(["git", "-C", WT, "apply", "--3way", os.path.join(d, "patch.diff")])
        res["applied_3way"] = rc == 0
        if rc != 0:
            sh(["git", "-C", WT, "reset", "-q", "--hard"])
            out += out3
    res["patch_applies"] = rc == 0
    if rc != 0:
        res["apply_output"] = out[-800:]
        print(json.dumps(res, indent=1))
        return
    if has_demo:
        rc, out = sh(["cargo", "test", "--offline", "--test", "demo_seeded"], cwd=WT)
        res["demo_fails_with_patch"] = rc != 0
        failed = sorted(set(re.findall(r"^test (\S+) \.\.\. FAILED", out, flags=re.M)))
        res["demo_failed_tests_with_patch"] = failed
        if meta.get("kind") == "harmless":
            # property sweeps must still pass; only the tests pinning the old (unspecified) behaviour may fail
            res["harmless_sweeps_pass_with_patch"] = all(t.split("::")[-1].startswith("behaviour_differs") for t in failed) \
                and ("test result:" in out)
            if not res["harmless_sweeps_pass_with_patch"]:
                res["demo_output_with_patch"] = out[-2500:]
        os.remove(os.path.join(WT, "tests", "demo_seeded.rs"))
    if not a.skip_suite:
        t0 = time.time()
        rc, out = sh(["cargo", "test", "--offline", "--no-fail-fast"], cwd=WT)
        if rc != 0:  # doc tests that write fixed file names race with other cargo runs on this box: retry once
            rc, out = sh(["cargo", "test", "--offline", "--no-fail-fast"], cwd=WT)
        # `src/io/fastx.rs - io::fastx (line 73)` reads FASTA from the process' stdin: environment-dependent, fails on the
        # unmodified tree too when stdin is not an empty/valid stream; it is not part of the pinned (nextest) suite
        failed_tests = set(re.findall(r"^test (.+?) \.\.\. FAILED", out, flags=re.M)) - {"src/io/fastx.rs - io::fastx (line 73)"}
        if rc != 0 and not failed_tests and "error: could not compile" not in out and "error[" not in out:
            rc = 0
        res["suite_passes_with_patch"] = rc == 0
        res["suite_s"] = round(time.time() - t0)
        if rc != 0:
            res["suite_output"] = "\n".join([l for l in out.splitlines() if "FAILED" in l or "failed" in l][:20])
    if not a.no_check:
        t0 = time.time()
        env = dict(os.environ, VERIF_REPO=WT)
        evf = os.path.join(ROOT, "evidence", prop + ".json")
        saved = open(evf).read() if os.path.exists(evf) else None
        rc, out = sh([os.path.join(ROOT, "check"), prop, "--tier", a.tier], cwd=ROOT, env=env)
        if saved is not None:           # evidence must only ever come from runs against /repo itself
            open(evf, "w").write(saved)
        res["check_rc"] = rc
        res["check_s"] = round(time.time() - t0)
        res["check_violation_lines"] = [l for l in out.splitlines() if l.startswith("VIOLATION")]
        res["caught"] = rc == 1 and any(l.startswith("VIOLATION property=%s" % prop) for l in out.splitlines())
        if meta.get("kind") == "harmless":
            res["false_alarm"] = rc != 0 or bool(res["check_violation_lines"])
            res["check_tail"] = out[-1500:] if res["false_alarm"] else ""
        rp = [l.split("replay=")[1].split()[0] for l in res["check_violation_lines"] if "replay=" in l]
        if rp and os.path.exists(rp[0]):
            res["first_replay"] = json.load(open(rp[0]))
    sh(["git", "-C", WT, "reset", "-q", "--hard"])
    # point the harness back at /repo (rebuilds bio from /repo)
    sh([os.path.join(ROOT, "check"), prop, "--replay", "/dev/null"], cwd=ROOT, env=dict(os.environ, VERIF_REPO="/repo"))
    json.dump(res, open(os.path.join(d, "result.json"), "w"), indent=1)
    print(json.dumps(res, indent=1))


if __name__ == "__main__":
    main()
