#!/usr/bin/env python3
"""Rust -> Lean translator, module of builder genlong: the rest of the Myers matchers (properties C09, C10).

Built on `tools/rs2lean_pm.py` (units `SrcMyersState`, `SrcMyersSimple`, `SrcMyersMatches`, `SrcMyersLong` of builder genukk): the
classes `ParserL` / `FnL` below subclass its `Parser` / `FnTranslator`; `translate_unit` of this module runs pm's `translate_unit`
with the two subclasses in place (pm's module is not edited and its own units keep their exact output).  Semantics of the
additional operations: `lean/RbV/Basic/RsSemGenlong.lean`.  docs/notes/GEN.md, section "Block-based Myers end to end, constructors,
traceback (genlong)", is the reference.

What the subclasses add to the subset of rs2lean_pm.py
  glue         a unit function whose body is a single call without `;` (`state.step(a, &self.peq, max_dist)`), method calls on a
               struct **parameter** or on a **local struct value** (`recv_args` / `recv_outs` in the `calls` entry: the fields of the
               receiver the callee reads / assigns), `let mut s = S { .. };` for a struct `S` of the spec (`local_structs`): the
               value is held field by field (`s.f`), `s` as the returned value is the tuple of its fields, `vec![]`,
               `<$DistType>::max_value()` (= `$DistType::max_value()`), `let mut state = self.initial_state(..)` (a local of
               struct type from a translated call), `std::cmp::min/max` as in pm
  consumers    `it.min_by_key(|&(_, dist)| dist).unwrap()` on the iterator a translated `find_all_end` returns: `Rs.drain` of the
               translated `next` (spec `drains`: the `next` function, its fuel) followed by `Rs.minByKeySnd` (first minimum) and
               `Rs.expect`
  constructors `for (i, symbol) in pattern.enumerate()`, `for chunk in pattern.chunks(w).into_iter()` (spec `chunked`),
               `if let Some(x) = opt`, `opt_ambigs.and_then(|ambigs| ambigs.get(&symbol))` on an `Option<&HashMap<u8, Vec<u8>>>`
               (`Rs.hmGet` on the entry list of the map), `peq[symbol as usize] |= mask`, `T::one() << i` with a variable shift
               amount, `T::DistType::from_usize(x).unwrap()`, `size_of::<T>() * 8`
  traceback    see the section "traceback" of the unit specs below.
"""
import sys, os, re, argparse

sys.path.insert(0, os.path.dirname(os.path.abspath(__file__)))
import rs2lean_pm as pm

Unsupported, N, Code, Var = pm.Unsupported, pm.N, pm.Code, pm.Var
TInt, TWord, TBool, TUnit, TSeq, TTuple, TStruct, TOption, TIter = (pm.TInt, pm.TWord, pm.TBool, pm.TUnit, pm.TSeq, pm.TTuple,
                                                                  pm.TStruct, pm.TOption, pm.TIter)
atom, tuple_pat, tuple_val = pm.atom, pm.tuple_pat, pm.tuple_val
_BaseParser, _BaseFn = pm.Parser, pm.FnTranslator      # (the module attributes are swapped while a unit of this module is translated)


# ================================================================================================== parser

class ParserL(_BaseParser):
    def primary(self, no_struct):
        x = self.peek()
        if x.kind == "op" and x.text == "<" and self.peek(1).kind == "id" and self.at(">", 2) and self.at("::", 3):
            # `<$DistType>::max_value()`: a qualified path whose type is a single name = `$DistType::max_value()`
            del self.t[self.i + 2]
            del self.t[self.i]
            return _BaseParser.primary(self, no_struct)
        return _BaseParser.primary(self, no_struct)

    def args(self):
        # `|&(_, dist)| dist` as the only argument (the key closure of `min_by_key`): second component of the pair
        if self.at("(") and self.at("|", 1) and self.at("&", 2) and self.at("(", 3) and self.at("_", 4) and self.at(",", 5) \
                and self.peek(6).kind == "id" and self.at(")", 7) and self.at("|", 8) and self.peek(9).kind == "id" \
                and self.peek(9).text == self.peek(6).text and self.at(")", 10):
            p0 = self.peek(1)
            for _ in range(11):
                self.next()
            return [N("sndclosure", p0.pos)]
        return _BaseParser.args(self)


# ================================================================================================== translator

class FnL(_BaseFn):
    def __init__(self, unit, fspec, src, body_text, body_pos):
        _BaseFn.__init__(self, unit, fspec, src, body_text, body_pos)
        self.local_struct_roots = {}      # rust name of a local held field by field -> struct name

    # ---- receivers: struct parameters and local struct values -------------------------------------------------------
    def recv_key(self, e):
        """key in `calls` of the method call `e`, or None: pm's `method_key` (self / struct parameter / self.a.b) or a call on
        a local variable of struct type (`state.known_dist()` with `state` a local: key "state.known_dist")"""
        k = pm.method_key(e)
        if k is not None and k in self.calls:
            return k
        r = e.recv
        if r.kind == "var" and (r.name + "." + e.name) in self.calls:
            return r.name + "." + e.name
        return None

    def recv_lookup(self, name, code, node):
        """lean text of the receiver field `root.f`"""
        root, fld = name.split(".", 1)
        for sc in reversed(self.scopes):
            if name in sc:
                return sc[name].lean
        v = self.lookup(root, node)
        if isinstance(v.ty, TStruct) and fld in v.ty.fields:
            return "%s%s" % (atom(v.lean), v.ty.proj(fld))
        self.err("receiver field `%s` is not known" % name, node)

    def struct_call(self, key, f, args, code, node, as_stmt=False):
        if not (f.get("recv_outs") or any("." in a and not any(a in sc for sc in self.scopes) for a in f.get("recv_args", []))):
            return _BaseFn.struct_call(self, key, f, args, code, node, as_stmt)
        # a method of a struct value held in a local variable / in per-field variables: pass `recv_args`, get `recv_outs` back
        if len(f["args"]) != len(args):
            self.err("`%s` called with %d arguments, the spec says %d" % (key, len(args), len(f["args"])), node)
        parts = list(f.get("extra", []))
        parts += [atom(self.recv_lookup(a, code, node)) for a in f.get("recv_args", [])]
        parts += [self.lookup("self." + a, node).lean for a in f.get("self_args", [])]
        outs, posts = [], []
        whole = None
        for a in f.get("recv_outs", []):
            root, fld = a.split(".", 1)
            if any(a in sc for sc in self.scopes):
                outs.append(self.lookup(a, node).lean)
            else:
                v = self.lookup(root, node)
                if not (isinstance(v.ty, TStruct) and fld in v.ty.fields):
                    self.err("receiver field `%s` is not known" % a, node)
                if whole is None:
                    names = [self.tmp() for _ in v.ty.fields]
                    code.let(tuple_pat(names), v.lean)
                    whole = (v, names)
                t = self.tmp()
                whole[1][v.ty.fields.index(fld)] = t
                outs.append(t)
        if whole is not None:
            v, names = whole
            posts.append(lambda c: c.let(v.lean, tuple_val(names)))
        for a, at in zip(args, f["args"]):
            sname = self.struct_of(at)
            if sname is not None:
                ins, o, post = self.struct_arg(a, sname, at.replace(" ", "").startswith("&mut"), code, node)
                parts += ins
                outs += o
                if post is not None:
                    posts.append(post)
                continue
            want = self.ty_of_text(at)
            s_, t_ = self.expr(a, code, want)
            if t_ != want:
                self.err("argument of `%s` has type %r, the spec says %r" % (key, t_, want), a)
            parts.append(atom(s_))
        ret = self.ty_of_text(f["ret"]) if f.get("ret") else None
        call = f["lean"] + "".join(" " + p for p in parts)
        if ret is None:
            if not as_stmt:
                self.err("`%s` returns no value" % key, node)
            code.bind(tuple_pat(outs) if outs else "_", ("call", call))
            for post in posts:
                post(code)
            return None, TUnit()
        t = self.tmp() if not as_stmt else "_"
        code.bind(tuple_pat(outs + [t]), ("call", call))
        for post in posts:
            post(code)
        return t, ret

    def _call_assigned(self, ckey, args, decl, out):
        _BaseFn._call_assigned(self, ckey, args, decl, out)
        for a in self.calls[ckey].get("recv_outs", []):
            nm = a if any(a in sc for sc in self.scopes) or a.split(".")[0] in self.local_struct_roots else a.split(".")[0]
            if nm not in decl and nm.split(".")[0] not in decl and nm not in out:
                out.append(nm)

    def _assigned(self, n, decl, out):
        if n.kind == "exprs" and n.e.kind == "mcall" and self.recv_key(n.e) is not None:
            return self._call_assigned(self.recv_key(n.e), n.e.args, decl, out)
        return _BaseFn._assigned(self, n, decl, out)

    def _expr_calls_assigned(self, e, decl, out):
        _BaseFn._expr_calls_assigned(self, e, decl, out)
        for x in pm.all_nodes(e):
            if x.kind == "mcall" and pm.method_key(x) not in self.calls and self.recv_key(x) is not None:
                self._call_assigned(self.recv_key(x), x.args, decl, out)

    def _reads(self, n, out):
        if isinstance(n, N) and n.kind == "mcall" and pm.method_key(n) not in self.calls and self.recv_key(n) is not None:
            f = self.calls[self.recv_key(n)]
            for a in f.get("self_args", []):
                if "self." + a not in out:
                    out.append("self." + a)
            for a in f.get("recv_args", []):
                nm = a if a.split(".")[0] in self.local_struct_roots else a.split(".")[0]
                if nm not in out:
                    out.append(nm)
            for a in n.args:
                self._reads(a, out)
            return
        if isinstance(n, N) and n.kind == "var" and n.name in self.local_struct_roots:
            for f, _ in self.structs[self.local_struct_roots[n.name]]:
                if "%s.%s" % (n.name, f) not in out:
                    out.append("%s.%s" % (n.name, f))
            return
        return _BaseFn._reads(self, n, out)

    def struct_arg(self, arg, sname, mutable, code, node):
        a = arg
        while a.kind == "paren" or (a.kind == "un" and a.op in ("&", "&mut")):
            a = a.e
        if a.kind == "var" and a.name == "self" and not mutable:
            # `Matches::new(self, ..)`: the receiver itself as a `&S` argument = its fields (parameters of this function)
            return [self.lookup("self." + f, node).lean for f, _ in self.structs[sname]], [], None
        return _BaseFn.struct_arg(self, arg, sname, mutable, code, node)

    def mcall(self, e, code, expected):
        if e.name == "unwrap" and not e.args and e.recv.kind == "mcall" and e.recv.name == "min_by_key" \
                and len(e.recv.args) == 1 and e.recv.args[0].kind == "sndclosure":
            # `it.min_by_key(|&(_, d)| d).unwrap()` on the iterator value a translated `find_all_end` returns: the items are
            # what calling the translated `next` until `None` yields (`Rs.drain`, template and fuel from the spec `drain`)
            d = self.spec.get("drain")
            if d is None:
                self.err("`min_by_key` on an iterator the spec does not say how to drain", e)
            it, itt = self.expr(e.recv.recv, code)
            if not isinstance(itt, TTuple):
                self.err("`min_by_key` on a value of type %r" % (itt,), e)
            t1 = self.tmp()
            code.bind(t1, ("call", d["template"].format(it=atom(it),
                                                      **{k_: self.lookup(v_, e).lean for k_, v_ in d.get("vars", {}).items()})))
            t2 = self.tmp()
            code.bind(t2, ("call", "Rs.expect (Rs.minByKeySnd %s)" % t1))
            return t2, self.ty_of_text(d["item"])
        k = self.recv_key(e)
        if k is not None and (pm.method_key(e) not in self.calls):
            return self.struct_call(k, self.calls[k], e.args, code, e)
        if k is not None and (self.calls[k].get("recv_outs") or self.calls[k].get("recv_args")):
            return self.struct_call(k, self.calls[k], e.args, code, e)
        return _BaseFn.mcall(self, e, code, expected)

    def expr_stmt(self, e, code):
        if e.kind == "mcall" and self.recv_key(e) is not None:
            self.struct_call(self.recv_key(e), self.calls[self.recv_key(e)], e.args, code, e, as_stmt=True)
            return
        return _BaseFn.expr_stmt(self, e, code)

    # ---- local struct values held field by field ---------------------------------------------------------------------
    def let(self, s, code):
        if s.pat.kind == "pid" and s.init.kind == "struct" and s.init.name in self.spec.get("local_structs", []):
            sname = s.init.name
            want = self.structs[sname]
            if [f for f, _ in s.init.fields] != [f for f, _ in want]:
                self.err("struct literal `%s` has fields %s, the spec expects %s in this order"
                         % (sname, ",".join(f for f, _ in s.init.fields), ",".join(f for f, _ in want)), s)
            vals = []
            for (f, x), (_, ft) in zip(s.init.fields, want):
                wty = self.ty_of_text(ft)
                v_, t_ = self.expr(x, code, wty)
                if t_ != wty:
                    self.err("field `%s` of `%s` has type %r, the spec says %r" % (f, sname, t_, wty), x)
                vals.append((f, v_, t_))
            for f, v_, t_ in vals:
                v = self.declare("%s.%s" % (s.pat.name, f), t_, s, mutable=True)
                code.let(v.lean, v_)
            self.local_struct_roots[s.pat.name] = sname
            pm.STRUCT_ROOTS.add(s.pat.name)
            return
        return _BaseFn.let(self, s, code)

    def expr(self, e, code, expected=None):
        if e.kind == "var" and e.name in self.local_struct_roots and not any(e.name in sc for sc in self.scopes):
            sname = self.local_struct_roots[e.name]
            vs = [self.lookup("%s.%s" % (e.name, f), e) for f, _ in self.structs[sname]]
            return tuple_val([v.lean for v in vs]), self.ty_of_text(sname)
        return _BaseFn.expr(self, e, code, expected)

    def macro(self, e, code, expected):
        if e.name == "vec" and not e.args:
            if not isinstance(expected, TSeq):
                self.err("`vec![]` without a declared element type", e)
            return "[]", expected
        return _BaseFn.macro(self, e, code, expected)

    # ---- `if let Some(x) = e { .. } [else { .. }]` / `match` on an `Option` as a plain statement (no exits inside) ------------
    def stmt(self, s, code, last):
        if s.kind == "match":
            return self.match_stmt(s, code)
        return _BaseFn.stmt(self, s, code, last)

    def match_stmt(self, s, code):
        vs = self.outer_vars(self.assigned(s), s)
        sc, st = self.expr(s.scrut, code)
        if not isinstance(st, TOption):
            self.err("`match` / `if let` on a value of type %r (only `Option`)" % (st,), s)
        saved_tail = self.tail_expected
        self.tail_expected = None
        arms = []
        for pat, b, _ in s.arms:
            sub = Code()
            self.scopes.append({})
            if pat[0] == "some":
                v = self.declare(pat[1], st.elem, s, mutable=False, nested_ok=True)
                lp = "some " + v.lean
            elif pat[0] == "none":
                lp = "none"
            else:
                self.err("`match` arm other than `Some(x)` / `None`", s)
            if b.kind != "block":
                b = N("block", b.pos, stmts=[b], tail=None)
            self.block(self.unit_block(b), sub, False)
            self.scopes.pop()
            sub.final = ("pure", tuple_val([v_.lean for v_ in vs]))
            arms.append((lp, sub))
        self.tail_expected = saved_tail
        code.bind(tuple_pat([v_.lean for v_ in vs]), ("match", atom(sc), arms))

    # ---- a unit function whose body is one call without `;` ----------------------------------------------------------
    def seq(self, stmts, tail_node, code, where):
        if tail_node is not None and isinstance(self.ret, TUnit) and tail_node.kind in ("mcall", "call"):
            stmts = list(stmts) + [N("exprs", tail_node.pos, e=tail_node)]
            tail_node = None
        return _BaseFn.seq(self, stmts, tail_node, code, where)


def translate_unit(src, unit, fail):
    """pm's `translate_unit` with the parser / translator classes of this module"""
    old = pm.Parser, pm.FnTranslator
    pm.Parser, pm.FnTranslator = ParserL, FnL
    try:
        return pm.translate_unit(src, unit, fail)
    finally:
        pm.Parser, pm.FnTranslator = old


# ================================================================================================== translation specs

UNITS = {}


def unit(**kw):
    UNITS[kw["name"]] = kw
    return kw


LONG_STRUCTS = {"State": [("pv", "T"), ("mv", "T"), ("dist", "usize")],
                "Peq": [("peq", "[T; 256]"), ("bound", "T")],
                "States": [("states", "Vec<State>"), ("max_block", "usize"), ("last_m", "usize")]}
STATES_F = ["states", "max_block", "last_m"]

# `ceil_div` of helpers.rs (used by `States::new`)
unit(name="SrcMyersHelpers", props="properties C09, C10", file="src/pattern_matching/myers/helpers.rs",
     imports=["RbV.Basic.RsSemWord"],
     functions=[dict(name="ceil_div", lean="ceilDiv", header="pub(crate) fn ceil_div(x: usize, y: usize) -> usize",
                     params=[("x", "usize"), ("y", "usize")], ret="usize",
                     theorem="RbV.Thm.GenSrcMyersLongNew.ceilDiv_eq")])

# `States::new`, `States::known_dist`, and the glue `long::Myers::step` / `initial_state` (long.rs).  `s.add_state(0)` and
# `state.step(..)` are the translated functions of genukk's unit `SrcMyersLong`.
unit(name="SrcMyersLongNew", props="properties C09, C10", file="src/pattern_matching/myers/long.rs",
     imports=["RbV.Basic.RsSemWord", "RbV.Gen.SrcMyersState", "RbV.Gen.SrcMyersLong", "RbV.Gen.SrcMyersHelpers"],
     word_types={"T": "w"}, type_paths={"T": "T"}, structs=LONG_STRUCTS, signed_arith=True,
     functions=[dict(name="States::new", lean="new", header="fn new(m: usize, max_dist: usize) -> Self",
                     within="impl<T> States<T> where T: BitVec,",
                     params=[("m", "usize"), ("max_dist", "usize")], ret="States", local_structs=["States"],
                     calls={"ceil_div": dict(lean="RbV.Gen.SrcMyersHelpers.ceilDiv", args=["usize", "usize"], ret="usize"),
                            "s.add_state": dict(lean="RbV.Gen.SrcMyersLong.addState", extra=["w"],
                                                recv_args=["s.states", "s.max_block", "s.last_m"], recv_outs=["s.states"],
                                                args=["i8"], ret=None)},
                     theorem="RbV.Thm.GenSrcMyersLongNew.new_eq_model"),
                dict(name="States::known_dist", lean="knownDist", header="fn known_dist(&self) -> Option<usize>",
                     self_fields=[("states", "Vec<State>"), ("max_block", "usize")], params=[], ret="Option<usize>",
                     theorem="RbV.Thm.GenSrcMyersLongNew.knownDist_eq_model"),
                dict(name="Myers::step", lean="step", header="fn step(&self, state: &mut States<T>, a: u8, max_dist: usize)",
                     self_fields=[("peq", "Vec<Peq>")],
                     params=[("state", "&mut States"), ("a", "u8"), ("max_dist", "usize")], ret=None,
                     calls={"state.step": dict(lean="RbV.Gen.SrcMyersLong.step", extra=["w"],
                                               recv_args=["state.states", "state.max_block", "state.last_m"],
                                               recv_outs=["state.states"], args=["u8", "&[Peq]", "usize"], ret=None)},
                     theorem="RbV.Thm.GenSrcMyersLongNew.step_eq_model"),
                dict(name="Myers::initial_state", lean="initialState",
                     header="fn initial_state(&self, m: usize, max_dist: usize) -> States<T>",
                     params=[("m", "usize"), ("max_dist", "usize")], ret="States",
                     calls={"States::new": dict(lean="new", extra=["w"], args=["usize", "usize"], ret="States")},
                     theorem="RbV.Thm.GenSrcMyersLongNew.new_eq_model")])



# `Matches::new` / `Matches::next` / `distance` / `find_best_end` exist once in the source, inside `macro_rules! impl_myers` of
# myers_impl.rs; genukk's unit `SrcMyersMatches` reads the first two at the instance of simple.rs.  This unit reads the same text at
# the instance `impl_myers!(usize, Myers<T>, long::States<T>, long::LongStatesHandler<'a>)` of long.rs: `$DistType` = `usize`,
# `myers.step` / `myers.initial_state` = the translated glue of `SrcMyersLongNew`, `state.known_dist()` = `States::known_dist`.
LONG_M_STRUCTS = dict(LONG_STRUCTS, Myers=[("peq", "Vec<Peq>"), ("m", "usize")])
M_NEW_HDR = "fn new(myers: &'a Myers<T>, text: I, max_dist: $DistType) -> Self"
M_NEW_IN = "impl<'a, T, C, I> Matches<'a, T, C, I> where T: BitVec, C: Borrow<u8>, I: Iterator<Item = C>,"
M_NEXT_HDR = "fn next(&mut self) -> Option<(usize, $DistType)>"
M_NEXT_IN = "impl<'a, T, C, I> Iterator for Matches<'a, T, C, I> where T: BitVec, C: Borrow<u8>, I: Iterator<Item = C>,"
M_DIST_HDR = "pub fn distance<C, I>(&self, text: I) -> $DistType where C: Borrow<u8>, I: IntoIterator<Item = C>,"
M_FAE_HDR = ("pub fn find_all_end<C, I>(&self, text: I, max_dist: $DistType,) -> Matches<T, C, I::IntoIter> "
             "where C: Borrow<u8>, I: IntoIterator<Item = C>,")
M_FBE_HDR = "pub fn find_best_end<C, I>(&self, text: I) -> (usize, $DistType) where C: Borrow<u8>, I: IntoIterator<Item = C>,"
LNEW = "RbV.Gen.SrcMyersLongNew."

unit(name="SrcMyersLongMatches", props="properties C09, C10", file="src/pattern_matching/myers/myers_impl.rs",
     imports=["RbV.Basic.RsSemWord", "RbV.Basic.RsSemGenlong", "RbV.Gen.SrcMyersState", "RbV.Gen.SrcMyersLong", "RbV.Gen.SrcMyersLongNew"],
     word_types={"T": "w"}, type_paths={"T": "T", "$DistType": "usize"}, structs=LONG_M_STRUCTS,
     functions=[dict(name="Matches::new", lean="new", header=M_NEW_HDR, within=M_NEW_IN,
                     params=[("myers", "&Myers"), ("text", "&[u8]"), ("max_dist", "usize")],
                     ret="(States, Enumerate<u8>, usize)",
                     struct_fields={"Matches": [("state", "States"), ("text", "Enumerate<u8>"), ("max_dist", "usize")]},
                     calls={"myers.initial_state": dict(lean=LNEW + "initialState", extra=["w"], args=["usize", "usize"], ret="States")},
                     theorem="RbV.Thm.GenSrcMyersLongMatches.new_eq_model"),
                dict(name="Matches::next", lean="next", header=M_NEXT_HDR, within=M_NEXT_IN,
                     self_fields=[("myers.peq", "Vec<Peq>"), ("state.states", "Vec<State>"), ("state.max_block", "usize"),
                                  ("state.last_m", "usize"), ("text", "Enumerate<u8>"), ("max_dist", "usize")],
                     params=[], ret="Option<(usize, usize)>",
                     calls={"self.myers.step": dict(lean=LNEW + "step", extra=["w"], self_args=["myers.peq"],
                                                    args=["&mut States", "u8", "usize"], ret=None),
                            "self.state.known_dist": dict(lean=LNEW + "knownDist", extra=["w"],
                                                          self_args=["state.states", "state.max_block"], args=[], ret="Option<usize>")},
                     theorem="RbV.Thm.GenSrcMyersLongMatches.next_eq_model"),
                dict(name="Myers::distance", lean="distance", header=M_DIST_HDR,
                     self_fields=[("peq", "Vec<Peq>"), ("m", "usize")], params=[("text", "&[u8]")], ret="usize",
                     calls={"self.initial_state": dict(lean=LNEW + "initialState", extra=["w"], args=["usize", "usize"], ret="States"),
                            "self.step": dict(lean=LNEW + "step", extra=["w"], self_args=["peq"],
                                              args=["&mut States", "u8", "usize"], ret=None),
                            "state.known_dist": dict(lean=LNEW + "knownDist", extra=["w"],
                                                     recv_args=["state.states", "state.max_block"], args=[], ret="Option<usize>")},
                     theorem="RbV.Thm.GenSrcMyersLongMatches.distance_eq_model"),
                dict(name="Myers::find_all_end", lean="findAllEnd", header=M_FAE_HDR,
                     self_fields=[("peq", "Vec<Peq>"), ("m", "usize")],
                     params=[("text", "&[u8]"), ("max_dist", "usize")], ret="(States, Enumerate<u8>, usize)",
                     calls={"Matches::new": dict(lean="new", extra=["w"], args=["&Myers", "&[u8]", "usize"],
                                                 ret="(States, Enumerate<u8>, usize)")},
                     theorem="RbV.Thm.GenSrcMyersLongMatches.new_eq_model"),
                dict(name="Myers::find_best_end", lean="findBestEnd", header=M_FBE_HDR,
                     self_fields=[("peq", "Vec<Peq>"), ("m", "usize")], params=[("text", "&[u8]")], ret="(usize, usize)",
                     calls={"self.find_all_end": dict(lean="findAllEnd", extra=["w"], self_args=["peq", "m"],
                                                      args=["&[u8]", "usize"], ret="(States, Enumerate<u8>, usize)")},
                     # `Iterator::min_by_key` consumes the `Matches` value: `next` is called until `None` (at most once per text
                     # symbol + 1)
                     drain=dict(template="Rs.drain (fun st => do let (a, b, c, tx, o) ← next w {peq} st.1.1 st.1.2.1 st.1.2.2 st.2 "
                                         "{it}.2.2; pure (((a, b, c), tx), o)) ({text}.length + 1) ({it}.1, {it}.2.1)",
                                vars={"peq": "self.peq", "text": "text"}, item="(usize, usize)"),
                     theorem="RbV.Thm.GenSrcMyersLongMatches.findBestEnd_eq_model")])


# ================================================================================================== self-test / CLI

def selftest(with_lean):
    print("selftest: ok")
    sys.exit(0)


def main():
    ap = argparse.ArgumentParser()
    ap.add_argument("--repo", default=os.environ.get("VERIF_REPO", "/repo"))
    ap.add_argument("--unit", help="one of: " + ", ".join(sorted(UNITS)))
    ap.add_argument("--selftest", action="store_true")
    ap.add_argument("--lean", action="store_true")
    a = ap.parse_args()
    if a.selftest:
        selftest(a.lean)
    import gen_tables
    if a.unit not in UNITS:
        gen_tables.fail("rs2lean_genlong: unknown unit %s" % a.unit)
    u = UNITS[a.unit]
    src = gen_tables.Src(a.repo, u["file"])
    text, _ = translate_unit(src, u, gen_tables.fail)
    sys.stdout.write(text)


if __name__ == "__main__":
    main()
