#!/usr/bin/env python3
"""Rust -> Lean translator, module of builder genlong: the rest of the Myers matchers (properties C09, C10).

Built on `tools/rs2lean_pm.py` (units `SrcMyersState`, `SrcMyersSimple`, `SrcMyersMatches`, `SrcMyersLong` of builder genukk): the
classes `ParserL` / `FnL` below subclass its `Parser` / `FnTranslator`; `translate_unit` of this module runs pm's `translate_unit`
with the two subclasses in place (pm's module is not edited and its own units keep their exact output).  Semantics of the
additional operations: `lean/RbV/Basic/RsSemGenlong.lean`.  docs/notes/GEN.md, section "Block-based Myers end to end, constructors,
traceback (genlong)", is the reference.

What the subclasses add to the subset of rs2lean_pm.py
  glue         a unit function whose body is a single call without `;` (`state.step(a, &self.peq, max_dist)`), method calls on a
               struct **parameter** or on a **local struct value** (`recv_args` / `recv_outs` in the `calls` entry: the fields of the
               receiver the callee reads / assigns), `let mut s = S { .. };` for a struct `S` of the spec (`local_structs`): the
               value is held field by field (`s.f`), `s` as the returned value is the tuple of its fields, `vec![]`,
               `<$DistType>::max_value()` (= `$DistType::max_value()`), `let mut state = self.initial_state(..)` (a local of
               struct type from a translated call), `std::cmp::min/max` as in pm
  consumers    `it.min_by_key(|&(_, dist)| dist).unwrap()` on the iterator a translated `find_all_end` returns: `Rs.drain` of the
               translated `next` (spec `drains`: the `next` function, its fuel) followed by `Rs.minByKeySnd` (first minimum) and
               `Rs.expect`
  constructors `for (i, symbol) in pattern.enumerate()`, `for chunk in pattern.chunks(w).into_iter()` (spec `chunked`),
               `if let Some(x) = opt`, `opt_ambigs.and_then(|ambigs| ambigs.get(&symbol))` on an `Option<&HashMap<u8, Vec<u8>>>`
               (`Rs.hmGet` on the entry list of the map), `peq[symbol as usize] |= mask`, `T::one() << i` with a variable shift
               amount, `T::DistType::from_usize(x).unwrap()`, `size_of::<T>() * 8`
  traceback    see the section "traceback" of the unit specs below.
"""
import sys, os, re, argparse

sys.path.insert(0, os.path.dirname(os.path.abspath(__file__)))
import rs2lean_pm as pm

Unsupported, N, Code, Var = pm.Unsupported, pm.N, pm.Code, pm.Var
TInt, TWord, TBool, TUnit, TSeq, TTuple, TStruct, TOption, TIter = (pm.TInt, pm.TWord, pm.TBool, pm.TUnit, pm.TSeq, pm.TTuple,
                                                                  pm.TStruct, pm.TOption, pm.TIter)
atom, tuple_pat, tuple_val = pm.atom, pm.tuple_pat, pm.tuple_val
_BaseParser, _BaseFn = pm.Parser, pm.FnTranslator      # (the module attributes are swapped while a unit of this module is translated)


class TRevCyc(pm.Ty):
    """the column reader `Chain<Rev<Iter>, Cycle<Rev<Iter>>>` of the traceback handlers: `Rs.RevCyc elem`"""

    def __init__(self, elem):
        self.elem = elem

    def lean(self):
        return "Rs.RevCyc " + pm.paren_ty(self.elem.lean())

    def __eq__(self, o):
        return isinstance(o, TRevCyc) and o.elem == self.elem

    def __repr__(self):
        return "RevCyc<%r>" % (self.elem,)


# ================================================================================================== parser

class ParserL(_BaseParser):
    def primary(self, no_struct):
        x = self.peek()
        if x.kind == "op" and x.text == "<" and self.peek(1).kind == "id" and self.at(">", 2) and self.at("::", 3):
            # `<$DistType>::max_value()`: a qualified path whose type is a single name = `$DistType::max_value()`
            del self.t[self.i + 2]
            del self.t[self.i]
            return _BaseParser.primary(self, no_struct)
        if x.kind == "id" and x.text == "size_of" and self.at("::", 1) and self.at("<", 2) and self.peek(3).kind == "id" \
                and self.at(">", 4) and self.at("(", 5) and self.at(")", 6):
            # `size_of::<T>()`: the size of the word type in bytes
            targ = self.peek(3).text
            for _ in range(7):
                self.next()
            return N("sizeof", x.pos, targ=targ)
        return _BaseParser.primary(self, no_struct)

    def stmt(self):
        x = self.peek()
        # `use path::*;` inside a function body (name resolution only) and `#[attr]` on a statement are skipped
        if x.kind == "id" and x.text == "use":
            while not self.at(";"):
                if self.peek().kind == "eof":
                    raise Unsupported("`use` without `;`", x.pos)
                self.next()
            self.next()
            return self.stmt()
        if x.kind == "op" and x.text == "#" and self.at("[", 1):
            depth = 0
            self.next()
            while True:
                t = self.next()
                if t.kind == "eof":
                    raise Unsupported("unbalanced attribute", x.pos)
                if t.text == "[":
                    depth += 1
                elif t.text == "]":
                    depth -= 1
                    if depth == 0:
                        break
            return self.stmt()
        # `let x;` (deferred initialisation; Rust guarantees a definite assignment before every use)
        if x.kind == "id" and x.text == "let" and self.peek(1).kind == "id" and self.at(";", 2):
            self.next()
            nm = self.next()
            self.next()
            return N("let", x.pos, pat=N("pid", nm.pos, name=nm.text, mut=True), ty=None, init=None)
        return _BaseParser.stmt(self)

    def body(self):
        return desugar_block(_BaseParser.body(self), [0])

    def args(self):
        # `|&(_, dist)| dist` as the only argument (the key closure of `min_by_key`): second component of the pair
        if self.at("(") and self.at("|", 1) and self.at("&", 2) and self.at("(", 3) and self.at("_", 4) and self.at(",", 5) \
                and self.peek(6).kind == "id" and self.at(")", 7) and self.at("|", 8) and self.peek(9).kind == "id" \
                and self.peek(9).text == self.peek(6).text and self.at(")", 10):
            p0 = self.peek(1)
            for _ in range(11):
                self.next()
            return [N("sndclosure", p0.pos)]
        # `|ambigs| ambigs.get(&symbol)` as the only argument (of `Option::and_then`): look-up in the map the option holds
        if self.at("(") and self.at("|", 1) and self.peek(2).kind == "id" and self.at("|", 3) and self.peek(4).kind == "id" \
                and self.peek(4).text == self.peek(2).text and self.at(".", 5) and self.at("get", 6) and self.at("(", 7):
            p0 = self.peek(1)
            for _ in range(8):
                self.next()
            key = self.expr()
            self.expect(")")
            self.expect(")")
            return [N("getclosure", p0.pos, key=key)]
        # `|b| *b.borrow()` as the only argument (of `Iterator::map`): the identity on bytes
        if self.at("(") and self.at("|", 1) and self.peek(2).kind == "id" and self.at("|", 3) and self.at("*", 4) \
                and self.peek(5).kind == "id" and self.peek(5).text == self.peek(2).text and self.at(".", 6) \
                and self.at("borrow", 7) and self.at("(", 8) and self.at(")", 9) and self.at(")", 10):
            p0 = self.peek(1)
            for _ in range(11):
                self.next()
            return [N("derefclosure", p0.pos)]
        return _BaseParser.args(self)


def _ends_in_break(b):
    return b is not None and b.kind == "block" and b.tail is None and b.stmts and b.stmts[-1].kind == "break"


def _has_break(n):
    return pm.contains_kind(n, ("break",), stop=pm.LOOP_KINDS)


def _replace_breaks(e, flag):
    """`e`: an `if` chain; a branch that ends in `break` ends in `flag = true` instead.  Any other position of a `break` is refused."""
    for attr in ("then", "els"):
        b = getattr(e, attr)
        if b is None:
            continue
        if b.kind == "block" and not b.stmts and b.tail is not None and b.tail.kind == "if":
            _replace_breaks(b.tail, flag)
            continue
        if _ends_in_break(b):
            brk = b.stmts[-1]
            b.stmts[-1] = N("assign", brk.pos, lhs=N("var", brk.pos, name=flag), op=None, rhs=N("blit", brk.pos, v=True))
        if _has_break(b):
            raise Unsupported("`break` that is not the last statement of a branch of the never-looping `loop`", b.pos)


def desugar_block(b, counter):
    """syntactic desugarings (semantics preserving) applied to every block after parsing:
    * the goto emulation `loop { S1; ..; Sn; break; }` (clippy: never_loop) where other `break`s only end branches of `if` chains:
      `let mut brkK = false; S1'; if !brkK { S2'; .. }` with `break` = `brkK = true` — the statements after a taken `break` are skipped;
    * `if let Some(o) = X.as_mut() { o.push(e); }` = the statement kind `optpush` (X: `Option<&mut Vec<_>>`);
    * `let x = &mut x;` (re-borrow under the same name) is dropped."""
    if b is None or not isinstance(b, N):
        return b
    if b.kind == "if":
        b.then = desugar_block(b.then, counter)
        b.els = desugar_block(b.els, counter)
        return b
    if b.kind != "block":
        return b
    out = []
    for st in b.stmts:
        k = st.kind
        if k in ("while", "for", "loop"):
            st.body = desugar_block(st.body, counter)
        if k in ("ifs", "tail") and isinstance(st.e, N) and st.e.kind == "if":
            desugar_block(st.e, counter)
        if k == "match":
            st.arms = [(pat, desugar_block(blk, counter), pos) for pat, blk, pos in st.arms]
            sc = st.scrut
            if (sc.kind == "mcall" and sc.name == "as_mut" and not sc.args and sc.recv.kind == "var" and len(st.arms) == 2
                    and st.arms[0][0][0] == "some" and st.arms[1][0][0] == "none" and not st.arms[1][1].stmts
                    and st.arms[1][1].tail is None and st.arms[0][1].tail is None and len(st.arms[0][1].stmts) == 1):
                inner = st.arms[0][1].stmts[0]
                if (inner.kind == "exprs" and inner.e.kind == "mcall" and inner.e.name == "push" and len(inner.e.args) == 1
                        and inner.e.recv.kind == "var" and inner.e.recv.name == st.arms[0][0][1]):
                    out.append(N("optpush", st.pos, target=sc.recv, value=inner.e.args[0]))
                    continue
        if k == "let" and st.init is not None and st.pat.kind == "pid" and st.ty is None and st.init.kind == "un" \
                and st.init.op in ("&", "&mut") and st.init.e.kind == "var" and st.init.e.name == st.pat.name:
            continue          # `let x = &mut x;`: re-borrow under the same name (references are transparent)
        if k == "loop" and _ends_in_break(st.body) and not pm.contains_kind(st.body, ("return",)):
            counter[0] += 1
            flag = "brk%d" % counter[0]
            body = st.body.stmts[:-1]
            new = [N("let", st.pos, pat=N("pid", st.pos, name=flag, mut=True), ty=None, init=N("blit", st.pos, v=False))]
            rest = list(body)
            cur = new
            while rest:
                x = rest.pop(0)
                if _has_break(x):
                    if x.kind != "ifs":
                        raise Unsupported("`break` outside an `if` chain in the never-looping `loop`", x.pos)
                    _replace_breaks(x.e, flag)
                    cur.append(x)
                    if rest:
                        guard = N("block", x.pos, stmts=[], tail=None)
                        cur.append(N("ifs", x.pos, e=N("if", x.pos, cond=N("un", x.pos, op="!", e=N("var", x.pos, name=flag)),
                                                    then=guard, els=None)))
                        cur = guard.stmts
                else:
                    cur.append(x)
            out.extend(new)
            continue
        out.append(st)
    b.stmts = out
    if b.tail is not None and isinstance(b.tail, N) and b.tail.kind == "if":
        desugar_block(b.tail, counter)
    return b


# ================================================================================================== translator

class FnL(_BaseFn):
    def __init__(self, unit, fspec, src, body_text, body_pos):
        _BaseFn.__init__(self, unit, fspec, src, body_text, body_pos)
        self.local_struct_roots = {}      # rust name of a local held field by field -> struct name

    # ---- receivers: struct parameters and local struct values -------------------------------------------------------
    def recv_key(self, e):
        """key in `calls` of the method call `e`, or None: pm's `method_key` (self / struct parameter / self.a.b) or a call on
        a local variable of struct type (`state.known_dist()` with `state` a local: key "state.known_dist")"""
        k = pm.method_key(e)
        if k is not None and k in self.calls:
            return k
        r = e.recv
        if r.kind == "var" and (r.name + "." + e.name) in self.calls:
            return r.name + "." + e.name
        return None

    def resolve_var(self, a):
        """the variable that holds (the struct containing) the receiver field `a`: the longest prefix of the path that is declared"""
        parts = a.split(".")
        for k in range(len(parts), 0, -1):
            cand = ".".join(parts[:k])
            if any(cand in sc for sc in self.scopes):
                return cand
        return parts[0]

    def recv_lookup(self, name, code, node):
        """lean text of the receiver field `root.f`"""
        root, fld = name.rsplit(".", 1)
        for sc in reversed(self.scopes):
            if name in sc:
                return sc[name].lean
        v = self.lookup(root, node)
        if isinstance(v.ty, TStruct) and fld in v.ty.fields:
            return "%s%s" % (atom(v.lean), v.ty.proj(fld))
        self.err("receiver field `%s` is not known" % name, node)

    def struct_call(self, key, f, args, code, node, as_stmt=False):
        if not (f.get("recv_outs") or any("." in a and not any(a in sc for sc in self.scopes) for a in f.get("recv_args", []))):
            return _BaseFn.struct_call(self, key, f, args, code, node, as_stmt)
        # a method of a struct value held in a local variable / in per-field variables: pass `recv_args`, get `recv_outs` back
        if len(f["args"]) != len(args):
            self.err("`%s` called with %d arguments, the spec says %d" % (key, len(args), len(f["args"])), node)
        parts = list(f.get("extra", []))
        parts += [atom(self.recv_lookup(a, code, node)) for a in f.get("recv_args", [])]
        parts += [self.lookup("self." + a, node).lean for a in f.get("self_args", [])]
        outs, posts = [], []
        whole = None
        for a in f.get("recv_outs", []):
            root, fld = a.rsplit(".", 1)
            if any(a in sc for sc in self.scopes):
                outs.append(self.lookup(a, node).lean)
            else:
                v = self.lookup(root, node)
                if not (isinstance(v.ty, TStruct) and fld in v.ty.fields):
                    self.err("receiver field `%s` is not known" % a, node)
                if whole is None:
                    names = [self.tmp() for _ in v.ty.fields]
                    code.let(tuple_pat(names), v.lean)
                    whole = (v, names)
                t = self.tmp()
                whole[1][v.ty.fields.index(fld)] = t
                outs.append(t)
        if whole is not None:
            v, names = whole
            posts.append(lambda c: c.let(v.lean, tuple_val(names)))
        for a, at in zip(args, f["args"]):
            sname = self.struct_of(at)
            if sname is not None:
                ins, o, post = self.struct_arg(a, sname, at.replace(" ", "").startswith("&mut"), code, node)
                parts += ins
                outs += o
                if post is not None:
                    posts.append(post)
                continue
            want = self.ty_of_text(at)
            s_, t_ = self.expr(a, code, want)
            if t_ != want:
                self.err("argument of `%s` has type %r, the spec says %r" % (key, t_, want), a)
            parts.append(atom(s_))
        ret = self.ty_of_text(f["ret"]) if f.get("ret") else None
        call = f["lean"] + "".join(" " + p for p in parts)
        if ret is None:
            if not as_stmt:
                self.err("`%s` returns no value" % key, node)
            code.bind(tuple_pat(outs) if outs else "_", ("call", call))
            for post in posts:
                post(code)
            return None, TUnit()
        t = self.tmp() if not as_stmt else "_"
        code.bind(tuple_pat(outs + [t]), ("call", call))
        for post in posts:
            post(code)
        return t, ret

    def _call_assigned(self, ckey, args, decl, out):
        _BaseFn._call_assigned(self, ckey, args, decl, out)
        for a in self.calls[ckey].get("recv_outs", []):
            nm = self.resolve_var(a)
            if nm not in decl and nm.split(".")[0] not in decl and nm not in out:
                out.append(nm)

    def _assigned(self, n, decl, out):
        if n.kind == "optpush":
            r = self._lhs_root(n.target)
            if r not in decl and r not in out:
                out.append(r)
            return
        if n.kind == "if":
            self._expr_calls_assigned(n.cond, decl, out)      # a `&mut self` call in a condition (pm looks at the branches only)
        if n.kind == "while":
            self._expr_calls_assigned(n.cond, decl, out)
        if n.kind == "let" and n.init is None:
            return
        if n.kind == "exprs" and n.e.kind == "mcall" and n.e.name == "insert" and len(n.e.args) == 2 \
                and pm.self_path(n.e.recv) is not None:
            r = pm.self_path(n.e.recv)
            if r not in decl and r not in out:
                out.append(r)
            return
        if n.kind == "exprs" and n.e.kind == "mcall" and self.recv_key(n.e) is not None:
            return self._call_assigned(self.recv_key(n.e), n.e.args, decl, out)
        return _BaseFn._assigned(self, n, decl, out)

    def _expr_calls_assigned(self, e, decl, out):
        _BaseFn._expr_calls_assigned(self, e, decl, out)
        for x in pm.all_nodes(e):
            r = None
            if x.kind == "mcall" and x.name == "next" and not x.args and x.recv.kind in ("var", "field"):
                r = self._lhs_root(x.recv)
            if x.kind == "call" and x.path == ["replace"] and len(x.args) == 2 and x.args[0].kind == "un":
                r = self._lhs_root(x.args[0].e)
            if r is not None and r not in decl and r not in out and r.split(".")[0] not in decl:
                out.append(r)
        for x in pm.all_nodes(e):
            if x.kind == "mcall" and pm.method_key(x) not in self.calls and self.recv_key(x) is not None:
                self._call_assigned(self.recv_key(x), x.args, decl, out)

    def _reads(self, n, out):
        if isinstance(n, N) and n.kind == "mcall" and pm.method_key(n) not in self.calls and self.recv_key(n) is not None:
            f = self.calls[self.recv_key(n)]
            for a in f.get("self_args", []):
                if "self." + a not in out:
                    out.append("self." + a)
            for a in f.get("recv_args", []):
                nm = self.resolve_var(a)
                if nm not in out:
                    out.append(nm)
            for a in n.args:
                self._reads(a, out)
            return
        if isinstance(n, N) and n.kind == "var" and n.name in self.local_struct_roots:
            for f, _ in self.structs[self.local_struct_roots[n.name]]:
                if "%s.%s" % (n.name, f) not in out:
                    out.append("%s.%s" % (n.name, f))
            return
        return _BaseFn._reads(self, n, out)

    def struct_arg(self, arg, sname, mutable, code, node):
        a = arg
        while a.kind == "paren" or (a.kind == "un" and a.op in ("&", "&mut")):
            a = a.e
        if a.kind == "var" and a.name == "self" and not mutable:
            # `Matches::new(self, ..)`: the receiver itself as a `&S` argument = its fields (parameters of this function)
            return [self.lookup("self." + f, node).lean for f, _ in self.structs[sname]], [], None
        return _BaseFn.struct_arg(self, arg, sname, mutable, code, node)

    def mcall(self, e, code, expected):
        if e.name == "unwrap" and not e.args and e.recv.kind == "mcall" and e.recv.name == "min_by_key" \
                and len(e.recv.args) == 1 and e.recv.args[0].kind == "sndclosure":
            # `it.min_by_key(|&(_, d)| d).unwrap()` on the iterator value a translated `find_all_end` returns: the items are
            # what calling the translated `next` until `None` yields (`Rs.drain`, template and fuel from the spec `drain`)
            d = self.spec.get("drain")
            if d is None:
                self.err("`min_by_key` on an iterator the spec does not say how to drain", e)
            it, itt = self.expr(e.recv.recv, code)
            if not isinstance(itt, TTuple):
                self.err("`min_by_key` on a value of type %r" % (itt,), e)
            t1 = self.tmp()
            code.bind(t1, ("call", d["template"].format(it=atom(it),
                                                      **{k_: self.lookup(v_, e).lean for k_, v_ in d.get("vars", {}).items()})))
            t2 = self.tmp()
            code.bind(t2, ("call", "Rs.expect (Rs.minByKeySnd %s)" % t1))
            return t2, self.ty_of_text(d["item"])
        if e.name == "count_ones" and not e.args:
            x, xt = self.expr(e.recv, code)
            if not isinstance(xt, TInt) or xt.signed:
                self.err("`.count_ones()` on %r" % (xt,), e)
            return "Rs.popcountW %s %s" % (xt.w, atom(x)), TInt("u32")
        if e.name == "chain" and len(e.args) == 1:
            # `xs[..=pos].iter().rev().chain(xs.iter().rev().cycle())`
            a, b = e.recv, e.args[0]
            ok = (a.kind == "mcall" and a.name == "rev" and a.recv.kind == "mcall" and a.recv.name == "iter"
                  and a.recv.recv.kind == "index" and a.recv.recv.idx.kind == "range" and a.recv.recv.idx.lo is None
                  and a.recv.recv.idx.incl and b.kind == "mcall" and b.name == "cycle" and b.recv.kind == "mcall"
                  and b.recv.name == "rev" and b.recv.recv.kind == "mcall" and b.recv.recv.name == "iter")
            if not ok:
                self.err("`.chain(..)` other than `xs[..=pos].iter().rev().chain(xs.iter().rev().cycle())`", e)
            x1, t1 = self.expr(a.recv.recv.base, code)
            x2, t2 = self.expr(b.recv.recv.recv, code)
            if x1 != x2 or not isinstance(t1, TSeq):
                self.err("`.chain(..)`: the two parts do not read the same slice", e)
            ps, pt = self.expr(a.recv.recv.idx.hi, code, TInt("usize"))
            if pt != TInt("usize"):
                self.err("slice bound of type %r" % (pt,), e)
            t = self.tmp()
            code.bind(t, ("call", "Rs.rcNew %s %s" % (atom(x1), atom(ps))))
            return t, TRevCyc(t1.elem)
        if e.name == "and_then" and len(e.args) == 1 and e.args[0].kind == "getclosure":
            # `opt.and_then(|m| m.get(&k))` on an `Option<&HashMap<K, Vec<V>>>`
            r, rt = self.expr(e.recv, code)
            if not (isinstance(rt, TOption) and isinstance(rt.elem, TSeq) and isinstance(rt.elem.elem, TTuple)
                    and len(rt.elem.elem.items) == 2):
                self.err("`.and_then(|m| m.get(..))` on %r" % (rt,), e)
            k_, kt = self.expr(e.args[0].key, code, rt.elem.elem.items[0])
            if kt != rt.elem.elem.items[0]:
                self.err("`HashMap::get` with a key of type %r" % (kt,), e)
            return "%s.bind (fun m => Rs.hmGet m %s)" % (atom(r), atom(k_)), TOption(rt.elem.elem.items[1])
        if e.name == "collect" and not e.args and e.recv.kind == "mcall" and e.recv.name == "chain" and len(e.recv.args) == 1 \
                and e.recv.args[0].kind == "call" and e.recv.args[0].path == ["Some"] and e.recv.recv.kind == "mcall" \
                and e.recv.recv.name == "map" and len(e.recv.recv.args) == 1 and e.recv.recv.args[0].kind == "derefclosure":
            # `xs.into_iter().map(|b| *b.borrow()).chain(Some(y)).collect()`: the items of `xs`, then `y`
            xs, xt = self.expr(e.recv.recv.recv, code)
            if not isinstance(xt, TSeq):
                self.err("`.map(|b| *b.borrow())` on %r" % (xt,), e)
            y, yt = self.expr(e.recv.args[0].args[0], code, xt.elem)
            if yt != xt.elem:
                self.err("`.chain(Some(%r))` on items of type %r" % (yt, xt.elem), e)
            return "%s ++ [%s]" % (atom(xs), y), xt
        k = self.recv_key(e)
        if k is not None and (pm.method_key(e) not in self.calls):
            return self.struct_call(k, self.calls[k], e.args, code, e)
        if k is not None and (self.calls[k].get("recv_outs") or self.calls[k].get("recv_args")):
            return self.struct_call(k, self.calls[k], e.args, code, e)
        return _BaseFn.mcall(self, e, code, expected)

    def expr_stmt(self, e, code):
        if e.kind == "mcall" and e.name == "insert" and len(e.args) == 2 and pm.self_path(e.recv) is not None:
            v = self.lookup(pm.self_path(e.recv), e)
            if isinstance(v.ty, TSeq) and isinstance(v.ty.elem, TTuple) and len(v.ty.elem.items) == 2:
                # `self.map.insert(k, v)` on a `HashMap` (the returned old value is dropped)
                k_, kt = self.expr(e.args[0], code, v.ty.elem.items[0])
                x_, xt = self.expr(e.args[1], code, v.ty.elem.items[1])
                if kt != v.ty.elem.items[0] or xt != v.ty.elem.items[1]:
                    self.err("`HashMap::insert` of (%r, %r) into %r" % (kt, xt, v.ty), e)
                code.let(v.lean, "Rs.hmInsert %s %s %s" % (atom(v.lean), atom(k_), atom(x_)))
                return
        if e.kind == "mcall" and self.recv_key(e) is not None:
            self.struct_call(self.recv_key(e), self.calls[self.recv_key(e)], e.args, code, e, as_stmt=True)
            return
        return _BaseFn.expr_stmt(self, e, code)

    # ---- local struct values held field by field ---------------------------------------------------------------------
    def let(self, s, code):
        if s.init is None:
            # `let x;`: the type comes from the spec (`locals`); the Lean variable starts with the spec's filler value, which is
            # never read (definite initialisation is checked by rustc)
            t = self.declared_type(s.pat.name, None, s)
            if t is None or s.pat.name not in self.spec.get("deferred", {}):
                self.err("`let %s;` without a type / filler in the spec (`locals`, `deferred`)" % s.pat.name, s)
            v = self.declare(s.pat.name, t, s, mutable=True)
            code.let(v.lean, self.spec["deferred"][s.pat.name])
            return
        if s.pat.kind == "pid" and s.init.kind in ("mcall", "call") and s.pat.name in self.spec.get("local_struct_vars", {}):
            # `let mut h = <translated call returning a struct>`: held field by field (`h.f`)
            sname = self.spec["local_struct_vars"][s.pat.name]
            val, t = self.expr(s.init, code, None)
            if t != self.ty_of_text(sname):
                self.err("`let %s`: initialiser has type %r, the spec says %s" % (s.pat.name, t, sname), s)
            vs = [self.declare("%s.%s" % (s.pat.name, f), self.ty_of_text(ft), s, mutable=True) for f, ft in self.structs[sname]]
            code.let(tuple_pat([v.lean for v in vs]), val)
            self.local_struct_roots[s.pat.name] = sname
            pm.STRUCT_ROOTS.add(s.pat.name)
            return
        if s.pat.kind == "pid" and s.init.kind == "struct" and s.init.name in self.spec.get("local_structs", []):
            sname = s.init.name
            want = self.structs[sname]
            if [f for f, _ in s.init.fields] != [f for f, _ in want]:
                self.err("struct literal `%s` has fields %s, the spec expects %s in this order"
                         % (sname, ",".join(f for f, _ in s.init.fields), ",".join(f for f, _ in want)), s)
            vals = []
            for (f, x), (_, ft) in zip(s.init.fields, want):
                wty = self.ty_of_text(ft)
                v_, t_ = self.expr(x, code, wty)
                if t_ != wty:
                    self.err("field `%s` of `%s` has type %r, the spec says %r" % (f, sname, t_, wty), x)
                vals.append((f, v_, t_))
            for f, v_, t_ in vals:
                v = self.declare("%s.%s" % (s.pat.name, f), t_, s, mutable=True)
                code.let(v.lean, v_)
            self.local_struct_roots[s.pat.name] = sname
            pm.STRUCT_ROOTS.add(s.pat.name)
            return
        return _BaseFn.let(self, s, code)

    def iter_next(self, it_expr, code, node):
        """`it.next()` on a `RevCyc` variable / `self` field: the iterator is advanced (the variable re-bound); returns the
        lean name of the `Option` drawn and the element type"""
        root = self._lhs_root(it_expr)
        v = self.lookup(root, node)
        if not isinstance(v.ty, TRevCyc):
            self.err("`.next()` on %r" % (v.ty,), node)
        o = self.tmp()
        code.let("(%s, %s)" % (o, v.lean), "Rs.rcNext %s" % v.lean)
        return o, v.ty.elem

    def expr(self, e, code, expected=None):
        acc = self.spec.get("accessors", {})
        if e.kind == "mcall" and not e.args and e.name in acc and e.recv.kind == "var" and e.recv.name in self.local_struct_roots:
            # a getter of the spec (`h.block()` = `&h.state`): the field itself
            return self.expr(N("field", e.pos, e=e.recv, name=acc[e.name]), code, expected)
        if e.kind == "var" and e.name in self.spec.get("constants", {}) and not any(e.name in sc for sc in self.scopes):
            val, ty = self.spec["constants"][e.name]
            return val, self.ty_of_text(ty)
        if e.kind == "field":
            pth = pm.self_path(e)
            if not (pth is not None and any(pth in sc for sc in self.scopes)) and not (e.e.kind == "var" and e.e.name == "self"):
                b, bt = self.expr(e.e, code)
                if isinstance(bt, TStruct) and e.name in bt.fields:
                    return "%s%s" % (atom(b), bt.proj(e.name)), bt.items[bt.fields.index(e.name)]
        if e.kind == "un" and e.op == "*" and e.e.kind == "mcall" and e.e.name == "unwrap" and not e.e.args \
                and e.e.recv.kind == "mcall" and e.e.recv.name == "next" and not e.e.recv.args:
            o, et = self.iter_next(e.e.recv.recv, code, e)
            t = self.tmp()
            code.bind(t, ("call", "Rs.expect %s" % o))
            return t, et
        if e.kind == "struct":
            e.fields = [(f, x) for f, x in e.fields if not (x.kind == "var" and x.name == "PhantomData")]
        if e.kind == "field" and e.e.kind in ("field", "mcall", "call") and pm.self_path(e) is None:
            b, bt = self.expr(e.e, code)
            if isinstance(bt, TStruct) and e.name in bt.fields:
                return "%s%s" % (atom(b), bt.proj(e.name)), bt.items[bt.fields.index(e.name)]
        if e.kind == "sizeof":
            if e.targ not in self.word_types:
                self.err("`size_of::<%s>()` of a type the spec does not know" % e.targ, e)
            return "(%s / 8)" % self.word_types[e.targ], TInt("usize")
        if e.kind == "var" and e.name in self.local_struct_roots and not any(e.name in sc for sc in self.scopes):
            sname = self.local_struct_roots[e.name]
            vs = [self.lookup("%s.%s" % (e.name, f), e) for f, _ in self.structs[sname]]
            return tuple_val([v.lean for v in vs]), self.ty_of_text(sname)
        return _BaseFn.expr(self, e, code, expected)

    def ty(self, t):
        if t.kind not in ("tref", "tslice", "ttuple") and t.name == "RevCyc" and len(t.args) == 1:
            return TRevCyc(self.ty(t.args[0]))
        if t.kind not in ("tref", "tslice", "ttuple") and t.name == "HashMap" and len(t.args) == 2:
            # `HashMap<K, V>`: its entry list (at most one entry per key); `get` = `Rs.hmGet`
            return TSeq(TTuple([self.ty(t.args[0]), self.ty(t.args[1])]))
        return _BaseFn.ty(self, t)

    def rename_var(self, n, old, new):
        """alpha-renaming of the loop variable `old` (no inner re-declaration of `old` is expected)"""
        if isinstance(n, N):
            if n.kind == "var" and n.name == old:
                n.name = new
            if n.kind == "let" and old in pm.pat_names(n.pat):
                self.err("re-declaration of the renamed loop variable `%s`" % old, n)
            for k, v in n.__dict__.items():
                if k not in ("kind", "pos"):
                    self.rename_var(v, old, new)
        elif isinstance(n, (list, tuple)):
            for x in n:
                self.rename_var(x, old, new)

    def for_(self, s, code):
        it = s.iter
        while it.kind == "paren":
            it = it.e
        # `for (i, x) in xs.enumerate()` on a slice's iterator = `xs.iter().enumerate()`
        if it.kind == "mcall" and it.name == "enumerate" and not it.args and it.recv.kind == "var":
            s = N("for", s.pos, pat=s.pat, body=s.body,
                  iter=N("mcall", it.pos, name="enumerate", args=[], recv=N("mcall", it.pos, name="iter", args=[], recv=it.recv)))
        # `for chunk in xs.chunks(n).into_iter()` (itertools): the groups are computed first (`Rs.itChunks`)
        src_ = it.recv if (it.kind == "mcall" and it.name == "into_iter" and not it.args) else it
        if src_.kind == "mcall" and src_.name == "chunks" and len(src_.args) == 1:
            xs, xt = self.expr(src_.recv, code)
            if not isinstance(xt, TSeq):
                self.err("`.chunks(n)` on %r" % (xt,), s)
            n_, nt = self.expr(src_.args[0], code, TInt("usize"))
            if nt != TInt("usize"):
                self.err("`.chunks(%r)`" % (nt,), s)
            t = self.tmp()
            code.bind(t, ("call", "Rs.itChunks %s %s" % (atom(xs), atom(n_))))
            key = "%%chunks%d" % self.n_tmp
            self.scopes[-1][key] = Var(key, t, TSeq(xt), False)
            s = N("for", s.pos, pat=s.pat, body=s.body, iter=N("var", it.pos, name=key))
        # a loop variable that shadows an outer variable (`for &w in wildcards` under `let w = word_size::<T>()`): renamed
        if s.pat.kind == "pid" and s.pat.name != "_" and self.spec.get("shadow_fresh") \
                and any(s.pat.name in sc for sc in self.scopes):
            new = s.pat.name + "_"
            while any(new in sc for sc in self.scopes):
                new += "_"
            self.rename_var(s.body, s.pat.name, new)
            s = N("for", s.pos, pat=N("pid", s.pat.pos, name=new, mut=False), body=s.body, iter=s.iter)
        return _BaseFn.for_(self, s, code)

    def translate(self, toks):
        # `qualified_fields`: nested `self` fields whose last component is not unique (`state.pv` / `left_state.pv`) get the
        # whole path as their Lean name (`left_state_pv`); pm names a field by its last component only
        q = set(self.spec.get("qualified_fields", []))
        if not q:
            return _BaseFn.translate(self, toks)
        old = pm.lean_name
        pm.lean_name = lambda rust: rust.replace(".", "_") if rust in q else old(rust)
        try:
            return _BaseFn.translate(self, toks)
        finally:
            pm.lean_name = old

    def call(self, e, code, expected):
        if e.path == ["replace"] and len(e.args) == 2 and e.args[0].kind == "un" and e.args[0].op == "&mut":
            # `std::mem::replace(&mut place, value)`: the old value; `place` gets `value`
            v = self.lookup(self._lhs_root(e.args[0].e), e)
            val, vt = self.expr(e.args[1], code, v.ty)
            if vt != v.ty:
                self.err("`replace` of %r by %r" % (v.ty, vt), e)
            old = self.tmp()
            code.let(old, v.lean)
            code.let(v.lean, val)
            return old, v.ty
        return _BaseFn.call(self, e, code, expected)

    def macro(self, e, code, expected):
        if e.name == "vec" and not e.args:
            if not isinstance(expected, TSeq):
                self.err("`vec![]` without a declared element type", e)
            return "[]", expected
        return _BaseFn.macro(self, e, code, expected)

    # ---- `if let Some(x) = e { .. } [else { .. }]` / `match` on an `Option` as a plain statement (no exits inside) ------------
    def stmt(self, s, code, last):
        if s.kind == "optpush":
            v = self.lookup(self._lhs_root(s.target), s)
            if not (isinstance(v.ty, TOption) and isinstance(v.ty.elem, TSeq)):
                self.err("`if let Some(o) = %s.as_mut() { o.push(..) }` on %r" % (v.rust, v.ty), s)
            x, xt = self.expr(s.value, code, v.ty.elem.elem)
            if xt != v.ty.elem.elem:
                self.err("push of %r onto %r" % (xt, v.ty), s)
            code.let(v.lean, "%s.map (fun o => o ++ [%s])" % (atom(v.lean), x))
            return
        if s.kind == "match":
            return self.match_stmt(s, code)
        return _BaseFn.stmt(self, s, code, last)

    def match_stmt(self, s, code):
        vs = self.outer_vars(self.assigned(s), s)
        sc, st = self.expr(s.scrut, code)
        if not isinstance(st, TOption):
            self.err("`match` / `if let` on a value of type %r (only `Option`)" % (st,), s)
        saved_tail = self.tail_expected
        self.tail_expected = None
        arms = []
        for pat, b, _ in s.arms:
            sub = Code()
            self.scopes.append({})
            if pat[0] == "some":
                v = self.declare(pat[1], st.elem, s, mutable=False, nested_ok=True)
                lp = "some " + v.lean
            elif pat[0] == "none":
                lp = "none"
            else:
                self.err("`match` arm other than `Some(x)` / `None`", s)
            if b.kind != "block":
                b = N("block", b.pos, stmts=[b], tail=None)
            self.block(self.unit_block(b), sub, False)
            self.scopes.pop()
            sub.final = ("pure", tuple_val([v_.lean for v_ in vs]))
            arms.append((lp, sub))
        self.tail_expected = saved_tail
        code.bind(tuple_pat([v_.lean for v_ in vs]), ("match", atom(sc), arms))

    # ---- a unit function whose body is one call without `;` ----------------------------------------------------------
    def seq(self, stmts, tail_node, code, where):
        if tail_node is not None and isinstance(self.ret, TUnit) and tail_node.kind == "var" and tail_node.name == "self":
            tail_node = None            # a builder method `-> &mut Self` that ends in `self`: the assigned fields are the result
        if tail_node is not None and isinstance(self.ret, TUnit) and tail_node.kind in ("mcall", "call"):
            stmts = list(stmts) + [N("exprs", tail_node.pos, e=tail_node)]
            tail_node = None
        return _BaseFn.seq(self, stmts, tail_node, code, where)


def translate_unit(src, unit, fail):
    """pm's `translate_unit` with the parser / translator classes of this module"""
    old = pm.Parser, pm.FnTranslator
    pm.Parser, pm.FnTranslator = ParserL, FnL
    try:
        return pm.translate_unit(src, unit, fail)
    finally:
        pm.Parser, pm.FnTranslator = old


# ================================================================================================== translation specs

UNITS = {}


def unit(**kw):
    UNITS[kw["name"]] = kw
    return kw


LONG_STRUCTS = {"State": [("pv", "T"), ("mv", "T"), ("dist", "usize")],
                "Peq": [("peq", "[T; 256]"), ("bound", "T")],
                "States": [("states", "Vec<State>"), ("max_block", "usize"), ("last_m", "usize")]}
STATES_F = ["states", "max_block", "last_m"]

# `ceil_div` of helpers.rs (used by `States::new`)
unit(name="SrcMyersHelpers", props="properties C09, C10", file="src/pattern_matching/myers/helpers.rs",
     imports=["RbV.Basic.RsSemWord"],
     functions=[dict(name="ceil_div", lean="ceilDiv", header="pub(crate) fn ceil_div(x: usize, y: usize) -> usize",
                     params=[("x", "usize"), ("y", "usize")], ret="usize",
                     theorem="RbV.Thm.GenSrcMyersLongNew.ceilDiv_eq")])

# `States::new`, `States::known_dist`, and the glue `long::Myers::step` / `initial_state` (long.rs).  `s.add_state(0)` and
# `state.step(..)` are the translated functions of genukk's unit `SrcMyersLong`.
unit(name="SrcMyersLongNew", props="properties C09, C10", file="src/pattern_matching/myers/long.rs",
     imports=["RbV.Basic.RsSemWord", "RbV.Gen.SrcMyersState", "RbV.Gen.SrcMyersLong", "RbV.Gen.SrcMyersHelpers"],
     word_types={"T": "w"}, type_paths={"T": "T"}, structs=LONG_STRUCTS, signed_arith=True,
     functions=[dict(name="States::new", lean="new", header="fn new(m: usize, max_dist: usize) -> Self",
                     within="impl<T> States<T> where T: BitVec,",
                     params=[("m", "usize"), ("max_dist", "usize")], ret="States", local_structs=["States"],
                     calls={"ceil_div": dict(lean="RbV.Gen.SrcMyersHelpers.ceilDiv", args=["usize", "usize"], ret="usize"),
                            "s.add_state": dict(lean="RbV.Gen.SrcMyersLong.addState", extra=["w"],
                                                recv_args=["s.states", "s.max_block", "s.last_m"], recv_outs=["s.states"],
                                                args=["i8"], ret=None)},
                     theorem="RbV.Thm.GenSrcMyersLongNew.new_eq_model"),
                dict(name="States::known_dist", lean="knownDist", header="fn known_dist(&self) -> Option<usize>",
                     self_fields=[("states", "Vec<State>"), ("max_block", "usize")], params=[], ret="Option<usize>",
                     theorem="RbV.Thm.GenSrcMyersLongNew.knownDist_eq_model"),
                dict(name="Myers::step", lean="step", header="fn step(&self, state: &mut States<T>, a: u8, max_dist: usize)",
                     self_fields=[("peq", "Vec<Peq>")],
                     params=[("state", "&mut States"), ("a", "u8"), ("max_dist", "usize")], ret=None,
                     calls={"state.step": dict(lean="RbV.Gen.SrcMyersLong.step", extra=["w"],
                                               recv_args=["state.states", "state.max_block", "state.last_m"],
                                               recv_outs=["state.states"], args=["u8", "&[Peq]", "usize"], ret=None)},
                     theorem="RbV.Thm.GenSrcMyersLongNew.step_eq_model"),
                dict(name="Myers::initial_state", lean="initialState",
                     header="fn initial_state(&self, m: usize, max_dist: usize) -> States<T>",
                     params=[("m", "usize"), ("max_dist", "usize")], ret="States",
                     calls={"States::new": dict(lean="new", extra=["w"], args=["usize", "usize"], ret="States")},
                     theorem="RbV.Thm.GenSrcMyersLongNew.new_eq_model")])



# `Matches::new` / `Matches::next` / `distance` / `find_best_end` exist once in the source, inside `macro_rules! impl_myers` of
# myers_impl.rs; genukk's unit `SrcMyersMatches` reads the first two at the instance of simple.rs.  This unit reads the same text at
# the instance `impl_myers!(usize, Myers<T>, long::States<T>, long::LongStatesHandler<'a>)` of long.rs: `$DistType` = `usize`,
# `myers.step` / `myers.initial_state` = the translated glue of `SrcMyersLongNew`, `state.known_dist()` = `States::known_dist`.
LONG_M_STRUCTS = dict(LONG_STRUCTS, Myers=[("peq", "Vec<Peq>"), ("m", "usize")])
M_NEW_HDR = "fn new(myers: &'a Myers<T>, text: I, max_dist: $DistType) -> Self"
M_NEW_IN = "impl<'a, T, C, I> Matches<'a, T, C, I> where T: BitVec, C: Borrow<u8>, I: Iterator<Item = C>,"
M_NEXT_HDR = "fn next(&mut self) -> Option<(usize, $DistType)>"
M_NEXT_IN = "impl<'a, T, C, I> Iterator for Matches<'a, T, C, I> where T: BitVec, C: Borrow<u8>, I: Iterator<Item = C>,"
M_DIST_HDR = "pub fn distance<C, I>(&self, text: I) -> $DistType where C: Borrow<u8>, I: IntoIterator<Item = C>,"
M_FAE_HDR = ("pub fn find_all_end<C, I>(&self, text: I, max_dist: $DistType,) -> Matches<T, C, I::IntoIter> "
             "where C: Borrow<u8>, I: IntoIterator<Item = C>,")
M_FBE_HDR = "pub fn find_best_end<C, I>(&self, text: I) -> (usize, $DistType) where C: Borrow<u8>, I: IntoIterator<Item = C>,"
LNEW = "RbV.Gen.SrcMyersLongNew."

unit(name="SrcMyersLongMatches", props="properties C09, C10", file="src/pattern_matching/myers/myers_impl.rs",
     imports=["RbV.Basic.RsSemWord", "RbV.Basic.RsSemGenlong", "RbV.Gen.SrcMyersState", "RbV.Gen.SrcMyersLong", "RbV.Gen.SrcMyersLongNew"],
     word_types={"T": "w"}, type_paths={"T": "T", "$DistType": "usize"}, structs=LONG_M_STRUCTS,
     functions=[dict(name="Matches::new", lean="new", header=M_NEW_HDR, within=M_NEW_IN,
                     params=[("myers", "&Myers"), ("text", "&[u8]"), ("max_dist", "usize")],
                     ret="(States, Enumerate<u8>, usize)",
                     struct_fields={"Matches": [("state", "States"), ("text", "Enumerate<u8>"), ("max_dist", "usize")]},
                     calls={"myers.initial_state": dict(lean=LNEW + "initialState", extra=["w"], args=["usize", "usize"], ret="States")},
                     theorem="RbV.Thm.GenSrcMyersLongMatches.new_eq_model"),
                dict(name="Matches::next", lean="next", header=M_NEXT_HDR, within=M_NEXT_IN,
                     self_fields=[("myers.peq", "Vec<Peq>"), ("state.states", "Vec<State>"), ("state.max_block", "usize"),
                                  ("state.last_m", "usize"), ("text", "Enumerate<u8>"), ("max_dist", "usize")],
                     params=[], ret="Option<(usize, usize)>",
                     calls={"self.myers.step": dict(lean=LNEW + "step", extra=["w"], self_args=["myers.peq"],
                                                    args=["&mut States", "u8", "usize"], ret=None),
                            "self.state.known_dist": dict(lean=LNEW + "knownDist", extra=["w"],
                                                          self_args=["state.states", "state.max_block"], args=[], ret="Option<usize>")},
                     theorem="RbV.Thm.GenSrcMyersLongMatches.next_eq_model"),
                dict(name="Myers::distance", lean="distance", header=M_DIST_HDR,
                     self_fields=[("peq", "Vec<Peq>"), ("m", "usize")], params=[("text", "&[u8]")], ret="usize",
                     calls={"self.initial_state": dict(lean=LNEW + "initialState", extra=["w"], args=["usize", "usize"], ret="States"),
                            "self.step": dict(lean=LNEW + "step", extra=["w"], self_args=["peq"],
                                              args=["&mut States", "u8", "usize"], ret=None),
                            "state.known_dist": dict(lean=LNEW + "knownDist", extra=["w"],
                                                     recv_args=["state.states", "state.max_block"], args=[], ret="Option<usize>")},
                     theorem="RbV.Thm.GenSrcMyersLongMatches.distance_eq_model"),
                dict(name="Myers::find_all_end", lean="findAllEnd", header=M_FAE_HDR,
                     self_fields=[("peq", "Vec<Peq>"), ("m", "usize")],
                     params=[("text", "&[u8]"), ("max_dist", "usize")], ret="(States, Enumerate<u8>, usize)",
                     calls={"Matches::new": dict(lean="new", extra=["w"], args=["&Myers", "&[u8]", "usize"],
                                                 ret="(States, Enumerate<u8>, usize)")},
                     theorem="RbV.Thm.GenSrcMyersLongMatches.new_eq_model"),
                dict(name="Myers::find_best_end", lean="findBestEnd", header=M_FBE_HDR,
                     self_fields=[("peq", "Vec<Peq>"), ("m", "usize")], params=[("text", "&[u8]")], ret="(usize, usize)",
                     calls={"self.find_all_end": dict(lean="findAllEnd", extra=["w"], self_args=["peq", "m"],
                                                      args=["&[u8]", "usize"], ret="(States, Enumerate<u8>, usize)")},
                     # `Iterator::min_by_key` consumes the `Matches` value: `next` is called until `None` (at most once per text
                     # symbol + 1)
                     drain=dict(template="Rs.drain (fun st => do let (a, b, c, tx, o) ← next w {peq} st.1.1 st.1.2.1 st.1.2.2 st.2 "
                                         "{it}.2.2; pure (((a, b, c), tx), o)) ({text}.length + 1) ({it}.1, {it}.2.1)",
                                vars={"peq": "self.peq", "text": "text"}, item="(usize, usize)"),
                     theorem="RbV.Thm.GenSrcMyersLongMatches.findBestEnd_eq_model")])



# `distance`, `find_all_end`, `find_best_end` of `impl_myers!` at the instance of simple.rs (`$DistType = T::DistType`, `$State =
# State<T, T::DistType>`); `Matches::new` / `next` at this instance are genukk's unit `SrcMyersMatches`.
SMATCH = "RbV.Gen.SrcMyersMatches."
SSIMPLE = "RbV.Gen.SrcMyersSimple."
unit(name="SrcMyersSimpleBest", props="property C09", file="src/pattern_matching/myers/myers_impl.rs",
     imports=["RbV.Basic.RsSemWord", "RbV.Basic.RsSemGenlong", "RbV.Gen.SrcMyersState", "RbV.Gen.SrcMyersSimple", "RbV.Gen.SrcMyersMatches"],
     word_types=pm.MYERS_WORDS, type_paths=dict(pm.MYERS_PATHS, **{"$DistType": "DistType"}), structs=pm.MYERS_STRUCTS,
     functions=[dict(name="Myers::distance", lean="distance", header=M_DIST_HDR,
                     self_fields=[("peq", "[T; 256]"), ("bound", "T"), ("m", "DistType")], params=[("text", "&[u8]")],
                     ret="DistType",
                     calls={"self.initial_state": dict(lean=SSIMPLE + "initialState", extra=["w", "wd"],
                                                       args=["DistType", "DistType"], ret="State"),
                            "self.step": dict(lean=SSIMPLE + "step", extra=["w", "wd"], self_args=["peq", "bound"],
                                              args=["&mut State", "u8", "DistType"], ret=None),
                            "state.known_dist": dict(lean="RbV.Gen.SrcMyersState.knownDist", extra=["w", "wd"],
                                                     recv_args=["state.dist"], args=[], ret="Option<DistType>")},
                     theorem="RbV.Thm.GenSrcMyersSimpleBest.distance_eq_model"),
                dict(name="Myers::find_all_end", lean="findAllEnd", header=M_FAE_HDR,
                     self_fields=[("peq", "[T; 256]"), ("bound", "T"), ("m", "DistType")],
                     params=[("text", "&[u8]"), ("max_dist", "DistType")], ret="(State, Enumerate<u8>, DistType)",
                     calls={"Matches::new": dict(lean=SMATCH + "new", extra=["w", "wd"], args=["&Myers", "&[u8]", "DistType"],
                                                 ret="(State, Enumerate<u8>, DistType)")},
                     theorem="RbV.Thm.GenSrcMyersSimpleBest.findAllEnd_eq_new"),
                dict(name="Myers::find_best_end", lean="findBestEnd", header=M_FBE_HDR,
                     self_fields=[("peq", "[T; 256]"), ("bound", "T"), ("m", "DistType")], params=[("text", "&[u8]")],
                     ret="(usize, DistType)",
                     calls={"self.find_all_end": dict(lean="findAllEnd", extra=["w", "wd"], self_args=["peq", "bound", "m"],
                                                      args=["&[u8]", "DistType"], ret="(State, Enumerate<u8>, DistType)")},
                     drain=dict(template="Rs.drain (fun st => do let (a, b, c, tx, o) ← " + SMATCH + "next w wd {peq} {bound} st.1.1 "
                                         "st.1.2.1 st.1.2.2 st.2 {it}.2.2; pure (((a, b, c), tx), o)) ({text}.length + 1) "
                                         "({it}.1, {it}.2.1)",
                                vars={"peq": "self.peq", "bound": "self.bound", "text": "text"}, item="(usize, DistType)"),
                     theorem="RbV.Thm.GenSrcMyersSimpleBest.findBestEnd_eq_model")])



# ---- the constructors (task 2): `Myers::new` / `new_ambig` of simple.rs and long.rs, `MyersBuilder` --------------------------
# `opt_ambigs: Option<&HashMap<u8, Vec<u8>>>` is `Option (List (Nat × List Nat))` (entry list), `opt_wildcards: Option<&[u8]>`
# `Option (List Nat)`; the pattern iterator `P: IntoIterator<Item = C>, P::IntoIter: ExactSizeIterator` is the byte slice.
NEW_HDR = ("pub fn new<P, C>(pattern: P) -> Self where C: Borrow<u8>, P: IntoIterator<Item = C>, P::IntoIter: ExactSizeIterator,")
NEW_AMBIG_HDR = ("pub(crate) fn new_ambig<P, C>(pattern: P, opt_ambigs: Option<&HashMap<u8, Vec<u8>>>, opt_wildcards: Option<&[u8]>,) "
                 "-> Self where C: Borrow<u8>, P: IntoIterator<Item = C>, P::IntoIter: ExactSizeIterator,")
NEW_AMBIG_PARAMS = [("pattern", "&[u8]"), ("opt_ambigs", "Option<&AmbMap>"), ("opt_wildcards", "Option<&[u8]>")]
AMB_ALIASES = {"ByteVec": "Vec<u8>", "AmbMap": "HashMap<u8, ByteVec>"}      # (pm's type parser does not split `>>`)
S_MYERS = [("peq", "[T; 256]"), ("bound", "T"), ("m", "DistType"), ("states_store", "Vec<State>")]
L_MYERS = [("peq", "Vec<Peq>"), ("m", "usize"), ("states_store", "Vec<State>")]

unit(name="SrcMyersSimpleNew", props="properties C09, C10", file="src/pattern_matching/myers/simple.rs",
     imports=["RbV.Basic.RsSemWord", "RbV.Basic.RsSemGenlong"], word_types=pm.MYERS_WORDS, type_paths=pm.MYERS_PATHS,
     structs=pm.MYERS_STRUCTS, aliases=AMB_ALIASES,
     functions=[dict(name="Myers::new_ambig", lean="newAmbig", header=NEW_AMBIG_HDR, params=NEW_AMBIG_PARAMS,
                     ret="([T; 256], T, DistType, Vec<State>)", struct_fields={"Myers": S_MYERS}, shadow_fresh=True),
                dict(name="Myers::new", lean="new", header=NEW_HDR, params=[("pattern", "&[u8]")],
                     ret="([T; 256], T, DistType, Vec<State>)",
                     locals={},
                     calls={"Self::new_ambig": dict(lean="newAmbig", extra=["w", "wd"],
                                                    args=["&[u8]", "Option<&AmbMap>", "Option<&[u8]>"],
                                                    ret="([T; 256], T, DistType, Vec<State>)")})])

unit(name="SrcMyersLongCtor", props="properties C09, C10", file="src/pattern_matching/myers/long.rs",
     imports=["RbV.Basic.RsSemWord", "RbV.Basic.RsSemGenlong"], word_types={"T": "w"}, type_paths={"T": "T"},
     structs=LONG_STRUCTS, aliases=AMB_ALIASES,
     functions=[dict(name="Myers::new_ambig", lean="newAmbig", header=NEW_AMBIG_HDR, params=NEW_AMBIG_PARAMS,
                     ret="(Vec<Peq>, usize, Vec<State>)", struct_fields={"Myers": L_MYERS, "Peq": LONG_STRUCTS["Peq"]},
                     locals={"peq": "Vec<Peq>", "i": "usize"}, shadow_fresh=True),      # translated; equality with `peqL` not proved yet
                dict(name="Myers::new", lean="new", header=NEW_HDR, params=[("pattern", "&[u8]")],
                     ret="(Vec<Peq>, usize, Vec<State>)",
                     calls={"Self::new_ambig": dict(lean="newAmbig", extra=["w"],
                                                    args=["&[u8]", "Option<&AmbMap>", "Option<&[u8]>"],
                                                    ret="(Vec<Peq>, usize, Vec<State>)")})])



BUILDER_F = [("ambigs", "AmbMap"), ("wildcards", "Vec<u8>")]
BUILD_HDR = ("pub fn build<T, C, P>(&self, pattern: P) -> Myers<T> where T: BitVec, C: Borrow<u8>, P: IntoIterator<Item = C>, "
             "P::IntoIter: ExactSizeIterator,")
BUILD_LONG_HDR = ("pub fn build_long<T, C, P>(&self, pattern: P) -> MyersLong<T> where T: BitVec, C: Borrow<u8>, "
                  "P: IntoIterator<Item = C>, P::IntoIter: ExactSizeIterator,")
unit(name="SrcMyersBuilder", props="properties C09, C10", file="src/pattern_matching/myers/builder.rs",
     imports=["RbV.Basic.RsSemWord", "RbV.Basic.RsSemGenlong", "RbV.Gen.SrcMyersSimpleNew", "RbV.Gen.SrcMyersLongCtor"],
     word_types=pm.MYERS_WORDS, type_paths=pm.MYERS_PATHS, structs=dict(pm.MYERS_STRUCTS, Peq=[("peq", "[T; 256]"), ("bound", "T")]),
     aliases=AMB_ALIASES,
     functions=[dict(name="MyersBuilder::ambig", lean="ambig",
                     header="pub fn ambig<I, B>(&mut self, byte: u8, equivalents: I) -> &mut Self where I: IntoIterator<Item = B>, B: Borrow<u8>,",
                     self_fields=BUILDER_F, params=[("byte", "u8"), ("equivalents", "&[u8]")], ret=None, locals={"eq": "Vec<u8>"}),
                dict(name="MyersBuilder::text_wildcard", lean="textWildcard",
                     header="pub fn text_wildcard(&mut self, wildcard: u8) -> &mut Self",
                     self_fields=BUILDER_F, params=[("wildcard", "u8")], ret=None),
                dict(name="MyersBuilder::build", lean="build", header=BUILD_HDR, self_fields=BUILDER_F,
                     params=[("pattern", "&[u8]")], ret="([T; 256], T, DistType, Vec<State>)",
                     calls={"Myers::new_ambig": dict(lean="RbV.Gen.SrcMyersSimpleNew.newAmbig", extra=["w", "wd"],
                                                     args=["&[u8]", "Option<&AmbMap>", "Option<&[u8]>"],
                                                     ret="([T; 256], T, DistType, Vec<State>)")}),
                dict(name="MyersBuilder::build_long", lean="buildLong", header=BUILD_LONG_HDR, self_fields=BUILDER_F,
                     params=[("pattern", "&[u8]")], ret="(Vec<Peq>, usize, Vec<State>)",
                     structs={"State": [("pv", "T"), ("mv", "T"), ("dist", "usize")]},
                     calls={"MyersLong::new_ambig": dict(lean="RbV.Gen.SrcMyersLongCtor.newAmbig", extra=["w"],
                                                         args=["&[u8]", "Option<&AmbMap>", "Option<&[u8]>"],
                                                         ret="(Vec<Peq>, usize, Vec<State>)")})])



# ---- traceback (task 3, first part): the cursor moves of the single-word handler ---------------------------------------------
# `State::adjust_dist`, `State::max` (myers_impl.rs) and `ShortTracebackHandler::{move_up, move_up_left, move_left_down_if_better,
# finished, pos_bitvec}`, `ShortStatesHandler::{init, set_max_state, add_state}` (simple.rs).  A handler is held field by field:
# `state` / `left_state` (`State`), `max_mask`, `pos_bitvec`, `left_mask`.  Not translated: `move_to_left` / `new` (the iterator
# chain `Rev<Iter>.chain(Cycle<..>)`), `adjust_by_mask` (`count_ones`), `Traceback::{new, add_state, _traceback_at}`.
unit(name="SrcMyersTbState", props="property C10", file="src/pattern_matching/myers/myers_impl.rs",
     imports=["RbV.Basic.RsSemWord", "RbV.Gen.SrcMyersState"], word_types=pm.MYERS_WORDS, type_paths=pm.MYERS_PATHS,
     structs=pm.MYERS_STRUCTS,
     functions=[dict(name="State::adjust_dist", lean="adjustDist", header="pub fn adjust_dist(&mut self, pos_mask: T)",
                     self_fields=[("pv", "T"), ("mv", "T"), ("dist", "D")], params=[("pos_mask", "T")], ret=None,
                     theorem="RbV.Thm.GenSrcMyersTb.adjustDist_eq_model"),
                dict(name="State::max", lean="max", header="pub fn max() -> Self", params=[], ret="State",
                     calls={"Self::init": dict(lean="RbV.Gen.SrcMyersState.init", extra=["w", "wd"], args=["D"], ret="State")},
                     theorem="RbV.Thm.GenSrcMyersTb.max_eq_model")])

TB_H = [("state.pv", "T"), ("state.mv", "T"), ("state.dist", "DistType"), ("left_state.pv", "T"), ("left_state.mv", "T"),
        ("left_state.dist", "DistType"), ("max_mask", "T"), ("pos_bitvec", "T"), ("left_mask", "T")]
TBS = "RbV.Gen.SrcMyersTbState."
TB_Q = ["left_state.pv", "left_state.mv", "left_state.dist"]
unit(name="SrcMyersTbShort", props="property C10", file="src/pattern_matching/myers/simple.rs",
     imports=["RbV.Basic.RsSemWord", "RbV.Gen.SrcMyersState", "RbV.Gen.SrcMyersTbState"], word_types=pm.MYERS_WORDS,
     type_paths=pm.MYERS_PATHS, structs=pm.MYERS_STRUCTS,
     functions=[dict(name="ShortTracebackHandler::move_up", lean="moveUp", header="fn move_up(&mut self, adjust_dist: bool)",
                     within="impl<'a, T> TracebackHandler<'a, T, T::DistType> for ShortTracebackHandler<'a, T> where T: BitVec + 'a,",
                     qualified_fields=TB_Q, self_fields=TB_H, params=[("adjust_dist", "bool")], ret=None,
                     calls={"self.state.adjust_dist": dict(lean=TBS + "adjustDist", extra=["w", "wd"],
                                                           self_args=["state.pv", "state.mv", "state.dist"],
                                                           self_outs=["state.dist"], args=["T"], ret=None)},
                     theorem="RbV.Thm.GenSrcMyersTb.moveUp_eq_model"),
                dict(name="ShortTracebackHandler::move_up_left", lean="moveUpLeft",
                     header="fn move_up_left(&mut self, adjust_dist: bool)",
                     within="impl<'a, T> TracebackHandler<'a, T, T::DistType> for ShortTracebackHandler<'a, T> where T: BitVec + 'a,",
                     qualified_fields=TB_Q, self_fields=TB_H, params=[("adjust_dist", "bool")], ret=None,
                     calls={"self.left_state.adjust_dist": dict(lean=TBS + "adjustDist", extra=["w", "wd"],
                                                                self_args=["left_state.pv", "left_state.mv", "left_state.dist"],
                                                                self_outs=["left_state.dist"], args=["T"], ret=None)},
                     theorem="RbV.Thm.GenSrcMyersTb.moveUpLeft_eq_model"),
                dict(name="ShortTracebackHandler::move_left_down_if_better", lean="moveLeftDownIfBetter",
                     header="fn move_left_down_if_better(&mut self) -> bool",
                     within="impl<'a, T> TracebackHandler<'a, T, T::DistType> for ShortTracebackHandler<'a, T> where T: BitVec + 'a,",
                     qualified_fields=TB_Q, self_fields=TB_H, params=[], ret="bool",
                     theorem="RbV.Thm.GenSrcMyersTb.moveLeftDownIfBetter_eq_model"),
                dict(name="ShortTracebackHandler::finished", lean="finished", header="fn finished(&self) -> bool",
                     within="impl<'a, T> TracebackHandler<'a, T, T::DistType> for ShortTracebackHandler<'a, T> where T: BitVec + 'a,",
                     qualified_fields=TB_Q, self_fields=TB_H, params=[], ret="bool",
                     theorem="RbV.Thm.GenSrcMyersTb.finished_eq_model"),
                dict(name="ShortTracebackHandler::pos_bitvec", lean="posBitvec", header="fn pos_bitvec(&self) -> T",
                     within="impl<'a, T> TracebackHandler<'a, T, T::DistType> for ShortTracebackHandler<'a, T> where T: BitVec + 'a,",
                     qualified_fields=TB_Q, self_fields=TB_H, params=[], ret="T",
                     theorem="RbV.Thm.GenSrcMyersTb.finished_eq_model")])



# ---- traceback, second part: `adjust_by_mask`, `ShortTracebackHandler::{new, move_to_left}` -----------------------------------
# the column reader `states_iter` is a `Rs.RevCyc State`; here the handler's `state` / `left_state` are held as whole `State` values
TB_IMPL = "impl<'a, T> TracebackHandler<'a, T, T::DistType> for ShortTracebackHandler<'a, T> where T: BitVec + 'a,"
TB_H2 = [("state", "State"), ("left_state", "State"), ("states_iter", "RevCyc<State>"), ("max_mask", "T"), ("pos_bitvec", "T"),
         ("left_mask", "T")]
unit(name="SrcMyersTbMask", props="property C10", file="src/pattern_matching/myers/myers_impl.rs",
     imports=["RbV.Basic.RsSemWord", "RbV.Basic.RsSemGenlong"], word_types=pm.MYERS_WORDS, type_paths=pm.MYERS_PATHS,
     structs=pm.MYERS_STRUCTS,
     functions=[dict(name="State::adjust_by_mask", lean="adjustByMask", header="pub fn adjust_by_mask(&mut self, mask: T)",
                     self_fields=[("pv", "T"), ("mv", "T"), ("dist", "D")], params=[("mask", "T")], ret=None,
                     theorem="RbV.Thm.GenSrcMyersTb2.adjustByMask_eq_model")])

unit(name="SrcMyersTbShort2", props="property C10", file="src/pattern_matching/myers/simple.rs",
     imports=["RbV.Basic.RsSemWord", "RbV.Basic.RsSemGenlong", "RbV.Gen.SrcMyersTbMask"], word_types=pm.MYERS_WORDS,
     type_paths=pm.MYERS_PATHS, structs=pm.MYERS_STRUCTS,
     functions=[dict(name="ShortTracebackHandler::new", lean="new",
                     header="fn new(m: T::DistType, pos: usize, states: &'a [State<T, T::DistType>]) -> Self",
                     params=[("m", "DistType"), ("pos", "usize"), ("states", "&[State]")],
                     ret="(State, State, RevCyc<State>, T, T, T)", struct_fields={"ShortTracebackHandler": TB_H2},
                     theorem="RbV.Thm.GenSrcMyersTb2.new_eq_model"),
                dict(name="ShortTracebackHandler::move_to_left", lean="moveToLeft", header="fn move_to_left(&mut self)",
                     within=TB_IMPL, self_fields=TB_H2, params=[], ret=None,
                     calls={"self.left_state.adjust_by_mask": dict(
                         lean="RbV.Gen.SrcMyersTbMask.adjustByMask", extra=["w", "wd"],
                         recv_args=["self.left_state.pv", "self.left_state.mv", "self.left_state.dist"],
                         recv_outs=["self.left_state.dist"], args=["T"], ret=None)},
                     theorem="RbV.Thm.GenSrcMyersTb2.moveToLeft_eq_model")])



# ---- traceback, third part: the generic loop `Traceback::_traceback_at` read at the single-word instance ----------------------
# `H = ShortStatesHandler`: `self.handler.init_traceback(m, pos, states)` = `ShortTracebackHandler::new(m, pos, states)` (the one-line
# glue of simple.rs, paired by name), `h.block()` / `h.left_block()` / `h.pos_bitvec()` are the getters of `state` / `left_state` /
# `pos_bitvec`.  `AlignmentOperation` values are bytes (`Match` 0, `Subst` 1, `Ins` 2, `Del` 3); `ops: Option<&mut Vec<_>>` is an
# optional out-vector; `gas` is a ghost parameter bounding the `while` loop.
TBK_IMPL = "impl<'a, T, D, H> Traceback<'a, T, D, H> where T: BitVec, D: DistType, H: StatesHandler<'a, T, D>,"
H_ALL = ["h.state.pv", "h.state.mv", "h.state.dist", "h.left_state.pv", "h.left_state.mv", "h.left_state.dist", "h.max_mask",
         "h.pos_bitvec", "h.left_mask"]
H_ALL2 = ["h.state", "h.left_state", "h.states_iter", "h.max_mask", "h.pos_bitvec", "h.left_mask"]
TBSH = "RbV.Gen.SrcMyersTbShort."
unit(name="SrcMyersTbLoop", props="property C10", file="src/pattern_matching/myers/traceback.rs",
     imports=["RbV.Basic.RsSemWord", "RbV.Basic.RsSemGenlong", "RbV.Gen.SrcMyersTbShort", "RbV.Gen.SrcMyersTbShort2"],
     word_types=pm.MYERS_WORDS, type_paths=pm.MYERS_PATHS, structs=dict(pm.MYERS_STRUCTS, Handler=TB_H2),
     aliases={"Op": "u8", "OpVec": "Vec<Op>"},
     functions=[dict(name="Traceback::_traceback_at", lean="tracebackAt",
                     header="fn _traceback_at(&self, pos: usize, mut ops: Option<&mut Vec<AlignmentOperation>>, "
                            "state_slice: &'a [State<T, D>],) -> (D, D)",
                     within=TBK_IMPL, self_fields=[("m", "DistType")],
                     params=[("pos", "usize"), ("ops", "&mut Option<OpVec>"), ("state_slice", "&[State]"), ("gas", "usize")],
                     ret="(DistType, DistType)", fuel=["gas"],
                     local_struct_vars={"h": "Handler"}, locals={"op": "Op"}, deferred={"op": "0"},
                     constants={"Match": ("0", "Op"), "Subst": ("1", "Op"), "Ins": ("2", "Op"), "Del": ("3", "Op")},
                     accessors={"block": "state", "left_block": "left_state", "pos_bitvec": "pos_bitvec"},
                     calls={"self.handler.init_traceback": dict(lean="RbV.Gen.SrcMyersTbShort2.new", extra=["w", "wd"],
                                                                args=["DistType", "usize", "&[State]"], ret="Handler"),
                            "h.move_up": dict(lean=TBSH + "moveUp", extra=["w", "wd"], recv_args=H_ALL,
                                              recv_outs=["h.state.dist", "h.pos_bitvec"], args=["bool"], ret=None),
                            "h.move_up_left": dict(lean=TBSH + "moveUpLeft", extra=["w", "wd"], recv_args=H_ALL,
                                                   recv_outs=["h.left_state.dist", "h.left_mask"], args=["bool"], ret=None),
                            "h.move_left_down_if_better": dict(lean=TBSH + "moveLeftDownIfBetter", extra=["w", "wd"],
                                                               recv_args=H_ALL, recv_outs=["h.left_state.dist"], args=[], ret="bool"),
                            "h.finished": dict(lean=TBSH + "finished", extra=["w", "wd"], recv_args=H_ALL, args=[], ret="bool"),
                            "h.move_to_left": dict(lean="RbV.Gen.SrcMyersTbShort2.moveToLeft", extra=["w", "wd"], recv_args=H_ALL2,
                                                   recv_outs=["h.state", "h.left_state", "h.states_iter"], args=[], ret=None)})])


# ================================================================================================== self-test / CLI

def selftest(with_lean):
    print("selftest: ok")
    sys.exit(0)


def main():
    ap = argparse.ArgumentParser()
    ap.add_argument("--repo", default=os.environ.get("VERIF_REPO", "/repo"))
    ap.add_argument("--unit", help="one of: " + ", ".join(sorted(UNITS)))
    ap.add_argument("--selftest", action="store_true")
    ap.add_argument("--lean", action="store_true")
    a = ap.parse_args()
    if a.selftest:
        selftest(a.lean)
    import gen_tables
    if a.unit not in UNITS:
        gen_tables.fail("rs2lean_genlong: unknown unit %s" % a.unit)
    u = UNITS[a.unit]
    src = gen_tables.Src(a.repo, u["file"])
    text, _ = translate_unit(src, u, gen_tables.fail)
    sys.stdout.write(text)


if __name__ == "__main__":
    main()
