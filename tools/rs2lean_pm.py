#!/usr/bin/env python3
"""Translate the text of a small Rust function into a Lean 4 definition (docs/notes/GEN.md, "Translated function bodies").

    tools/rs2lean.py --repo <repo> --unit <Name> [--stdout]        (normally called through tools/gen_tables.py)

The translator works on the comment-blanked source text (class `Src` of gen_tables.py: exactly one function with the
pinned header, brace matching) and handles a deliberately small subset of Rust.  Everything outside the subset is an
extraction failure: `Unsupported` is raised with file:line and a one-line reason, the caller exits non-zero.  Nothing
is ever guessed: every local without a type annotation needs a type in the translation spec, every `while` loop needs
a fuel expression in the spec.

Subset
  statements   `let [mut] x[: T] = e;`  `let (a, mut b) = (e1, e2);`  `x = e;`  `x op= e;`  `v[i] = e;`  `v[i] op= e;`
               `*r = e;` (r a loop variable of `iter_mut()`)  `v.push(e);`  `assert!(c, ..);`  `assert_eq!(a, b, ..);`
               `if c {..} [else if ..] [else {..}]`   `while c {..}`   `for pat in iter {..}`   `return e;` (tail
               position of the function body or of an `if` whose continuation is the rest of the function — not in loops)
  iterators    `a..b`  `a..=b`  `(a..b).rev()`  `xs`  `&xs`  `xs.iter()`  `xs.iter().rev()`  `xs.iter().enumerate()`
               `xs[a..b].iter()…`  `xs.iter_mut()`        patterns `i`, `&c`, `c`, `(j, &a)`, `(j, a)`, `_`
  expressions  integer/bool/byte literals, variables, `self.f`, `v[i]`, `v[a..b]` (only as iterator source), `v.len()`,
               `+ - * / %` (checked: `Rs.add w`, `Rs.sub`, `Rs.mul w`, `Rs.div`, `Rs.rem`; `/ %` by a non-zero literal are
               pure), `<< >>` (`Rs.shl w`, `Rs.shr w`), `& | ^ !` (`&&& ||| ^^^ Rs.not w`), comparisons, `&& || !`
               (short-circuit kept when the right operand can panic), `e as T`, `uN::from(e)`, unary `-` on signed bit
               patterns (`Rs.neg w`), `x.wrapping_add(y)` & co., `vec![v; n]`, `[v; N]`, `repeat(v).take(n).collect()`,
               `Vec::new()`, tuples, `if` expressions, `S { a, b: e }` (→ tuple in field order), `*c.borrow()`, `*r`,
               `&e`, `&mut e` (references are transparent), calls of functions declared in the spec (abstract
               parameters such as `Op::operation`, or other translated functions).
Control flow with exits (genpm; search loops of the matchers, C08/C09)
  statements   `loop {..}` (fuel from the spec, shared numbering with `while`), `break;`, `return e;` inside `loop`/`while`/
               `for … in it.by_ref()` (directly or under `if`/`match`), `match x { Some(v) => .., None => .. }` on an
               `Option` as a statement, `if` statements whose branches leave the sequence (the continuation is then
               translated once per branch), `for (i, c) in self.text.by_ref()` / `for … in &mut self.text` over an
               iterator state declared as `Enumerate<T>` / `Iter<T>` in the spec (= the items not yet consumed [and the
               counter]; structural recursion on the items, no fuel), `for (a, b) in xs.iter().zip(ys)`,
               `let (a, b) = f(x);` for a translated `f`.
  expressions  `Some(e)`, `None`, `x.is_some()`, `x.is_none()`, `u64::MAX`, `min(a, b)`/`max(a, b)` on unsigned integers,
               `a[i..j] == b[..k]` (sub-slices as operands of `==`/`!=`), `xs.into_iter()`, `xs.rev()`, `xs.enumerate()`
               (a slice read as its iterator), nested fields `self.a.b` (declared as `("a.b", type)` in `self_fields`),
               method calls `self.a.f(x)` declared in `calls` with `self_args`, struct literals with a typed field list
               (a field initialised with `self` is dropped).
  helpers      `<fn>_loop<k>` / `<fn>_while<k>` : Nat → state → Res (state [× Option ret]) — the `Option` says whether the
               *function* returned from inside the loop; a `loop` without `break` returns the value itself;
               `<fn>_iter<k>` : List item → [Nat →] state → Res (state × iterator state [× Option ret]).
Approximate matchers (genukk; Ukkonen, Myers single-word and block-based, C09/C10)
  containers   `v[i][j] = e` / `op=` on a vector of vectors; `v.clear()`, `v.extend(repeat(x).take(n))`, `v.extend(a..b)` /
               `(a..=b)`, `v.resize(n, x)` (`Rs.resize`), `v.truncate(n)`, `v.push(x)` where `v` is a variable, `self.f` or an
               element `w[i]` of a vector of vectors (`[Vec<usize>; 2]` is a list of two lists: read row, write it back)
  closures     a closure field as an abstract function: `let cost = &self.ukkonen.cost;` … `(cost)(a, b)` (key
               `"self.ukkonen.cost"` in `abstract_fns`); the projection closure `|s| s.f` inside `v.last().map(|s| s.f)
               .unwrap_or(d)` and `v.get(i).map(|s| s.f)`
  word types   `word_types={"T": "w"}`: a generic unsigned word type whose width is a *parameter* `(w : Nat)` of every generated
               function (`Rs.wrappingAdd w`, `Rs.not w`, `Rs.shl w`, `Rs.maxVal w`); `T::zero()`, `T::one()`, `T::max_value()`;
               `type_paths={"T::DistType": "DistType"}`; literals of a word type: 0 and 1 only; `word_size::<T>()` = `w`;
               `$ident` tokens (macro variables in pinned headers of `impl_myers!`)
  structs      `structs={"State": [("pv","T"), ..]}`: a parameter `state: &mut State` is passed field by field and all its fields
               are returned; `self.state.pv` paths as before; `Vec<State>` is a list of tuples, `v[i].dist` a projection;
               calls of other translated functions with struct arguments (`calls={"self.myers.step": dict(args=["&mut State",
               ..], self_args=[..], extra=["w","wd"], self_outs=[..])}`): the argument may be a struct parameter, a `self`
               field, a local struct value or an element `v[i]` (read, call, written back); `for (x, y) in
               xs.iter_mut().zip(ys)` (fold that rebuilds the prefix of `xs`); `within="impl … for Matches<…>"`
  signed       with `signed_arith=True`: `cond as i8` (`Rs.ofBool`), checked `+` / `-` on signed bit patterns (`Rs.addI`,
               `Rs.subI`), sign-extending casts (`Rs.sext`), comparisons through `Rs.toInt`; `x.to_usize().unwrap()`,
               `D::from_usize(x).unwrap()` (`Rs.cvt`), `saturating_add`; semantics: `RbV/Basic/RsSemWord.lean`
  control      `if let Some(x) = e {..} [else {..}]` as a statement (= `match`); a unit function ending in `if .. else ..`;
               `shadow_fresh=True`: an inner `let` that shadows an outer variable gets a primed Lean name
Output style: the monad `RbV.Rs.Res` (`ok | panic | fuel`, RbV/Basic/RsSem.lean), `do` blocks of `let x ← …` / `let x := …`
with Rust's mutation expressed by shadowing, `for` loops as `List.foldlM` of a named body function over `List.range'` /
the slice / `zipIdx`, `while` loops as named recursive helpers on fuel.  Loop helpers are named `<fn>_for<k>`,
`<fn>_while<k>` (k-th loop of that kind in source order); temporaries `t<k>`.  Compound assignments are normalised
(`x += e` and `x = x + e` give the same text).
"""
import sys, os, re, argparse

WIDTH = {"u8": 8, "u16": 16, "u32": 32, "u64": 64, "usize": 64, "i8": 8, "i16": 16, "i32": 32, "i64": 64, "isize": 64}
LEAN_KEYWORDS = {"at", "from", "to", "end", "open", "in", "fun", "do", "then", "else", "if", "let", "have", "show", "by",
                 "match", "with", "where", "def", "theorem", "instance", "class", "structure", "namespace", "section",
                 "variable", "universe", "import", "export", "macro", "syntax", "prefix", "infix", "notation", "mut",
                 "return", "for", "unless", "try", "catch", "finally", "Type", "Prop", "Sort", "set", "using", "calc",
                 "nomatch", "exact", "pure", "bind", "fuel", "some", "none", "List", "Nat", "Bool", "true", "false"}


class Unsupported(Exception):
    def __init__(self, msg, pos=None):
        Exception.__init__(self, msg)
        self.msg = msg
        self.pos = pos


# ================================================================================================== types

class Ty:
    pass


class TInt(Ty):
    def __init__(self, name):
        self.name, self.w, self.signed = name, WIDTH[name], name[0] == "i"

    def lean(self):
        return "Nat"

    def __eq__(self, o):
        return isinstance(o, TInt) and o.name == self.name

    def __repr__(self):
        return self.name


class TWord(TInt):
    """(genukk) an unsigned machine word whose width is a parameter of the translated function: the generic `T: BitVec`
    of the Myers matchers (`Nat` below `2^w`, `w` a Lean variable), `T::DistType`"""

    def __init__(self, name, wvar):
        self.name, self.w, self.signed = name, wvar, False

    def __eq__(self, o):
        return isinstance(o, TWord) and o.w == self.w       # `D`, `T::DistType`, `$DistType` name the same type


class TBool(Ty):
    def lean(self):
        return "Bool"

    def __eq__(self, o):
        return isinstance(o, TBool)

    def __repr__(self):
        return "bool"


class TUnit(Ty):
    def lean(self):
        return "Unit"

    def __eq__(self, o):
        return isinstance(o, TUnit)

    def __repr__(self):
        return "()"


class TSeq(Ty):
    def __init__(self, elem):
        self.elem = elem

    def lean(self):
        return "List " + paren_ty(self.elem.lean())

    def __eq__(self, o):
        return isinstance(o, TSeq) and o.elem == self.elem

    def __repr__(self):
        return "[%r]" % (self.elem,)


class TTuple(Ty):
    def __init__(self, items):
        self.items = items

    def lean(self):
        return tuple_ty(self.items)

    def __eq__(self, o):
        return isinstance(o, TTuple) and o.items == self.items

    def __repr__(self):
        return "(%s)" % ", ".join(map(repr, self.items))


class TStruct(TTuple):
    """(genukk) a struct of the spec (`structs`): a tuple in field order that remembers the field names"""

    def __init__(self, name, fields, items):
        self.name, self.fields, self.items = name, fields, items

    def proj(self, field):
        k = self.fields.index(field)
        n = len(self.fields)
        return "".join([".2"] * k) + (".1" if k < n - 1 else "")


class TAbs(Ty):
    """a generic type parameter of the Rust function (`T`): a Lean type variable"""

    def __init__(self, name, lean_name):
        self.name, self.lean_name = name, lean_name

    def lean(self):
        return self.lean_name

    def __eq__(self, o):
        return isinstance(o, TAbs) and o.name == self.name

    def __repr__(self):
        return self.name


class TOption(Ty):
    """`Option<T>` (genpm: iterator `next` functions)"""

    def __init__(self, elem):
        self.elem = elem

    def lean(self):
        return "Option " + paren_ty(self.elem.lean())

    def __eq__(self, o):
        return isinstance(o, TOption) and o.elem == self.elem

    def __repr__(self):
        return "Option<%r>" % (self.elem,)


class TIter(Ty):
    """state of an iterator over a slice: `Iter<T>` = the items not yet consumed (`List T`); `Enumerate<T>` = the items
    not yet consumed and the counter (`List T × Nat`) — the trusted reading of `IntoIterator<Item = &T>` over a slice:
    it yields the slice's elements in order (genpm)"""

    def __init__(self, elem, enum):
        self.elem, self.enum = elem, enum

    def lean(self):
        l = "List " + paren_ty(self.elem.lean())
        return "(%s × Nat)" % l if self.enum else l

    def __eq__(self, o):
        return isinstance(o, TIter) and o.elem == self.elem and o.enum == self.enum

    def __repr__(self):
        return ("Enumerate<%r>" if self.enum else "Iter<%r>") % (self.elem,)


def paren_ty(s):
    return "(%s)" % s if (" " in s) else s


# ================================================================================================== tokens

TOKEN_RX = re.compile(r"""
    (?P<ws>\s+)
  | (?P<byte>b'(?:\\.|[^\\'])')
  | (?P<str>"(?:\\.|[^"\\])*")
  | (?P<num>(?:0x[0-9a-fA-F_]+|0b[01_]+|0o[0-7_]+|[0-9][0-9_]*)(?:(?:u8|u16|u32|u64|usize|i8|i16|i32|i64|isize))?)
  | (?P<id>\$?[A-Za-z_][A-Za-z0-9_]*)
  | (?P<life>'[A-Za-z_][A-Za-z0-9_]*)
  | (?P<op><<=|>>=|\.\.=|\.\.|::|->|=>|==|!=|<=|>=|&&|\|\||\+=|-=|\*=|/=|%=|&=|\|=|\^=|<<|>>|[-+*/%&|^!<>=.,;:(){}\[\]\#?@])
""", re.X)


class Tok:
    __slots__ = ("kind", "text", "pos")

    def __init__(self, kind, text, pos):
        self.kind, self.text, self.pos = kind, text, pos

    def __repr__(self):
        return "%s(%s)" % (self.kind, self.text)


def tokenize(text, base):
    toks, i, n = [], 0, len(text)
    while i < n:
        m = TOKEN_RX.match(text, i)
        if not m:
            raise Unsupported("cannot tokenise `%s`" % text[i:i + 12].split("\n")[0], base + i)
        i = m.end()
        if m.lastgroup == "ws":
            continue
        toks.append(Tok(m.lastgroup, m.group(0), base + m.start()))
    toks.append(Tok("eof", "<end of function>", base + n))
    return toks


# ================================================================================================== AST

class N:
    """AST node: kind + fields"""

    def __init__(self, kind, pos, **kw):
        self.kind, self.pos = kind, pos
        self.__dict__.update(kw)

    def __repr__(self):
        return "N(%s %s)" % (self.kind, {k: v for k, v in self.__dict__.items() if k not in ("kind", "pos")})


BINPREC = [("||",), ("&&",), ("==", "!=", "<", ">", "<=", ">="), ("|",), ("^",), ("&",), ("<<", ">>"), ("+", "-"),
           ("*", "/", "%")]
ASSIGN_OPS = {"=": None, "+=": "+", "-=": "-", "*=": "*", "/=": "/", "%=": "%", "&=": "&", "|=": "|", "^=": "^",
              "<<=": "<<", ">>=": ">>"}


class Parser:
    def __init__(self, toks):
        self.t, self.i = toks, 0

    def peek(self, k=0):
        return self.t[min(self.i + k, len(self.t) - 1)]

    def at(self, text, k=0):
        x = self.peek(k)
        return x.kind in ("op", "id") and x.text == text

    def next(self):
        x = self.t[self.i]
        self.i += 1
        return x

    def expect(self, text):
        x = self.next()
        if not (x.kind in ("op", "id") and x.text == text):
            raise Unsupported("expected `%s`, found `%s`" % (text, x.text), x.pos)
        return x

    def ident(self):
        x = self.next()
        if x.kind != "id":
            raise Unsupported("expected an identifier, found `%s`" % x.text, x.pos)
        return x

    # ---------------------------------------------------------------- types
    def type_(self):
        x = self.peek()
        if self.at("&"):
            self.next()
            if self.peek().kind == "id" and self.peek().text == "mut":
                self.next()
            return N("tref", x.pos, inner=self.type_())
        if self.at("["):
            self.next()
            el = self.type_()
            n = None
            if self.at(";"):
                self.next()
                n = self.expr()
            self.expect("]")
            return N("tslice", x.pos, elem=el, n=n)
        if self.at("("):
            self.next()
            items = []
            while not self.at(")"):
                items.append(self.type_())
                if self.at(","):
                    self.next()
            self.expect(")")
            return N("ttuple", x.pos, items=items)
        nm = self.ident()
        args = []
        if self.at("<"):
            self.next()
            while not self.at(">"):
                args.append(self.type_())
                if self.at(","):
                    self.next()
            self.expect(">")
        if self.at("::"):
            raise Unsupported("qualified type path `%s::…`" % nm.text, nm.pos)
        return N("tname", x.pos, name=nm.text, args=args)

    # ---------------------------------------------------------------- blocks and statements
    def block(self):
        """`{ stmts [tail] }` → N(block, stmts, tail)"""
        b = self.expect("{")
        stmts, tail = [], None
        while not self.at("}"):
            if self.peek().kind == "eof":
                raise Unsupported("unbalanced block", b.pos)
            s = self.stmt()
            if s.kind == "tail":
                if not self.at("}"):
                    raise Unsupported("expected `;` or `}` after the expression", self.peek().pos)
                tail = s.e
            else:
                stmts.append(s)
        self.expect("}")
        return N("block", b.pos, stmts=stmts, tail=tail)

    def body(self):
        """the statements of a function body (tokens between the outer braces)"""
        stmts, tail = [], None
        p0 = self.peek().pos
        while self.peek().kind != "eof":
            s = self.stmt()
            if s.kind == "tail":
                if self.peek().kind != "eof":
                    raise Unsupported("expected `;` after the expression", self.peek().pos)
                tail = s.e
            else:
                stmts.append(s)
        return N("block", p0, stmts=stmts, tail=tail)

    def pattern(self):
        x = self.peek()
        if self.at("("):
            self.next()
            items = []
            while not self.at(")"):
                items.append(self.pattern())
                if self.at(","):
                    self.next()
                elif not self.at(")"):
                    raise Unsupported("pattern", self.peek().pos)
            self.expect(")")
            return N("ptuple", x.pos, items=items)
        if self.at("&"):
            self.next()
            p = self.pattern()
            if p.kind != "pid":
                raise Unsupported("reference pattern other than `&name`", x.pos)
            return p
        if self.at("mut"):
            self.next()
            return N("pid", x.pos, name=self.ident().text, mut=True)
        if x.kind == "id":
            self.next()
            if x.text in ("ref", "box") or self.at("::") or self.at("(") or self.at("{") or self.at("@"):
                raise Unsupported("pattern `%s …` (only names, `&name`, `_` and tuples are translated)" % x.text, x.pos)
            return N("pid", x.pos, name=x.text, mut=False)
        raise Unsupported("pattern starting with `%s`" % x.text, x.pos)

    def stmt(self):
        x = self.peek()
        if x.kind == "id" and x.text == "let":
            self.next()
            pat = self.pattern()
            ty = None
            if self.at(":"):
                self.next()
                ty = self.type_()
            if not self.at("="):
                raise Unsupported("`let` without initialiser", x.pos)
            self.next()
            if self.at("if") or self.at("{"):
                init = self.expr()
            else:
                init = self.expr()
            self.expect(";")
            return N("let", x.pos, pat=pat, ty=ty, init=init)
        if x.kind == "id" and x.text == "if" and self.at("let", 1) and self.at("Some", 2) and self.at("(", 3):
            # (genukk) `if let Some(v) = e { .. } [else { .. }]` = `match e { Some(v) => { .. }, None => { .. } }`
            for _ in range(4):
                self.next()
            v = self.ident()
            self.expect(")")
            self.expect("=")
            scrut = self.expr(no_struct=True)
            th = self.block()
            el = N("block", x.pos, stmts=[], tail=None)
            if self.at("else"):
                self.next()
                if self.at("if"):
                    raise Unsupported("`if let … else if`", x.pos)
                el = self.block()
            if self.at(";"):
                self.next()
            return N("match", x.pos, scrut=scrut, arms=[(("some", v.text), th, x.pos), (("none", None), el, x.pos)])
        if x.kind == "id" and x.text == "if":
            e = self.if_()
            if self.at(";"):
                self.next()
            elif self.at("}") or self.peek().kind == "eof":
                return N("tail", x.pos, e=e)
            return N("ifs", x.pos, e=e)
        if x.kind == "id" and x.text == "while":
            self.next()
            if self.at("let"):
                raise Unsupported("`while let`", x.pos)
            c = self.expr(no_struct=True)
            b = self.block()
            return N("while", x.pos, cond=c, body=b)
        if x.kind == "id" and x.text == "for":
            self.next()
            pat = self.pattern()
            self.expect("in")
            it = self.expr(no_struct=True)
            b = self.block()
            return N("for", x.pos, pat=pat, iter=it, body=b)
        if x.kind == "id" and x.text == "return":
            self.next()
            e = None if self.at(";") else self.expr()
            if self.at(";"):
                self.next()
            return N("return", x.pos, e=e)
        if x.kind == "id" and x.text == "loop" and self.at("{", 1):
            self.next()
            return N("loop", x.pos, body=self.block())
        if x.kind == "id" and x.text == "break" and (self.at(";", 1) or self.at("}", 1) or self.at(",", 1)):
            self.next()
            if self.at(";"):
                self.next()
            return N("break", x.pos)
        if x.kind == "id" and x.text == "match":
            return self.match_()
        if x.kind == "id" and x.text in ("loop", "match", "break", "continue", "unsafe", "fn", "use", "const", "static",
                                         "struct", "enum", "impl", "type", "mod", "trait", "async", "move"):
            raise Unsupported("`%s` is outside the translated subset" % x.text, x.pos)
        e = self.expr()
        if self.peek().kind == "op" and self.peek().text in ASSIGN_OPS:
            op = self.next()
            r = self.expr()
            self.expect(";")
            return N("assign", x.pos, lhs=e, op=ASSIGN_OPS[op.text], rhs=r)
        if self.at(";"):
            self.next()
            return N("exprs", x.pos, e=e)
        return N("tail", x.pos, e=e)

    def match_(self):
        """`match e { Some(x) => {..} | stmt, None => .., _ => .. }` as a statement (arms are blocks or single statements)"""
        x = self.expect("match")
        scrut = self.expr(no_struct=True)
        self.expect("{")
        arms = []
        while not self.at("}"):
            p0 = self.peek()
            if p0.kind == "id" and p0.text == "Some" and self.at("(", 1):
                self.next()
                self.next()
                v = self.ident()
                self.expect(")")
                pat = ("some", v.text)
            elif p0.kind == "id" and p0.text == "None":
                self.next()
                pat = ("none", None)
            elif p0.kind == "id" and p0.text == "_":
                self.next()
                pat = ("wild", None)
            else:
                raise Unsupported("`match` arm pattern `%s …` (only `Some(x)`, `None`, `_` are translated)" % p0.text, p0.pos)
            self.expect("=>")
            if self.at("{"):
                b = self.block()
                if self.at(","):
                    self.next()
            else:
                st = self.stmt_until_comma()
                b = N("block", p0.pos, stmts=[st], tail=None)
            arms.append((pat, b, p0.pos))
        self.expect("}")
        if self.at(";"):
            self.next()
        return N("match", x.pos, scrut=scrut, arms=arms)

    def stmt_until_comma(self):
        """a `match` arm without braces: `break`, `return e`, or an assignment, ended by `,` or the closing brace"""
        x = self.peek()
        if x.kind == "id" and x.text == "break":
            self.next()
            st = N("break", x.pos)
        elif x.kind == "id" and x.text == "return":
            self.next()
            e = None if (self.at(",") or self.at("}")) else self.expr()
            st = N("return", x.pos, e=e)
        else:
            raise Unsupported("`match` arm that is neither a block, `break` nor `return`", x.pos)
        if self.at(","):
            self.next()
        elif not self.at("}"):
            raise Unsupported("expected `,` after the `match` arm", self.peek().pos)
        return st

    def if_(self):
        x = self.expect("if")
        if self.at("let"):
            raise Unsupported("`if let`", x.pos)
        c = self.expr(no_struct=True)
        th = self.block()
        el = None
        if self.at("else"):
            self.next()
            if self.at("if"):
                y = self.peek()
                el = N("block", y.pos, stmts=[], tail=self.if_())
            else:
                el = self.block()
        return N("if", x.pos, cond=c, then=th, els=el)

    # ---------------------------------------------------------------- expressions
    def expr(self, no_struct=False):
        x = self.peek()
        if self.at("..") or self.at("..="):
            op = self.next()
            hi = None if self.range_end() else self.binary(0, no_struct)
            return N("range", x.pos, lo=None, hi=hi, incl=op.text == "..=")
        lo = self.binary(0, no_struct)
        if self.at("..") or self.at("..="):
            op = self.next()
            hi = None if self.range_end() else self.binary(0, no_struct)
            return N("range", x.pos, lo=lo, hi=hi, incl=op.text == "..=")
        return lo

    def range_end(self):
        return self.at("]") or self.at(")") or self.at("{") or self.at(";") or self.at(",")

    def binary(self, level, no_struct):
        if level == len(BINPREC):
            return self.cast(no_struct)
        l = self.binary(level + 1, no_struct)
        while self.peek().kind == "op" and self.peek().text in BINPREC[level]:
            # `a < b` vs generic argument lists never clash here: generics only follow `::` (rejected) or type names
            op = self.next()
            r = self.binary(level + 1, no_struct)
            l = N("bin", op.pos, op=op.text, l=l, r=r)
            if level == 2 and self.peek().kind == "op" and self.peek().text in BINPREC[2]:
                raise Unsupported("chained comparison", self.peek().pos)
        return l

    def cast(self, no_struct):
        e = self.unary(no_struct)
        while self.at("as"):
            a = self.next()
            e = N("cast", a.pos, e=e, ty=self.type_())
        return e

    def unary(self, no_struct):
        x = self.peek()
        if x.kind == "op" and x.text in ("-", "!", "*"):
            self.next()
            return N("un", x.pos, op=x.text, e=self.unary(no_struct))
        if x.kind == "op" and x.text == "&":
            self.next()
            if self.at("mut"):
                self.next()
                inner = self.unary(no_struct)
                if inner.kind == "field" and self_path(inner) is not None:
                    return N("un", x.pos, op="&mut", e=inner)       # `&mut self.text` as a loop source (genpm)
                return N("un", x.pos, op="&", e=inner)
            return N("un", x.pos, op="&", e=self.unary(no_struct))
        if x.kind == "op" and x.text == "&&":
            raise Unsupported("`&&` as a double reference", x.pos)
        return self.postfix(no_struct)

    def args(self):
        self.expect("(")
        a = []
        while not self.at(")"):
            if self.at("|") and self.peek(1).kind == "id" and self.at("|", 2) and self.peek(3).kind == "id" \
                    and self.peek(3).text == self.peek(1).text and self.at(".", 4) and self.peek(5).kind == "id" \
                    and (self.at(")", 6) or self.at(",", 6)):
                # (genukk) the field-projection closure `|s| s.dist`
                p0 = self.peek()
                for _ in range(5):
                    self.next()
                a.append(N("projclosure", p0.pos, field=self.next().text))
                if self.at(","):
                    self.next()
                continue
            if self.at("|") or self.at("||") or self.at("move"):
                raise Unsupported("closure argument", self.peek().pos)
            a.append(self.expr())
            if self.at(","):
                self.next()
            elif not self.at(")"):
                raise Unsupported("argument list", self.peek().pos)
        self.expect(")")
        return a

    def postfix(self, no_struct):
        e = self.primary(no_struct)
        while True:
            x = self.peek()
            if self.at("."):
                self.next()
                nm = self.next()
                if nm.kind == "num":
                    raise Unsupported("tuple field access `.%s`" % nm.text, nm.pos)
                if nm.kind != "id":
                    raise Unsupported("after `.`", nm.pos)
                if self.at("::"):
                    raise Unsupported("turbofish", self.peek().pos)
                if self.at("("):
                    e = N("mcall", nm.pos, recv=e, name=nm.text, args=self.args())
                else:
                    e = N("field", nm.pos, e=e, name=nm.text)
            elif self.at("["):
                self.next()
                i = self.expr()
                self.expect("]")
                e = N("index", x.pos, base=e, idx=i)
            elif self.at("?"):
                raise Unsupported("`?` operator", x.pos)
            elif self.at("("):
                # (genukk) `(cost)(a, b)`: call of a closure held in a local / a field (declared abstract in the spec)
                inner = e.e if e.kind == "paren" else None
                if inner is not None and inner.kind == "var":
                    e = N("call", x.pos, path=[inner.name], args=self.args())
                elif inner is not None and inner.kind == "field" and self_path(inner) is not None:
                    e = N("call", x.pos, path=[self_path(inner)], args=self.args())
                else:
                    raise Unsupported("call of a computed function value", x.pos)
            else:
                return e

    def primary(self, no_struct):
        x = self.next()
        if x.kind == "num":
            m = re.fullmatch(r"(.*?)(u8|u16|u32|u64|usize|i8|i16|i32|i64|isize)?", x.text)
            body, suf = m.group(1).replace("_", ""), m.group(2)
            if body[:2] in ("0x", "0b", "0o"):
                v = int(body[2:], {"0x": 16, "0b": 2, "0o": 8}[body[:2]])
            else:
                v = int(body)
            return N("lit", x.pos, v=v, suf=suf)
        if x.kind == "byte":
            inner = x.text[2:-1]
            esc = {"\\n": 10, "\\r": 13, "\\t": 9, "\\\\": 92, "\\0": 0, "\\'": 39, '\\"': 34}
            if inner in esc:
                v = esc[inner]
            elif len(inner) == 1:
                v = ord(inner)
            elif re.fullmatch(r"\\x[0-9a-fA-F]{2}", inner):
                v = int(inner[2:], 16)
            else:
                raise Unsupported("byte literal %s" % x.text, x.pos)
            return N("lit", x.pos, v=v, suf="u8")
        if x.kind == "str":
            return N("str", x.pos, text=x.text)
        if x.kind == "op" and x.text == "(":
            if self.at(")"):
                self.next()
                return N("tuple", x.pos, items=[])
            e = self.expr()
            if self.at(","):
                items = [e]
                while self.at(","):
                    self.next()
                    if self.at(")"):
                        break
                    items.append(self.expr())
                self.expect(")")
                return N("tuple", x.pos, items=items)
            self.expect(")")
            return N("paren", x.pos, e=e)
        if x.kind == "op" and x.text == "[":
            v = self.expr()
            if not self.at(";"):
                raise Unsupported("array literal other than `[value; count]`", x.pos)
            self.next()
            n = self.expr()
            self.expect("]")
            return N("repeat", x.pos, v=v, n=n)
        if x.kind == "op" and x.text == "{":
            raise Unsupported("block expression", x.pos)
        if x.kind == "op" and x.text in ("|", "||"):
            raise Unsupported("closure", x.pos)
        if x.kind == "id":
            if x.text == "if":
                self.i -= 1
                return self.if_()
            if x.text in ("true", "false"):
                return N("blit", x.pos, v=x.text == "true")
            if x.text in ("match", "loop", "unsafe", "move", "while", "for", "return", "break", "continue", "let"):
                raise Unsupported("`%s` expression is outside the translated subset" % x.text, x.pos)
            path = [x.text]
            while self.at("::"):
                self.next()
                if self.at("<") and path == ["word_size"] and self.peek(1).kind == "id" and self.at(">", 2) and self.at("(", 3):
                    # (genukk) `word_size::<T>()`: the bit width of the word type
                    self.next()
                    targ = self.ident().text
                    self.next()
                    self.args()
                    return N("wordsize", x.pos, targ=targ)
                if self.at("<"):
                    raise Unsupported("turbofish / generic arguments in a path", self.peek().pos)
                path.append(self.ident().text)
            if self.at("!"):
                # macro call
                self.next()
                opener = self.next()
                if opener.text not in ("(", "["):
                    raise Unsupported("macro `%s!` with `%s`" % (x.text, opener.text), x.pos)
                closer = ")" if opener.text == "(" else "]"
                args, sep = [], None
                while not self.at(closer):
                    args.append(self.expr())
                    if self.at(",") or self.at(";"):
                        s = self.next().text
                        sep = sep or s
                    elif not self.at(closer):
                        raise Unsupported("macro arguments of `%s!`" % x.text, self.peek().pos)
                self.expect(closer)
                return N("macro", x.pos, name="::".join(path), args=args, sep=sep)
            if self.at("("):
                return N("call", x.pos, path=path, args=self.args())
            if self.at("{") and not no_struct and path[-1][:1].isupper():
                self.next()
                fields = []
                while not self.at("}"):
                    f = self.ident()
                    if self.at(":"):
                        self.next()
                        fields.append((f.text, self.expr()))
                    else:
                        fields.append((f.text, N("var", f.pos, name=f.text)))
                    if self.at(","):
                        self.next()
                    elif not self.at("}"):
                        raise Unsupported("struct literal", self.peek().pos)
                self.expect("}")
                return N("struct", x.pos, name="::".join(path), fields=fields)
            if len(path) == 2 and path[0] in WIDTH and path[0][0] == "u" and path[1] in ("MAX", "MIN"):
                return N("lit", x.pos, v=(2 ** WIDTH[path[0]] - 1) if path[1] == "MAX" else 0, suf=path[0])
            if len(path) > 1:
                raise Unsupported("path `%s` (only calls through `::` are translated)" % "::".join(path), x.pos)
            return N("var", x.pos, name=x.text)
        raise Unsupported("unexpected `%s`" % x.text, x.pos)


# ================================================================================================== intermediate code

class Code:
    """a `do` block under construction: items = ('let', pat, pure-expr) | ('bind', pat, MExpr); then a final MExpr.
    MExpr = ('call', text) | ('pure', text) | ('if', cond, Code, Code)"""

    def __init__(self):
        self.items = []
        self.final = None

    def let(self, pat, e):
        self.items.append(("let", pat, e))

    def bind(self, pat, m):
        self.items.append(("bind", pat, m))


def emit_code(code, ind, out):
    """lines of the items of a do block (each at indentation `ind`)"""
    pad = " " * ind
    for kind, pat, e in code.items:
        if kind == "let":
            out.append("%slet %s := %s" % (pad, pat, e))
        else:
            emit_m("%slet %s ← " % (pad, pat), e, ind, out)
    emit_m(pad, code.final, ind, out)


def emit_m(prefix, m, ind, out):
    if m[0] == "match":
        # ('match', scrutinee, [(lean pattern, Code)])   (genpm: early exits of loops, `match` on `Option`)
        out.append("%smatch %s with" % (prefix, m[1]))
        for pat, sub in m[2]:
            if not sub.items and sub.final[0] in ("call", "pure"):
                out.append("%s| %s => %s" % (" " * (ind + 2), pat, sub.final[1] if sub.final[0] == "call" else "pure " + atom(sub.final[1])))
            else:
                out.append("%s| %s => do" % (" " * (ind + 2), pat))
                emit_code(sub, ind + 6, out)
        return
    if m[0] in ("call", "pure"):
        out.append(prefix + (m[1] if m[0] == "call" else "pure " + atom(m[1])))
        return
    _, cond, th, el = m
    out.append("%sif %s then do" % (prefix, cond))
    emit_code(th, ind + 4, out)
    if not el.items and el.final[0] in ("call", "pure"):
        out.append(" " * (ind + 2) + "else " + (el.final[1] if el.final[0] == "call" else "pure " + atom(el.final[1])))
    else:
        out.append(" " * (ind + 2) + "else do")
        emit_code(el, ind + 4, out)


def atom(s):
    """parenthesise unless atomic"""
    s = s.strip()
    if re.fullmatch(r"[\w.'α-ω]+|\(\)", s):
        return s
    if s[0] in "([" and matching_close(s) == len(s) - 1:
        return s
    return "(" + s + ")"


def matching_close(s):
    depth = 0
    for i, ch in enumerate(s):
        if ch in "([":
            depth += 1
        elif ch in ")]":
            depth -= 1
            if depth == 0:
                return i
    return -1


def tuple_pat(names):
    if not names:
        return "_"
    if len(names) == 1:
        return names[0]
    return "(" + ", ".join(names) + ")"


def tuple_val(names):
    if not names:
        return "()"
    if len(names) == 1:
        return names[0]
    return "(" + ", ".join(names) + ")"


def tuple_ty(tys):
    if not tys:
        return "Unit"
    if len(tys) == 1:
        return tys[0].lean()
    return " × ".join(("(%s)" % t.lean()) if isinstance(t, TTuple) else t.lean() for t in tys)


# ================================================================================================== translation

class Var:
    def __init__(self, rust, lean, ty, mutable=True, ref_elem=False):
        self.rust, self.lean, self.ty, self.mutable = rust, lean, ty, mutable
        self.ref_elem = ref_elem      # loop variable of iter_mut(): `*v = e` writes the element


class FnTranslator:
    def __init__(self, unit, fspec, src, body_text, body_pos):
        self.unit, self.spec, self.src = unit, fspec, src
        self.body_text, self.body_pos = body_text, body_pos
        self.lean_fn = fspec["lean"]
        self.aliases = dict(unit.get("aliases", {}))
        self.aliases.update(fspec.get("aliases", {}))
        self.generics = dict(unit.get("generics", {}))          # rust type parameter -> lean type variable
        self.generics.update(fspec.get("generics", {}))
        self.absfns = dict(unit.get("abstract_fns", {}))        # "Op::operation" -> dict(lean=, args=[ty], ret=ty)
        self.absfns.update(fspec.get("abstract_fns", {}))
        self.calls = dict(unit.get("calls", {}))                # rust fn name -> dict(lean=, args=[ty], ret=ty, extra=[lean exprs])
        self.calls.update(fspec.get("calls", {}))
        self.local_types = dict(fspec.get("locals", {}))
        self.fuels = list(fspec.get("fuel", []))
        self.n_for = self.n_while = self.n_tmp = 0
        self.helpers = []           # lean text of loop helpers, in emission order
        self.scopes = []            # list of dict rust name -> Var
        self.used_abs = []          # abstract fns used (parameters of the generated function)
        self.loop_depth = 0
        self.word_types = dict(unit.get("word_types", {}))      # (genukk) rust type name -> lean width variable
        self.word_types.update(fspec.get("word_types", {}))
        self.type_paths = dict(unit.get("type_paths", {}))      # (genukk) "T::DistType" -> type name of the spec
        self.type_paths.update(fspec.get("type_paths", {}))
        self.structs = dict(unit.get("structs", {}))            # (genukk) struct name -> [(field, type)]
        self.structs.update(fspec.get("structs", {}))
        self.signed_arith = bool(unit.get("signed_arith") or fspec.get("signed_arith"))
        global STRUCT_ROOTS
        STRUCT_ROOTS = set(nm for nm, ty in fspec.get("params", []) if self.struct_of(ty) is not None)
        self.fn_aliases = {}        # (genukk) local name -> key of an abstract function (`let cost = &self.ukkonen.cost;`)

    # ---------------------------------------------------------------- helpers
    def err(self, msg, node=None):
        raise Unsupported(msg, node.pos if node is not None else None)

    def struct_of(self, ty_text):
        """(genukk) name of the spec's struct a parameter type `&mut State` / `&Myers` / `State` denotes, else None"""
        t = ty_text.replace("&", " ").split()
        t = [x for x in t if x != "mut"]
        return t[0] if len(t) == 1 and t[0] in self.structs else None

    def width_params(self):
        """(genukk) the width variables of the unit's word types, leading parameters of every generated function"""
        out = []
        for w in list(self.unit.get("word_types", {}).values()) + list(self.spec.get("word_types", {}).values()):
            if w not in out:
                out.append(w)
        return out

    def ty_of_text(self, s):
        toks = tokenize(s, 0)
        p = Parser(toks)
        t = p.type_()
        if p.peek().kind != "eof":
            raise Unsupported("type `%s` in the translation spec" % s)
        return self.ty(t)

    def ty(self, t):
        if t.kind == "tref":
            return self.ty(t.inner)
        if t.kind == "tslice":
            return TSeq(self.ty(t.elem))
        if t.kind == "ttuple":
            return TTuple([self.ty(x) for x in t.items]) if t.items else TUnit()
        nm = t.name
        if nm in WIDTH and not t.args:
            return TInt(nm)
        if nm == "bool" and not t.args:
            return TBool()
        if nm == "Vec" and len(t.args) == 1:
            return TSeq(self.ty(t.args[0]))
        if nm == "Option" and len(t.args) == 1:
            return TOption(self.ty(t.args[0]))
        if nm == "VecMap" and len(t.args) == 1:
            # `vec_map::VecMap<V>`: a map from small `usize` keys; represented by its entries, `get` = `Rs.vecMapGet` (genpm)
            return TSeq(TTuple([TInt("usize"), self.ty(t.args[0])]))
        if nm in ("Enumerate", "Iter") and len(t.args) == 1:
            return TIter(self.ty(t.args[0]), nm == "Enumerate")
        if nm in self.word_types and not t.args:
            return TWord(nm, self.word_types[nm])
        if nm in self.structs and not t.args:
            return TStruct(nm, [f for f, _ in self.structs[nm]], [self.ty_of_text(ft) for _, ft in self.structs[nm]])
        if nm in self.generics and not t.args:
            return TAbs(nm, self.generics[nm])
        if nm in self.aliases and not t.args:
            return self.ty_of_text(self.aliases[nm])
        self.err("type `%s` is not in the translated subset (declare an alias in the spec if it is one)" % nm, t)

    def tmp(self):
        self.n_tmp += 1
        return "t%d" % self.n_tmp

    def lookup(self, name, node):
        for sc in reversed(self.scopes):
            if name in sc:
                return sc[name]
        self.err("unknown variable `%s`" % name, node)

    def declare(self, name, ty, node, mutable=True, ref_elem=False, nested_ok=False):
        if name == "_":
            return Var("_", "_", ty, False)
        # shadowing: allowed in the same scope (old binding dead), refused across scopes inside nested blocks
        # (at the top level of the function body a `let` may shadow a parameter: the parameter is dead from there on)
        top_level = self.loop_depth == 0 and len(self.scopes) == 2
        shadows = False
        for sc in self.scopes[:-1]:
            if name in sc and not nested_ok and not top_level:
                if self.spec.get("shadow_fresh"):
                    # (genukk) the inner variable gets a Lean name of its own (primed), the outer one stays reachable by its
                    # name when the block ends (look-up goes through the scope stack by Rust name)
                    shadows = True
                    break
                self.err("`%s` shadows a variable of an enclosing block (not translated)" % name, node)
        v = Var(name, self.fresh_lean(name, shadows), ty, mutable, ref_elem)
        self.scopes[-1][name] = v
        return v

    def fresh_lean(self, name, avoid_same=False):
        """Lean name for the Rust variable `name`: its own name, primed while another live variable (e.g. the field
        `self.mask` next to a local `mask`) already uses it"""
        lean = lean_name(name)
        live = set(v.lean for sc in self.scopes for k, v in sc.items() if k != name or avoid_same) | set(self.width_params())
        while lean in live:
            lean += "'"
        return lean

    # ---------------------------------------------------------------- variable analysis
    def assigned(self, node, declared=None):
        """rust names of variables declared outside `node` that `node` assigns (in order of first assignment)"""
        out = []
        self._assigned(node, set() if declared is None else set(declared), out)
        return out

    def _lhs_root(self, e):
        while True:
            if e.kind == "index":
                e = e.base
            elif e.kind == "paren":
                e = e.e
            elif e.kind == "un" and e.op == "*":
                e = e.e
            elif e.kind == "field" and e.e.kind == "var" and e.e.name == "self":
                return "self." + e.name
            elif e.kind == "field" and self_path(e) is not None:
                return self_path(e)
            elif e.kind == "var":
                return e.name
            else:
                self.err("assignment target is not a variable, `self.f`, `v[i]` or `*r`", e)

    def _assigned(self, n, decl, out):
        k = n.kind
        if k == "block":
            d = set(decl)
            for s in n.stmts:
                self._assigned(s, d, out)
                if s.kind == "let":
                    for nm in pat_names(s.pat):
                        d.add(nm)
            if n.tail is not None:
                self._assigned(n.tail, d, out)
        elif k == "let":
            self._expr_calls_assigned(n.init, decl, out)
        elif k == "assign":
            self._expr_calls_assigned(n.rhs, decl, out)
            r = self._lhs_root(n.lhs)
            if n.lhs.kind == "un" and n.lhs.op == "*":
                # `*r = e` where r is an iter_mut loop variable: the write goes to the sequence, handled by the loop
                r = "*" + r
            if r not in decl and r not in out:
                out.append(r)
        elif k == "exprs":
            e = n.e
            ckey = None
            if e.kind == "mcall" and method_key(e) in self.calls:
                ckey = method_key(e)
            elif e.kind == "call" and "::".join(e.path) in self.calls:
                ckey = "::".join(e.path)
            if ckey is not None:
                # (genukk) a call that receives `&mut S` arguments assigns the fields of those structs
                self._call_assigned(ckey, e.args, decl, out)
            elif e.kind == "mcall" and e.name in SEQ_MUTATORS:
                r = self._lhs_root(e.recv)
                if r not in decl and r not in out:
                    out.append(r)
            else:
                self._assigned(e, decl, out)
        elif k in ("ifs", "tail"):
            self._assigned(n.e, decl, out)
        elif k == "if":
            self._assigned(n.then, decl, out)
            if n.els is not None:
                self._assigned(n.els, decl, out)
        elif k == "while":
            self._assigned(n.body, decl, out)
        elif k == "loop":
            self._assigned(n.body, decl, out)
        elif k == "match":
            for pat, b, _ in n.arms:
                self._assigned(b, set(decl) | ({pat[1]} if pat[0] == "some" else set()), out)
        elif k == "for" and iter_state_target(n.iter) is not None:
            # `for pat in it.by_ref()` / `in &mut it`: the iterator state itself is consumed (genpm)
            r = self._lhs_root(iter_state_target(n.iter))
            if r not in decl and r not in out:
                out.append(r)
            self._assigned(n.body, set(decl) | set(pat_names(n.pat)), out)
        elif k == "for" and zip_mut_parts(n.iter) is not None:
            # (genukk) `for (x, y) in xs.iter_mut().zip(ys)`: the sequence `xs` is rebuilt
            r = self._lhs_root(zip_mut_parts(n.iter)[0])
            if r not in decl and r not in out:
                out.append(r)
            self._assigned(n.body, set(decl) | set(pat_names(n.pat)), out)
        elif k == "for":
            d = set(decl) | set(pat_names(n.pat))
            inner = []
            self._assigned(n.body, d, inner)
            it_mut = iter_mut_target(n.iter)
            for r in inner:
                if r.startswith("*"):
                    if it_mut is None or r[1:] not in pat_names(n.pat):
                        self.err("`*%s = …` outside a `for %s in ….iter_mut()` loop" % (r[1:], r[1:]), n)
                    r = self._lhs_root(it_mut)
                if r not in decl and r not in out:
                    out.append(r)
        # expressions do not assign (no nested blocks except `if` expressions, handled above)

    def _call_assigned(self, ckey, args, decl, out):
        """(genukk) what a call of the translated function `ckey` assigns: `self_outs`, and the `&mut S` arguments"""
        f = self.calls[ckey]
        names = ["self." + a for a in f.get("self_outs", [])]
        for a, at in zip(args, f["args"]):
            sname = self.struct_of(at)
            if sname is not None and at.replace(" ", "").startswith("&mut"):
                names += self.struct_arg_names(a, sname)
        for nm in names:
            if nm not in decl and nm.split(".")[0] not in decl and nm not in out:
                out.append(nm)

    def _expr_calls_assigned(self, e, decl, out):
        """(genukk) calls with `&mut` effects inside an expression (`carry = advance_block(state, ..)`)"""
        for x in all_nodes(e):
            if x.kind == "mcall" and method_key(x) in self.calls:
                self._call_assigned(method_key(x), x.args, decl, out)
            elif x.kind == "call" and "::".join(x.path) in self.calls:
                self._call_assigned("::".join(x.path), x.args, decl, out)

    def reads(self, node):
        """rust names read anywhere in `node`"""
        out = []
        self._reads(node, out)
        return out

    def _reads(self, n, out):
        if isinstance(n, N):
            if n.kind == "var":
                if n.name not in out:
                    out.append(n.name)
            elif n.kind == "field" and n.e.kind == "var" and n.e.name == "self":
                nm = "self." + n.name
                if nm not in out:
                    out.append(nm)
            elif n.kind == "field" and self_path(n) is not None:
                nm = self_path(n)
                if nm not in out:
                    out.append(nm)
            elif (n.kind == "mcall" and method_key(n) is not None and method_key(n) in self.calls) or \
                    (n.kind == "call" and "::".join(n.path) in self.calls):
                f = self.calls[method_key(n) if n.kind == "mcall" else "::".join(n.path)]
                for a in f.get("self_args", []):
                    if "self." + a not in out:
                        out.append("self." + a)
                for a in f.get("recv_args", []):
                    if a not in out:
                        out.append(a)
                for a, at in zip(n.args, f["args"]):
                    sname = self.struct_of(at)
                    if sname is not None:
                        # (genukk) a struct argument reads the variables that hold its fields
                        for nm in self.struct_arg_names(a, sname):
                            if nm not in out:
                                out.append(nm)
                        self._reads(a, out)
                    else:
                        self._reads(a, out)
            elif n.kind == "match":
                self._reads(n.scrut, out)
                for _, b, _ in n.arms:
                    self._reads(b, out)
            else:
                for k, v in n.__dict__.items():
                    if k in ("kind", "pos"):
                        continue
                    self._reads(v, out)
        elif isinstance(n, (list, tuple)):
            for x in n:
                self._reads(x, out)

    # ---------------------------------------------------------------- expressions
    def lit_type(self, e, expected):
        if e.suf:
            return TInt(e.suf)
        if isinstance(expected, TInt):
            return expected
        self.err("the type of the literal `%d` cannot be read off the text (give the variable a type in the spec)" % e.v, e)

    def is_lit(self, e):
        while e.kind == "paren":
            e = e.e
        return e.kind == "lit" and not e.suf

    def expr(self, e, code, expected=None):
        """translate `e`, appending the needed binds to `code`; returns (pure lean text, type)"""
        k = e.kind
        if k == "paren":
            return self.expr(e.e, code, expected)
        if k == "lit":
            t = self.lit_type(e, expected)
            if isinstance(t, TWord):
                if e.v not in (0, 1):
                    self.err("literal %d of the generic word type %s (only 0 and 1 fit every width)" % (e.v, t.name), e)
                return str(e.v), t
            lo, hi = (-(2 ** (t.w - 1)), 2 ** (t.w - 1) - 1) if t.signed else (0, 2 ** t.w - 1)
            if not (lo <= e.v <= hi):
                self.err("literal %d does not fit %s" % (e.v, t.name), e)
            return str(e.v), t
        if k == "blit":
            return ("true" if e.v else "false"), TBool()
        if k == "var" and e.name == "None" and not any("None" in sc for sc in self.scopes):
            if not isinstance(expected, TOption):
                self.err("the type of `None` cannot be read off the text (give the variable a type in the spec)", e)
            return "none", expected
        if k == "var":
            v = self.lookup(e.name, e)
            return v.lean, v.ty
        if k == "field":
            if e.e.kind == "var" and e.e.name == "self":
                v = self.lookup("self." + e.name, e)
                return v.lean, v.ty
            if self_path(e) is not None:
                v = self.lookup(self_path(e), e)
                return v.lean, v.ty
            if e.e.kind in ("index", "var", "paren"):
                # (genukk) `v[i].dist`, `peq[i].peq`: projection of a struct value
                b, bt = self.expr(e.e, code)
                if isinstance(bt, TStruct) and e.name in bt.fields:
                    return "%s%s" % (atom(b), bt.proj(e.name)), bt.items[bt.fields.index(e.name)]
            self.err("field access `.%s` on something other than `self`" % e.name, e)
        if k == "index":
            if e.idx.kind == "range":
                self.err("a sub-slice `v[a..b]` is only translated as the source of a `for` loop", e)
            b, bt = self.expr(e.base, code)
            if not isinstance(bt, TSeq):
                self.err("indexing into a value of type %r" % (bt,), e)
            i, it = self.expr(e.idx, code, TInt("usize"))
            if it != TInt("usize"):
                self.err("index of type %r (usize expected)" % (it,), e.idx)
            t = self.tmp()
            code.bind(t, ("call", "Rs.idx %s %s" % (atom(b), atom(i))))
            return t, bt.elem
        if k == "cast":
            target = self.ty(e.ty)
            s, st = self.expr(e.e, code, None if not self.is_lit(e.e) else target)
            if isinstance(st, TBool) and isinstance(target, TInt) and not isinstance(target, TWord) and self.signed_arith:
                return "Rs.ofBool %s" % atom(s), target           # (genukk) `cond as i8`: 0 / 1
            if not (isinstance(st, TInt) and isinstance(target, TInt)):
                self.err("cast `as %r` from %r" % (target, st), e)
            if isinstance(st, TWord) or isinstance(target, TWord):
                self.err("cast between %r and %r (a generic word type)" % (st, target), e)
            if st.signed and target.w > st.w and self.signed_arith:
                return "Rs.sext %d %d %s" % (st.w, target.w, atom(s)), target     # (genukk) sign extension of the bit pattern
            if st.signed and target.w > st.w:
                self.err("sign-extending cast %r as %r" % (st, target), e)
            if target.w >= st.w:
                return s, target               # widening of an unsigned value / same-width reinterpretation of the bit pattern
            return "Rs.cast %s %s" % (target.w, atom(s)), target
        if k == "un":
            if e.op in ("&", "&mut"):
                return self.expr(e.e, code, expected)
            if e.op == "*":
                inner = e.e
                if inner.kind == "mcall" and inner.name == "borrow" and not inner.args:
                    return self.expr(inner.recv, code, expected)
                if inner.kind == "var":
                    return self.expr(inner, code, expected)
                self.err("dereference of something other than a variable or `x.borrow()`", e)
            if e.op == "!":
                s, t = self.expr(e.e, code, expected)
                if isinstance(t, TBool):
                    return "!" + atom(s), t
                if isinstance(t, TInt) and not t.signed:
                    return "Rs.not %s %s" % (t.w, atom(s)), t
                self.err("`!` on %r" % (t,), e)
            if e.op == "-":
                s, t = self.expr(e.e, code, expected)
                if isinstance(t, TInt) and t.signed:
                    r = self.tmp()
                    code.bind(r, ("call", "Rs.neg %s %s" % (t.w, atom(s))))
                    return r, t
                self.err("unary `-` on %r (only signed bit patterns)" % (t,), e)
        if k == "wordsize":
            if e.targ in self.word_types:
                return self.word_types[e.targ], TInt("usize")
            if e.targ in WIDTH:
                return str(WIDTH[e.targ]), TInt("usize")
            self.err("`word_size::<%s>()` of a type the spec does not know" % e.targ, e)
        if k == "bin":
            return self.binary(e, code, expected)
        if k == "mcall":
            return self.mcall(e, code, expected)
        if k == "call":
            return self.call(e, code, expected)
        if k == "macro":
            return self.macro(e, code, expected)
        if k == "repeat":
            return self.replicate(e.v, e.n, code, expected, e)
        if k == "tuple":
            if not e.items:
                return "()", TUnit()
            exp = expected.items if isinstance(expected, TTuple) and len(expected.items) == len(e.items) else [None] * len(e.items)
            parts = [self.expr(x, code, ex) for x, ex in zip(e.items, exp)]
            return "(" + ", ".join(p[0] for p in parts) + ")", TTuple([p[1] for p in parts])
        if k == "struct":
            want = self.spec.get("struct_fields", {}).get(e.name)
            if want is not None and any(isinstance(w, tuple) for w in want):
                # typed field list (genpm): [(name, type)]; a field initialised with `self` (a reference to the receiver,
                # whose fields are parameters of the translated functions anyway) is dropped
                fields = [(f, x) for f, x in e.fields
                          if not (x.kind == "var" and (x.name == "self" or x.name in STRUCT_ROOTS))]
                if [f for f, _ in fields] != [w[0] for w in want]:
                    self.err("struct literal `%s` has fields %s, the spec (and the theorems) expect %s in this order"
                             % (e.name, ",".join(f for f, _ in fields), ",".join(w[0] for w in want)), e)
                parts = []
                for (f, x), (_, wt) in zip(fields, want):
                    wty = self.ty_of_text(wt)
                    s_, t_ = self.expr(x, code, wty)
                    if t_ != wty:
                        self.err("field `%s` of `%s` has type %r, the spec says %r" % (f, e.name, t_, wty), x)
                    parts.append((s_, t_))
                return "(" + ", ".join(p[0] for p in parts) + ")", TTuple([p[1] for p in parts])
            names = [f for f, _ in e.fields]
            if want is None:
                self.err("struct literal `%s {…}`: the spec does not list its fields (`struct_fields`)" % e.name, e)
            if names != list(want):
                self.err("struct literal `%s` has fields %s, the spec (and the theorems) expect %s in this order"
                         % (e.name, ",".join(names), ",".join(want)), e)
            parts = [self.expr(x, code, None) for _, x in e.fields]
            return "(" + ", ".join(p[0] for p in parts) + ")", TTuple([p[1] for p in parts])
        if k == "if":
            return self.if_expr(e, code, expected)
        if k == "range":
            self.err("a range is only translated as the source of a `for` loop or as a slice bound there", e)
        if k == "str":
            self.err("string literal outside `assert!`", e)
        self.err("expression `%s`" % k, e)

    def binary(self, e, code, expected):
        op = e.op
        if op in ("&&", "||"):
            l, lt = self.expr(e.l, code, TBool())
            sub = Code()
            r, rt = self.expr(e.r, sub, TBool())
            if not (isinstance(lt, TBool) and isinstance(rt, TBool)):
                self.err("`%s` on non-boolean operands" % op, e)
            if not sub.items:
                return "%s %s %s" % (atom(l), op, atom(r)), TBool()
            # the right operand may panic: keep the short circuit
            sub.final = ("pure", r)
            t = self.tmp()
            other = Code()
            other.final = ("pure", "false" if op == "&&" else "true")
            if op == "&&":
                code.bind(t, ("if", l, sub, other))
            else:
                code.bind(t, ("if", l, other, sub))
            return t, TBool()
        if op in ("==", "!=", "<", ">", "<=", ">="):
            lt_hint = None
            if self.is_lit(e.l) and not self.is_lit(e.r):
                r, rt = self.expr(e.r, code)
                l, lt = self.expr(e.l, code, rt)
                # keep source order of evaluation irrelevant: a literal has no effects
            elif op in ("==", "!=") and (self.is_subslice(e.l) or self.is_subslice(e.r)):
                # `a[i..j] == b[..k]`: comparison of sub-slices (genpm)
                l, lt = self.subslice(e.l, code) if self.is_subslice(e.l) else self.expr(e.l, code)
                r, rt = self.subslice(e.r, code) if self.is_subslice(e.r) else self.expr(e.r, code, lt)
            else:
                l, lt = self.expr(e.l, code)
                r, rt = self.expr(e.r, code, lt)
            if lt != rt:
                self.err("comparison of %r with %r" % (lt, rt), e)
            if isinstance(lt, TInt) and lt.signed and self.signed_arith and op in ("<", ">", "<=", ">="):
                # (genukk) comparison of signed values through their integer value
                return "decide (Rs.toInt %d %s %s Rs.toInt %d %s)" % (
                    lt.w, atom(l), {"<": "<", ">": ">", "<=": "≤", ">=": "≥"}[op], lt.w, atom(r)), TBool()
            if isinstance(lt, TInt) and lt.signed and not (self.signed_arith and op in ("==", "!=")):
                self.err("comparison of signed values (only bit operations are translated on signed types)", e)
            if op in ("==", "!="):
                if not isinstance(lt, (TInt, TBool, TSeq)):
                    self.err("`%s` on %r" % (op, lt), e)
                return "%s %s %s" % (atom(l), op, atom(r)), TBool()
            if not isinstance(lt, TInt):
                self.err("`%s` on %r" % (op, lt), e)
            return "decide (%s %s %s)" % (atom(l), {"<": "<", ">": ">", "<=": "≤", ">=": "≥"}[op], atom(r)), TBool()
        # arithmetic / bit operations
        if op in ("<<", ">>"):
            l, lt = self.expr(e.l, code, expected)
            r, rt = self.expr(e.r, code, TInt("u32") if self.is_lit(e.r) else None)
            if not (isinstance(lt, TInt) and isinstance(rt, TInt)) or lt.signed or rt.signed:
                self.err("shift on %r by %r" % (lt, rt), e)
            t = self.tmp()
            code.bind(t, ("call", "Rs.%s %s %s %s" % ("shl" if op == "<<" else "shr", lt.w, atom(l), atom(r))))
            return t, lt
        if self.is_lit(e.l) and not self.is_lit(e.r):
            r0 = Code()
            _, rt0 = self.expr(e.r, r0, expected)      # type only (dry run on a scratch block, temporaries re-numbered below)
            self.n_tmp -= sum(1 for it in r0.items if it[0] == "bind" and re.fullmatch(r"t\d+", it[1]))
            l, lt = self.expr(e.l, code, rt0)
            r, rt = self.expr(e.r, code, expected)
        else:
            l, lt = self.expr(e.l, code, expected)
            r, rt = self.expr(e.r, code, lt)
        if lt != rt or not isinstance(lt, TInt):
            self.err("`%s` on %r and %r" % (op, lt, rt), e)
        if op in ("&", "|", "^"):
            return "%s %s %s" % (atom(l), {"&": "&&&", "|": "|||", "^": "^^^"}[op], atom(r)), lt
        if lt.signed and self.signed_arith and op in ("+", "-"):
            # (genukk) checked signed addition / subtraction on two's-complement bit patterns
            t = self.tmp()
            code.bind(t, ("call", "Rs.%s %d %s %s" % ("addI" if op == "+" else "subI", lt.w, atom(l), atom(r))))
            return t, lt
        if lt.signed:
            self.err("arithmetic `%s` on the signed type %r (only bit operations are translated on signed types)" % (op, lt), e)
        if op in ("/", "%") and self.is_lit(e.r) and int(r) != 0:
            return "%s %s %s" % (atom(l), op, r), lt
        t = self.tmp()
        if op == "+":
            code.bind(t, ("call", "Rs.add %s %s %s" % (lt.w, atom(l), atom(r))))
        elif op == "-":
            code.bind(t, ("call", "Rs.sub %s %s" % (atom(l), atom(r))))
        elif op == "*":
            code.bind(t, ("call", "Rs.mul %s %s %s" % (lt.w, atom(l), atom(r))))
        elif op == "/":
            code.bind(t, ("call", "Rs.div %s %s" % (atom(l), atom(r))))
        elif op == "%":
            code.bind(t, ("call", "Rs.rem %s %s" % (atom(l), atom(r))))
        else:
            self.err("operator `%s`" % op, e)
        return t, lt

    def replicate(self, v, n, code, expected, node):
        el_exp = expected.elem if isinstance(expected, TSeq) else None
        vs, vt = self.expr(v, code, el_exp)
        ns, nt = self.expr(n, code, TInt("usize"))
        if nt != TInt("usize"):
            self.err("repeat count of type %r" % (nt,), node)
        return "List.replicate %s %s" % (atom(ns), atom(vs)), TSeq(vt)

    def mcall(self, e, code, expected):
        nm = e.name
        mkey = method_key(e)
        if mkey is not None and mkey in self.calls:
            # `self.kmp.delta(q, a)`: a translated method of a struct reachable from `self`; the fields of that struct
            # it reads (`self_args` in the spec) are passed first (genpm)
            f = self.calls[mkey]
            if any(self.struct_of(a) is not None for a in f["args"]) or f.get("recv_args") or f.get("extra"):
                return self.struct_call(mkey, f, e.args, code, e)
            if len(f["args"]) != len(e.args):
                self.err("`%s` called with %d arguments, the spec says %d" % (mkey, len(e.args), len(f["args"])), e)
            parts = [self.lookup("self." + a, e).lean for a in f.get("self_args", [])]
            for a, at in zip(e.args, f["args"]):
                want = self.ty_of_text(at)
                s_, t_ = self.expr(a, code, want)
                if t_ != want:
                    self.err("argument of `%s` has type %r, the spec says %r" % (mkey, t_, want), a)
                parts.append(atom(s_))
            t = self.tmp()
            code.bind(t, ("call", f["lean"] + "".join(" " + p for p in parts)))
            return t, self.ty_of_text(f["ret"])
        if nm == "unwrap" and not e.args and e.recv.kind == "mcall" and e.recv.name in ("to_usize", "to_u64") and not e.recv.args:
            # (genukk) `x.to_usize().unwrap()` (num_traits::ToPrimitive): the value if it fits, else `None` → panic
            s_, t_ = self.expr(e.recv.recv, code)
            if not isinstance(t_, TInt) or t_.signed:
                self.err("`.%s()` on %r" % (e.recv.name, t_), e)
            t = self.tmp()
            code.bind(t, ("call", "Rs.cvt 64 %s" % atom(s_)))
            return t, TInt("usize" if e.recv.name == "to_usize" else "u64")
        if nm == "unwrap" and not e.args and e.recv.kind == "call" and e.recv.path[-1] in ("from_usize", "from_u64") \
                and len(e.recv.args) == 1 and self.type_of_path(e.recv.path[:-1]) is not None:
            # (genukk) `D::from_usize(x).unwrap()` (num_traits::FromPrimitive)
            target = self.type_of_path(e.recv.path[:-1])
            src_t = TInt("usize" if e.recv.path[-1] == "from_usize" else "u64")
            s_, t_ = self.expr(e.recv.args[0], code, src_t)
            if t_ != src_t:
                self.err("`%s` of %r" % (e.recv.path[-1], t_), e)
            t = self.tmp()
            code.bind(t, ("call", "Rs.cvt %s %s" % (target.w, atom(s_))))
            return t, target
        if nm == "unwrap_or" and len(e.args) == 1 and e.recv.kind == "mcall" and e.recv.name == "map" \
                and len(e.recv.args) == 1 and e.recv.args[0].kind == "projclosure" \
                and e.recv.recv.kind == "mcall" and e.recv.recv.name == "last" and not e.recv.recv.args:
            # (genukk) `v.last().map(|s| s.f).unwrap_or(d)` on a vector of structs
            r, t = self.expr(e.recv.recv.recv, code)
            fld = e.recv.args[0].field
            if not (isinstance(t, TSeq) and isinstance(t.elem, TStruct) and fld in t.elem.fields):
                self.err("`.last().map(|s| s.%s)` on %r" % (fld, t), e)
            ft = t.elem.items[t.elem.fields.index(fld)]
            d, dt = self.expr(e.args[0], code, ft)
            if dt != ft:
                self.err("`.unwrap_or(%r)` on an option of %r" % (dt, ft), e)
            return "((%s.getLast?).map (fun s => s%s)).getD %s" % (atom(r), t.elem.proj(fld), atom(d)), ft
        if nm == "map" and len(e.args) == 1 and e.args[0].kind == "projclosure" and e.recv.kind == "mcall" \
                and e.recv.name == "get" and len(e.recv.args) == 1:
            # (genukk) `v.get(i).map(|s| s.f)` on a vector of structs
            r, t = self.expr(e.recv.recv, code)
            fld = e.args[0].field
            if not (isinstance(t, TSeq) and isinstance(t.elem, TStruct) and fld in t.elem.fields):
                self.err("`.get(i).map(|s| s.%s)` on %r" % (fld, t), e)
            i_, it_ = self.expr(e.recv.args[0], code, TInt("usize"))
            if it_ != TInt("usize"):
                self.err("`.get(%r)`" % (it_,), e)
            return "(%s[%s]?).map (fun s => s%s)" % (atom(r), i_, t.elem.proj(fld)), TOption(t.elem.items[t.elem.fields.index(fld)])
        if nm == "saturating_add" and len(e.args) == 1:
            l, lt = self.expr(e.recv, code, expected)
            r, rt = self.expr(e.args[0], code, lt)
            if lt != rt or not isinstance(lt, TInt) or lt.signed:
                self.err("`saturating_add` on %r and %r" % (lt, rt), e)
            return "Rs.saturatingAdd %s %s %s" % (lt.w, atom(l), atom(r)), lt
        if nm == "len" and not e.args:
            r, t = self.expr(e.recv, code)
            if not isinstance(t, TSeq):
                self.err("`.len()` on %r" % (t,), e)
            return "%s.length" % atom(r), TInt("usize")
        if nm == "collect" and not e.args:
            # repeat(v).take(n).collect()
            r = e.recv
            if (r.kind == "mcall" and r.name == "take" and len(r.args) == 1 and r.recv.kind == "call"
                    and r.recv.path[-1] == "repeat" and len(r.recv.args) == 1):
                return self.replicate(r.recv.args[0], r.args[0], code, expected, e)
            self.err("`.collect()` other than `repeat(v).take(n).collect()`", e)
        if nm in ("wrapping_add", "wrapping_sub", "wrapping_mul") and len(e.args) == 1:
            l, lt = self.expr(e.recv, code, expected)
            r, rt = self.expr(e.args[0], code, lt)
            if lt != rt or not isinstance(lt, TInt) or lt.signed:
                self.err("`%s` on %r and %r" % (nm, lt, rt), e)
            fn = {"wrapping_add": "wrappingAdd", "wrapping_sub": "wrappingSub", "wrapping_mul": "wrappingMul"}[nm]
            return "Rs.%s %s %s %s" % (fn, lt.w, atom(l), atom(r)), lt
        if nm == "wrapping_neg" and not e.args:
            l, lt = self.expr(e.recv, code, expected)
            if not isinstance(lt, TInt):
                self.err("`wrapping_neg` on %r" % (lt,), e)
            return "Rs.wrappingNeg %s %s" % (lt.w, atom(l)), lt
        if nm in ("borrow", "clone", "to_owned") and not e.args and nm == "borrow":
            return self.expr(e.recv, code, expected)
        if nm in ("into_iter", "iter") and not e.args:
            r, t = self.expr(e.recv, code, expected)
            if not isinstance(t, TSeq):
                self.err("`.%s()` on %r" % (nm, t), e)
            return r, t                  # a slice read as the iterator over its elements (len(), enumerate(), a call) (genpm)
        if nm == "rev" and not e.args:
            r, t = self.expr(e.recv, code, expected)
            if not isinstance(t, TSeq):
                self.err("`.rev()` on %r" % (t,), e)
            return "%s.reverse" % atom(r), t               # a slice's iterator, reversed, as an argument (genpm)
        if nm == "enumerate" and not e.args:
            r, t = self.expr(e.recv, code)
            if not isinstance(t, TSeq):
                self.err("`.enumerate()` on %r" % (t,), e)
            return "(%s, 0)" % r, TIter(t.elem, True)      # fresh `Enumerate`: all items, counter 0 (genpm)
        if nm == "copied" and not e.args and e.recv.kind == "mcall" and e.recv.name == "get" and len(e.recv.args) == 1:
            # `map.get(k).copied()` on a `VecMap` (genpm)
            r, t = self.expr(e.recv.recv, code)
            if not (isinstance(t, TSeq) and isinstance(t.elem, TTuple) and len(t.elem.items) == 2 and t.elem.items[0] == TInt("usize")):
                self.err("`.get(k).copied()` on %r (only `VecMap` is translated)" % (t,), e)
            k_, kt = self.expr(e.recv.args[0], code, TInt("usize"))
            if kt != TInt("usize"):
                self.err("`VecMap::get` with a key of type %r" % (kt,), e)
            return "Rs.vecMapGet %s %s" % (atom(r), atom(k_)), TOption(t.elem.items[1])
        if nm in ("is_some", "is_none") and not e.args:
            r, t = self.expr(e.recv, code)
            if not isinstance(t, TOption):
                self.err("`.%s()` on %r" % (nm, t), e)
            return "%s.%s" % (atom(r), "isSome" if nm == "is_some" else "isNone"), TBool()
        self.err("method `.%s(…)` is outside the translated subset" % nm, e)

    def call(self, e, code, expected):
        path = "::".join(e.path)
        if len(e.path) == 1 and e.path[0] in self.fn_aliases and not any(e.path[0] in sc for sc in self.scopes):
            path = self.fn_aliases[e.path[0]]
        if e.path == ["Some"] and len(e.args) == 1:
            s, t = self.expr(e.args[0], code, expected.elem if isinstance(expected, TOption) else None)
            return "some " + atom(s), TOption(t)
        if (e.path == ["min"] or e.path == ["max"] or e.path[-2:] in (["cmp", "min"], ["cmp", "max"])) and len(e.args) == 2 \
                and e.path[-1] not in self.calls and path not in self.absfns:
            # `std::cmp::min(a, b)` on unsigned integers (genpm)
            if self.is_lit(e.args[0]) and not self.is_lit(e.args[1]):
                r, rt = self.expr(e.args[1], code, expected)
                l, lt = self.expr(e.args[0], code, rt)
            else:
                l, lt = self.expr(e.args[0], code, expected)
                r, rt = self.expr(e.args[1], code, lt)
            if lt != rt or not isinstance(lt, TInt) or lt.signed:
                self.err("`%s` on %r and %r" % (e.path[-1], lt, rt), e)
            return "Nat.%s %s %s" % (e.path[-1], atom(l), atom(r)), lt
        if len(e.path) >= 2 and e.path[-1] in ("zero", "one", "max_value", "min_value") and not e.args \
                and self.type_of_path(e.path[:-1]) is not None:
            # (genukk) `T::zero()`, `T::one()`, `T::max_value()` of num_traits on an unsigned integer type
            t = self.type_of_path(e.path[:-1])
            if e.path[-1] in ("zero", "min_value"):
                return "0", t
            if e.path[-1] == "one":
                return "1", t
            return ("Rs.maxVal %s" % t.w if isinstance(t, TWord) else str(2 ** t.w - 1)), t
        if path in self.calls and len(e.path) >= 2:
            return self.struct_call(path, self.calls[path], e.args, code, e)
        if path in self.absfns:
            f = self.absfns[path]
            if len(f["args"]) != len(e.args):
                self.err("`%s` called with %d arguments, the spec says %d" % (path, len(e.args), len(f["args"])), e)
            parts = []
            for a, at in zip(e.args, f["args"]):
                want = self.ty_of_text(at)
                s, t = self.expr(a, code, want)
                if t != want:
                    self.err("argument of `%s` has type %r, the spec says %r" % (path, t, want), a)
                parts.append(atom(s))
            if f["lean"] not in self.used_abs:
                self.used_abs.append(f["lean"])
            return (f["lean"] + "".join(" " + p for p in parts)), self.ty_of_text(f["ret"])
        if len(e.path) == 2 and e.path[1] == "from" and e.path[0] in WIDTH and len(e.args) == 1:
            target = TInt(e.path[0])
            s, st = self.expr(e.args[0], code, None)
            if not isinstance(st, TInt) or st.signed or target.signed or st.w > target.w:
                self.err("`%s::from` of %r" % (e.path[0], st), e)
            return s, target
        if len(e.path) == 2 and e.path == ["Vec", "new"] and not e.args:
            if not isinstance(expected, TSeq):
                self.err("`Vec::new()` without a declared element type", e)
            return "[]", expected
        if len(e.path) == 1 and e.path[0] in self.calls and \
                (any(self.struct_of(a) is not None for a in self.calls[e.path[0]]["args"]) or self.calls[e.path[0]].get("self_outs")):
            return self.struct_call(e.path[0], self.calls[e.path[0]], e.args, code, e)       # (genukk)
        if len(e.path) == 1 and e.path[0] in self.calls:
            f = self.calls[e.path[0]]
            if len(f["args"]) != len(e.args):
                self.err("`%s` called with %d arguments, the spec says %d" % (path, len(e.args), len(f["args"])), e)
            parts = list(f.get("extra", []))
            for a, at in zip(e.args, f["args"]):
                want = self.ty_of_text(at)
                s, t = self.expr(a, code, want)
                if t != want:
                    self.err("argument of `%s` has type %r, the spec says %r" % (path, t, want), a)
                parts.append(atom(s))
            t = self.tmp()
            code.bind(t, ("call", f["lean"] + "".join(" " + p for p in parts)))
            return t, self.ty_of_text(f["ret"])
        self.err("call of `%s` (not declared in the translation spec)" % path, e)

    def type_of_path(self, path):
        """(genukk) `T` / `T::DistType` / `usize` as the prefix of an associated-function path → the unsigned integer type"""
        key = "::".join(path)
        if key in self.type_paths:
            return self.ty_of_text(self.type_paths[key])
        if len(path) == 1 and path[0] in self.word_types:
            return TWord(path[0], self.word_types[path[0]])
        if len(path) == 1 and path[0] in WIDTH and path[0][0] == "u":
            return TInt(path[0])
        return None

    def struct_fields_of(self, arg, sname, node):
        """(genukk) the variables that hold the fields of the struct value `arg` (`state`, `&mut self.state`)"""
        while arg.kind == "paren" or (arg.kind == "un" and arg.op in ("&", "&mut")):
            arg = arg.e
        if arg.kind == "var" and arg.name in STRUCT_ROOTS:
            root = arg.name
        elif arg.kind == "field" and self_path(arg) is not None:
            root = self_path(arg)
        else:
            self.err("argument of struct type `%s` is not a parameter or a `self` field whose fields the spec lists" % sname, node)
        return [self.lookup("%s.%s" % (root, f), node) for f, _ in self.structs[sname]]

    def struct_arg_names(self, arg, sname):
        """(genukk) rust names of the variables a `&mut S` argument modifies (no look-up: used by the assignment analysis)"""
        while arg.kind == "paren" or (arg.kind == "un" and arg.op in ("&", "&mut")):
            arg = arg.e
        if arg.kind == "index":
            return [self._lhs_root(arg.base)]
        if arg.kind == "var" and arg.name not in STRUCT_ROOTS:
            return [arg.name]
        root = arg.name if arg.kind == "var" else self_path(arg)
        if root is None:
            return []
        if any(root in sc for sc in self.scopes):
            return [root]           # a variable that holds the whole struct value
        return ["%s.%s" % (root, f) for f, _ in self.structs[sname]]

    def struct_arg(self, arg, sname, mutable, code, node):
        """(genukk) pass the struct value `arg` field by field.  Returns (lean texts of the fields, lean names that receive the
        new field values after the call [if `mutable`], function(code) that stores them back).  `arg` is a parameter / `self`
        field whose fields are variables, an element `v[i]` of a vector of structs, or a local variable of the struct type."""
        while arg.kind == "paren" or (arg.kind == "un" and arg.op in ("&", "&mut")):
            arg = arg.e
        st = self.ty_of_text(sname)
        n = len(st.fields)
        if arg.kind == "index" and arg.base.kind in ("var", "field") and arg.idx.kind != "range":
            v = self.lookup(self._lhs_root(arg.base), node)
            if not (isinstance(v.ty, TSeq) and v.ty.elem == st):
                self.err("`%s[..]` as an argument of struct type `%s`: it has type %r" % (v.rust, sname, v.ty), node)
            i, it = self.expr(arg.idx, code, TInt("usize"))
            if it != TInt("usize"):
                self.err("index of type %r" % (it,), arg.idx)
            if not re.fullmatch(r"[\w.']+", i):
                ti = self.tmp()
                code.let(ti, i)
                i = ti
            el = self.tmp()
            code.bind(el, ("call", "Rs.idx %s %s" % (atom(v.lean), atom(i))))
            ins = [self.tmp() for _ in range(n)]
            code.let(tuple_pat(ins), el)
            if not mutable:
                return ins, [], None
            outs = [self.tmp() for _ in range(n)]
            return ins, outs, (lambda c: c.bind(v.lean, ("call", "Rs.setIdx %s %s %s" % (atom(v.lean), atom(i), tuple_val(outs)))))
        if arg.kind == "var" and any(arg.name in sc for sc in self.scopes):
            v = self.lookup(arg.name, node)
            if v.ty != st:
                self.err("`%s` as an argument of struct type `%s`: it has type %r" % (v.rust, sname, v.ty), node)
            ins = [self.tmp() for _ in range(n)]
            code.let(tuple_pat(ins), v.lean)
            if not mutable:
                return ins, [], None
            outs = [self.tmp() for _ in range(n)]
            return ins, outs, (lambda c: c.let(v.lean, tuple_val(outs)))
        vs = self.struct_fields_of(arg, sname, node)
        return [v.lean for v in vs], ([v.lean for v in vs] if mutable else []), None

    def struct_call(self, key, f, args, code, node, as_stmt=False):
        """(genukk) call of another translated function that takes struct arguments: a `&mut S` argument passes the fields of
        the struct and gets all of them back (in field order, before the declared return value); `&S` passes the fields.
        `self_outs`: `self` fields the callee (a `&mut self` method) assigns — it returns them first."""
        if len(f["args"]) != len(args):
            self.err("`%s` called with %d arguments, the spec says %d" % (key, len(args), len(f["args"])), node)
        parts = list(f.get("extra", []))
        parts += [self.lookup(a, node).lean for a in f.get("recv_args", [])]
        parts += [self.lookup("self." + a, node).lean for a in f.get("self_args", [])]
        outs = [self.lookup("self." + a, node).lean for a in f.get("self_outs", [])]
        posts = []
        for a, at in zip(args, f["args"]):
            sname = self.struct_of(at)
            if sname is not None:
                ins, o, post = self.struct_arg(a, sname, at.replace(" ", "").startswith("&mut"), code, node)
                parts += ins
                outs += o
                if post is not None:
                    posts.append(post)
                continue
            want = self.ty_of_text(at)
            s_, t_ = self.expr(a, code, want)
            if t_ != want:
                self.err("argument of `%s` has type %r, the spec says %r" % (key, t_, want), a)
            parts.append(atom(s_))
        ret = self.ty_of_text(f["ret"]) if f.get("ret") else None
        call = f["lean"] + "".join(" " + p for p in parts)
        if ret is None:
            if not as_stmt:
                self.err("`%s` returns no value" % key, node)
            code.bind(tuple_pat(outs) if outs else "_", ("call", call))
            for post in posts:
                post(code)
            return None, TUnit()
        t = self.tmp() if not as_stmt else "_"
        code.bind(tuple_pat(outs + [t]), ("call", call))
        for post in posts:
            post(code)
        return t, ret

    def macro(self, e, code, expected):
        if e.name == "vec" and e.sep == ";" and len(e.args) == 2:
            return self.replicate(e.args[0], e.args[1], code, expected, e)
        self.err("macro `%s!` in expression position" % e.name, e)

    def if_expr(self, e, code, expected):
        if e.els is None:
            self.err("`if` expression without `else`", e)
        c, ct = self.expr(e.cond, code, TBool())
        if not isinstance(ct, TBool):
            self.err("condition of type %r" % (ct,), e.cond)
        branches = []
        for b in (e.then, e.els):
            if b.stmts or b.tail is None:
                self.err("`if` expression whose branches are not single expressions", b)
            sub = Code()
            s, t = self.expr(b.tail, sub, expected)
            branches.append((sub, s, t))
        (c1, s1, t1), (c2, s2, t2) = branches
        if t1 != t2:
            self.err("`if` expression with branches of type %r and %r" % (t1, t2), e)
        if not c1.items and not c2.items:
            return "if %s then %s else %s" % (c, s1, s2), t1
        c1.final, c2.final = ("pure", s1), ("pure", s2)
        t = self.tmp()
        code.bind(t, ("if", c, c1, c2))
        return t, t1

    # ---------------------------------------------------------------- statements
    def block(self, b, code, ret_ok):
        """translate the statements of `b` into `code`.  Returns the tail (lean text, type) or None.
        `ret_ok`: this block is in tail position of the function (an early `return` can be expressed)."""
        self.scopes.append({})
        try:
            stmts = list(b.stmts)
            for idx, s in enumerate(stmts):
                rest_empty = idx == len(stmts) - 1 and b.tail is None
                self.stmt(s, code, ret_ok and rest_empty)
            if b.tail is not None:
                if b.tail.kind == "if" and self.assigned(b.tail):
                    self.err("`if` in tail position that also assigns variables", b.tail)
                return self.expr(b.tail, code, self.tail_expected)
            return None
        finally:
            self.scopes.pop()

    def stmt(self, s, code, last):
        k = s.kind
        if k == "let":
            return self.let(s, code)
        if k == "assign":
            return self.assign(s, code)
        if k == "exprs":
            return self.expr_stmt(s.e, code)
        if k == "ifs":
            return self.if_stmt(s.e, code)
        if k in LOOP_KINDS and self.loop_is_x(s):
            return self.loop_x(s, code, None, None)
        if k == "for" and zip_mut_parts(s.iter) is not None:
            return self.for_zip_mut(s, code)
        if k == "for" and zip_parts(s.iter) is not None:
            return self.for_zip(s, code)
        if k == "while":
            return self.while_(s, code)
        if k == "for":
            return self.for_(s, code)
        if k == "return":
            self.err("`return` is only translated as the last statement of the function body", s)
        self.err("statement `%s`" % k, s)

    def declared_type(self, name, ann, node):
        if ann is not None:
            return self.ty(ann)
        if name in self.local_types:
            return self.ty_of_text(self.local_types[name])
        return None

    def let(self, s, code):
        if s.pat.kind == "ptuple" and s.init.kind == "call" and s.ty is None and all(p.kind == "pid" for p in s.pat.items):
            # `let (a, b) = f(x);` with a translated function that returns a tuple (genpm)
            val, t = self.expr(s.init, code, None)
            if not isinstance(t, TTuple) or len(t.items) != len(s.pat.items):
                self.err("tuple `let` from a call that does not return a tuple of the same length", s)
            vs = [self.declare(p.name, ti, s, mutable=p.mut) for p, ti in zip(s.pat.items, t.items)]
            code.let(tuple_pat([v.lean for v in vs]), val)
            return
        if s.pat.kind == "ptuple":
            if s.init.kind == "paren":
                s.init = s.init.e
            if s.init.kind != "tuple" or len(s.init.items) != len(s.pat.items) or s.ty is not None:
                self.err("tuple `let` whose right-hand side is not a tuple of the same length", s)
            # Rust evaluates the components left to right, then binds: the names on the left must not occur on the right
            names = pat_names(s.pat)
            for nm in self.reads(s.init):
                if nm in names:
                    self.err("tuple `let` that reads `%s` on its right-hand side" % nm, s)
            for p, e in zip(s.pat.items, s.init.items):
                if p.kind != "pid":
                    self.err("nested tuple pattern", p)
                self.let(N("let", s.pos, pat=p, ty=None, init=e), code)
            return
        name = s.pat.name
        # (genukk) `let cost = &self.ukkonen.cost;`: a local name for a closure field the spec declares abstract
        ini = s.init
        while ini.kind == "paren" or (ini.kind == "un" and ini.op == "&"):
            ini = ini.e
        if ini.kind == "field" and self_path(ini) in self.absfns and s.ty is None:
            self.fn_aliases[name] = self_path(ini)
            return
        want = self.declared_type(name, s.ty, s)
        val, t = self.expr(s.init, code, want)
        if want is not None and t != want:
            self.err("`let %s`: initialiser has type %r, declared %r" % (name, t, want), s)
        v = self.declare(name, t, s, mutable=s.pat.mut)
        if v.lean != "_":
            code.let(v.lean, val)

    def assign(self, s, code):
        lhs = s.lhs
        while lhs.kind == "paren":
            lhs = lhs.e
        if lhs.kind == "un" and lhs.op == "*":
            if lhs.e.kind != "var":
                self.err("`*e = …` where e is not a variable", s)
            v = self.lookup(lhs.e.name, lhs)
            if not v.ref_elem:
                self.err("`*%s = …` where `%s` is not the loop variable of an `iter_mut()` loop" % (v.rust, v.rust), s)
            rhs = s.rhs if s.op is None else N("bin", s.pos, op=s.op, l=N("var", s.pos, name=v.rust), r=s.rhs)
            val, t = self.expr(rhs, code, v.ty)
            if t != v.ty:
                self.err("assignment of %r to `*%s` : %r" % (t, v.rust, v.ty), s)
            code.let(v.lean, val)
            return
        if lhs.kind in ("var", "field"):
            name = lhs.name if lhs.kind == "var" else self._lhs_root(lhs)
            v = self.lookup(name, lhs)
            rhs = s.rhs if s.op is None else N("bin", s.pos, op=s.op, l=lhs, r=s.rhs)
            val, t = self.expr(rhs, code, v.ty)
            if t != v.ty:
                self.err("assignment of %r to `%s` : %r" % (t, name, v.ty), s)
            code.let(v.lean, val)
            return
        if lhs.kind == "index" and lhs.base.kind == "index" and lhs.base.base.kind in ("var", "field") \
                and lhs.idx.kind != "range" and lhs.base.idx.kind != "range":
            # (genukk) `v[i][j] = e` / `v[i][j] op= e` on a vector of vectors: read row `i`, write cell `j`, write the row back
            root = self._lhs_root(lhs.base.base)
            v = self.lookup(root, lhs)
            if not (isinstance(v.ty, TSeq) and isinstance(v.ty.elem, TSeq)):
                self.err("nested element assignment into %r" % (v.ty,), s)
            cell_ty = v.ty.elem.elem
            if s.op is None:
                val, t = self.expr(s.rhs, code, cell_ty)
            row, _, wb = self.place(lhs.base, code)
            j, jt = self.expr(lhs.idx, code, TInt("usize"))
            if jt != TInt("usize"):
                self.err("index of type %r" % (jt,), lhs.idx)
            if not re.fullmatch(r"[\w.']+", j):
                tj = self.tmp()
                code.let(tj, j)
                j = tj
            if s.op is not None:
                old = self.tmp()
                code.bind(old, ("call", "Rs.idx %s %s" % (atom(row), atom(j))))
                self.scopes.append({"%old": Var("%old", old, cell_ty)})
                try:
                    val, t = self.expr(N("bin", s.pos, op=s.op, l=N("var", s.pos, name="%old"), r=s.rhs), code, cell_ty)
                finally:
                    self.scopes.pop()
            if t != cell_ty:
                self.err("assignment of %r to a cell of `%s` : %r" % (t, root, v.ty), s)
            row2 = self.tmp()
            code.bind(row2, ("call", "Rs.setIdx %s %s %s" % (atom(row), atom(j), atom(val))))
            wb(code, row2)
            return
        if lhs.kind == "index":
            root = self._lhs_root(lhs.base)
            if lhs.base.kind not in ("var", "field"):
                self.err("assignment to a nested element `v[i][j]`", s)
            v = self.lookup(root, lhs)
            if not isinstance(v.ty, TSeq):
                self.err("element assignment into %r" % (v.ty,), s)
            # Rust evaluates the right-hand side of `v[i] = e` before the index expression; both are effect-free apart from
            # panics, and any panic aborts the function, so the order of the binds does not matter for the result
            if s.op is None:
                val, t = self.expr(s.rhs, code, v.ty.elem)
                i, it = self.expr(lhs.idx, code, TInt("usize"))
            else:
                i, it = self.expr(lhs.idx, code, TInt("usize"))
                if not re.fullmatch(r"[\w.']+", i):
                    ti = self.tmp()
                    code.let(ti, i)
                    i = ti
                old = self.tmp()
                code.bind(old, ("call", "Rs.idx %s %s" % (atom(v.lean), atom(i))))
                self.scopes.append({"%old": Var("%old", old, v.ty.elem)})
                try:
                    val, t = self.expr(N("bin", s.pos, op=s.op, l=N("var", s.pos, name="%old"), r=s.rhs), code, v.ty.elem)
                finally:
                    self.scopes.pop()
            if it != TInt("usize"):
                self.err("index of type %r" % (it,), lhs.idx)
            if t != v.ty.elem:
                self.err("assignment of %r to an element of `%s` : %r" % (t, root, v.ty), s)
            code.bind(v.lean, ("call", "Rs.setIdx %s %s %s" % (atom(v.lean), atom(i), atom(val))))
            return
        self.err("assignment target", s)

    def place(self, recv, code):
        """(genukk) a `Vec` that is modified in place: a variable / `self.f`, or an element `v[i]` of a vector of vectors.
        Returns (lean text of its current value, type, write-back function (code, new value))."""
        while recv.kind == "paren" or (recv.kind == "un" and recv.op in ("&", "&mut")):
            recv = recv.e
        if recv.kind in ("var", "field"):
            v = self.lookup(self._lhs_root(recv), recv)
            return v.lean, v.ty, (lambda c, val: c.let(v.lean, val))
        if recv.kind == "index" and recv.base.kind in ("var", "field") and recv.idx.kind != "range":
            v = self.lookup(self._lhs_root(recv.base), recv)
            if not (isinstance(v.ty, TSeq) and isinstance(v.ty.elem, TSeq)):
                self.err("`v[i]` as a vector modified in place, where `v` has type %r" % (v.ty,), recv)
            i, it = self.expr(recv.idx, code, TInt("usize"))
            if it != TInt("usize"):
                self.err("index of type %r" % (it,), recv.idx)
            if not re.fullmatch(r"[\w.']+", i):
                ti = self.tmp()
                code.let(ti, i)
                i = ti
            row = self.tmp()
            code.bind(row, ("call", "Rs.idx %s %s" % (atom(v.lean), atom(i))))
            return row, v.ty.elem, (lambda c, val: c.bind(v.lean, ("call", "Rs.setIdx %s %s %s" % (atom(v.lean), atom(i), atom(val)))))
        self.err("receiver of a modifying method is not a variable, `self.f` or an element `v[i]` of one", recv)

    def seq_mutation(self, e, code):
        """(genukk) `v.clear()`, `v.extend(repeat(x).take(n))`, `v.extend(a..b)`, `v.extend(a..=b)`, `v.resize(n, x)`,
        `v.truncate(n)`, and `v[i].push(x)` — `v` as in `place`"""
        nm = e.name
        # arguments first (Rust evaluates the receiver place, then the arguments; only panics can be observed)
        if nm == "clear" and not e.args:
            cur, ty, wb = self.place(e.recv, code)
            if not isinstance(ty, TSeq):
                self.err("`.clear()` on %r" % (ty,), e)
            wb(code, "([] : %s)" % ty.lean())
            return
        if nm == "push" and len(e.args) == 1:
            cur, ty, wb = self.place(e.recv, code)
            if not isinstance(ty, TSeq):
                self.err("`.push` on %r" % (ty,), e)
            val, t = self.expr(e.args[0], code, ty.elem)
            if t != ty.elem:
                self.err("`.push` of %r onto %r" % (t, ty), e)
            wb(code, "%s ++ [%s]" % (atom(cur), val))
            return
        if nm == "extend" and len(e.args) == 1:
            a = e.args[0]
            while a.kind == "paren":
                a = a.e
            cur, ty, wb = self.place(e.recv, code)
            if not isinstance(ty, TSeq):
                self.err("`.extend` on %r" % (ty,), e)
            if a.kind == "mcall" and a.name == "take" and len(a.args) == 1 and a.recv.kind == "call" \
                    and a.recv.path[-1] == "repeat" and len(a.recv.args) == 1:
                add, at = self.replicate(a.recv.args[0], a.args[0], code, ty, e)
            elif a.kind == "range" and a.lo is not None and a.hi is not None:
                if self.is_lit(a.lo) and not self.is_lit(a.hi):
                    hi, ht = self.expr(a.hi, code, ty.elem)
                    lo, lt = self.expr(a.lo, code, ht)
                else:
                    lo, lt = self.expr(a.lo, code, ty.elem)
                    hi, ht = self.expr(a.hi, code, lt)
                if lt != ht or not isinstance(lt, TInt) or lt.signed:
                    self.err("range bounds of type %r and %r" % (lt, ht), e)
                add = "List.range' %s (%s%s - %s)" % (atom(lo), atom(hi), " + 1" if a.incl else "", atom(lo))
                at = TSeq(lt)
            else:
                self.err("`.extend(…)` of something other than `repeat(x).take(n)` or a range", e)
            if at != ty:
                self.err("`.extend` of %r onto %r" % (at, ty), e)
            wb(code, "%s ++ %s" % (atom(cur), add))
            return
        if nm == "resize" and len(e.args) == 2:
            cur, ty, wb = self.place(e.recv, code)
            if not isinstance(ty, TSeq):
                self.err("`.resize` on %r" % (ty,), e)
            n, nt = self.expr(e.args[0], code, TInt("usize"))
            x, xt = self.expr(e.args[1], code, ty.elem)
            if nt != TInt("usize") or xt != ty.elem:
                self.err("`.resize(%r, %r)` on %r" % (nt, xt, ty), e)
            wb(code, "Rs.resize %s %s %s" % (atom(cur), atom(n), atom(x)))
            return
        if nm == "truncate" and len(e.args) == 1:
            cur, ty, wb = self.place(e.recv, code)
            if not isinstance(ty, TSeq):
                self.err("`.truncate` on %r" % (ty,), e)
            n, nt = self.expr(e.args[0], code, TInt("usize"))
            if nt != TInt("usize"):
                self.err("`.truncate(%r)`" % (nt,), e)
            wb(code, "%s.take %s" % (atom(cur), atom(n)))
            return
        self.err("method `.%s(…)` as a statement is outside the translated subset" % nm, e)

    def expr_stmt(self, e, code):
        if e.kind == "mcall" and method_key(e) in self.calls:
            self.struct_call(method_key(e), self.calls[method_key(e)], e.args, code, e, as_stmt=True)     # (genukk)
            return
        if e.kind == "call" and "::".join(e.path) in self.calls:
            self.struct_call("::".join(e.path), self.calls["::".join(e.path)], e.args, code, e, as_stmt=True)
            return
        if e.kind == "mcall" and (e.name in ("clear", "extend", "resize", "truncate")
                                  or (e.name == "push" and e.recv.kind == "index")):
            return self.seq_mutation(e, code)
        if e.kind == "macro" and e.name in ("assert", "debug_assert") and len(e.args) >= 1:
            c, t = self.expr(e.args[0], code, TBool())
            if not isinstance(t, TBool):
                self.err("`assert!` of a non-boolean", e)
            for x in e.args[1:]:
                if x.kind != "str":
                    self.err("`assert!` with format arguments", e)
            code.bind("_", ("call", "Rs.assert %s" % atom(c)))
            return
        if e.kind == "macro" and e.name in ("assert_eq", "debug_assert_eq") and len(e.args) >= 2:
            cmp_ = N("bin", e.pos, op="==", l=e.args[0], r=e.args[1])
            c, t = self.expr(cmp_, code, TBool())
            for x in e.args[2:3]:
                if x.kind != "str":
                    self.err("`assert_eq!` with format arguments", e)
            for x in e.args[3:]:
                # format arguments after the message string are only evaluated when the assertion fails (genpm): they
                # must be effect-free apart from panics — variables, fields, `.len()`
                if contains_kind(x, ("call", "macro", "index", "bin", "struct", "if", "match")):
                    self.err("`assert_eq!` with format arguments", e)
            code.bind("_", ("call", "Rs.assert %s" % atom(c)))
            return
        if e.kind == "mcall" and e.name == "push" and len(e.args) == 1:
            root = self._lhs_root(e.recv)
            v = self.lookup(root, e)
            if not isinstance(v.ty, TSeq):
                self.err("`.push` on %r" % (v.ty,), e)
            val, t = self.expr(e.args[0], code, v.ty.elem)
            if t != v.ty.elem:
                self.err("`.push` of %r onto %r" % (t, v.ty), e)
            code.let(v.lean, "%s ++ [%s]" % (v.lean, val))
            return
        self.err("expression statement outside the translated subset (only `assert!`, `assert_eq!`, `v.push(e)`)", e)

    def unit_block(self, b):
        """a block used as a statement (loop body): a trailing `if … {…} else {…}` without `;` is a statement, any other
        trailing expression would be a discarded value"""
        if b.tail is None:
            return b
        if b.tail.kind == "if":
            return N("block", b.pos, stmts=b.stmts + [N("ifs", b.tail.pos, e=b.tail)], tail=None)
        self.err("value of the block is discarded", b.tail)

    def outer_vars(self, names, node):
        vs = []
        for nm in names:
            if nm.startswith("*"):
                self.err("`%s = …` outside an `iter_mut()` loop" % nm, node)
            vs.append(self.lookup(nm, node))
        return vs

    def if_stmt(self, e, code):
        vs = self.outer_vars(self.assigned(e), e)
        c, ct = self.expr(e.cond, code, TBool())
        if not isinstance(ct, TBool):
            self.err("condition of type %r" % (ct,), e.cond)
        saved_tail = self.tail_expected
        self.tail_expected = None
        subs = []
        for b in (e.then, e.els):
            sub = Code()
            if b is not None:
                if b.tail is not None and not (b.tail.kind == "if"):
                    self.err("value of the `if` branch is discarded", b.tail)
                if b.tail is not None:
                    b = N("block", b.pos, stmts=b.stmts + [N("ifs", b.tail.pos, e=b.tail)], tail=None)
                self.block(b, sub, False)
            sub.final = ("pure", tuple_val([v.lean for v in vs]))
            subs.append(sub)
        self.tail_expected = saved_tail
        code.bind(tuple_pat([v.lean for v in vs]), ("if", c, subs[0], subs[1]))

    def captured(self, node, state_names, local_names):
        """lean parameters (name, type) a loop helper needs: variables read in `node` that are neither loop state nor
        bound by the loop itself — in order of first occurrence in the text"""
        caps = []
        for nm in self.reads(node):
            if nm in state_names or nm in local_names or nm == "self" or nm == "%old":
                continue
            found = None
            for sc in reversed(self.scopes):
                if nm in sc:
                    found = sc[nm]
                    break
            if found is None:
                continue      # declared inside the loop body
            if found not in caps:
                caps.append(found)
        return caps

    def helper_header(self, name, caps):
        params = "".join(" (%s : %s)" % (v.lean, v.ty.lean()) for v in caps)
        absf = "".join(" (%s : Nat)" % w for w in self.width_params()) + \
            "".join(" (%s : %s)" % (f, self.abs_sig(f)) for f in self.absfn_params())
        return "def %s%s%s" % (name, absf, params)

    def absfn_params(self):
        """abstract function parameters: all those the spec declares for this function (stable signature)"""
        return [f["lean"] for f in self.absfns.values() if not f.get("is_value")] + \
               [f["lean"] for f in self.absfns.values() if f.get("is_value")]

    def abs_sig(self, lean):
        for f in self.absfns.values():
            if f["lean"] == lean:
                tys = [self.ty_of_text(a).lean() for a in f["args"]] + [self.ty_of_text(f["ret"]).lean()]
                return " → ".join(paren_ty(t) if "→" in t else t for t in tys)
        raise KeyError(lean)

    def abs_args(self):
        return "".join(" " + w for w in self.width_params()) + "".join(" " + f for f in self.absfn_params())

    def while_(self, s, code):
        self.n_while += 1
        k = self.n_while
        name = "%s_while%d" % (self.lean_fn, k)
        if k > len(self.fuels):
            self.err("`while` loop number %d has no fuel expression in the translation spec" % k, s)
        fuel = self.fuels[k - 1]
        state = self.outer_vars(self.assigned(s.body), s)
        state_names = [v.rust for v in state]
        caps = self.captured(N("x", s.pos, a=s.cond, b=s.body), state_names, [])
        # the helper
        saved_scopes, saved_tail = self.scopes, self.tail_expected
        self.tail_expected = None
        self.scopes = [dict((v.rust, Var(v.rust, v.lean, v.ty)) for v in caps + state)]
        self.loop_depth += 1
        try:
            body = Code()
            c, ct = self.expr(s.cond, body, TBool())
            if not isinstance(ct, TBool):
                self.err("condition of type %r" % (ct,), s.cond)
            th = Code()
            self.block(self.unit_block(s.body), th, False)
            th.final = ("call", "%s%s%s fuel %s" % (name, self.abs_args(), "".join(" " + v.lean for v in caps),
                                                   tuple_val([v.lean for v in state])))
            el = Code()
            el.final = ("pure", tuple_val([v.lean for v in state]))
            body.final = ("if", c, th, el)
        finally:
            self.scopes, self.tail_expected = saved_scopes, saved_tail
            self.loop_depth -= 1
        st_ty = tuple_ty([v.ty for v in state])
        lines = ["/-- `while %s` (line %d); fuel: `%s` -/" % (self.src_text(s.cond), self.src.line_of(s.pos), fuel),
                 "%s : Nat → %s → Res %s" % (self.helper_header(name, caps), paren_ty(st_ty), paren_ty(st_ty)),
                 "  | 0, _ => Res.fuel",
                 "  | fuel + 1, %s => do" % tuple_pat([v.lean for v in state])]
        emit_code(body, 4, lines)
        self.helpers.append("\n".join(lines))
        # the call; the fuel expression is a Lean expression over the variables in scope
        for nm in re.findall(r"[A-Za-z_][\w.']*", fuel):
            if nm.split(".")[0] not in [v.lean for sc in self.scopes for v in sc.values()] and not nm[0].isupper() \
                    and nm.split(".")[0] not in ("length",):
                self.err("fuel expression `%s` of `while` loop %d mentions `%s`, which is not a variable in scope" % (fuel, k, nm), s)
        code.bind(tuple_pat([v.lean for v in state]),
                  ("call", "%s%s%s %s %s" % (name, self.abs_args(), "".join(" " + v.lean for v in caps), atom(fuel),
                                            tuple_val([v.lean for v in state]))))

    def src_text(self, node_or_none, end=None):
        """one-line source text starting at a node (up to the `{` of the loop), for doc comments"""
        p = node_or_none.pos - self.body_pos
        # the condition's first token may not be its left-most one (binary operators are positioned at the operator)
        p = leftmost(node_or_none) - self.body_pos
        q = self.body_text.find("{", p)
        txt = " ".join(self.body_text[p:q].split())
        return txt.replace("-/", "- /").replace("/-", "/ -")

    def for_(self, s, code):
        self.n_for += 1
        name = "%s_for%d" % (self.lean_fn, self.n_for)
        it, rev = s.iter, False
        while it.kind == "paren":
            it = it.e
        if it.kind == "mcall" and it.name == "rev" and not it.args:
            rev, it = True, it.recv
            while it.kind == "paren":
                it = it.e
        enum = False
        if it.kind == "mcall" and it.name == "enumerate" and not it.args:
            if rev:
                self.err("`.enumerate().rev()`", s)
            enum, it = True, it.recv
        it_mut = False
        if it.kind == "mcall" and it.name in ("iter", "iter_mut", "into_iter") and not it.args:
            it_mut = it.name == "iter_mut"
            it = it.recv
        elif enum:
            self.err("`.enumerate()` on something other than `.iter()`", s)
        while it.kind == "paren" or (it.kind == "un" and it.op == "&"):
            it = it.e
        if it_mut and (enum or rev):
            self.err("`iter_mut()` combined with `.enumerate()` / `.rev()`", s)
        # --- the list iterated over, and the loop variables
        loopvars = []           # (rust name, lean name, type, ref_elem)
        seq_var = None
        if it.kind == "range":
            if enum or it.lo is None or it.hi is None:
                self.err("range without both bounds as a loop source", s)
            if s.pat.kind != "pid":
                self.err("pattern of a range loop", s.pat)
            want = self.declared_type(s.pat.name, None, s)
            if self.is_lit(it.lo) and not self.is_lit(it.hi):
                hi, ht = self.expr(it.hi, code, want)
                lo, lt = self.expr(it.lo, code, ht)
            else:
                lo, lt = self.expr(it.lo, code, want)
                hi, ht = self.expr(it.hi, code, lt)
            if lt != ht or not isinstance(lt, TInt) or lt.signed:
                self.err("range bounds of type %r and %r" % (lt, ht), s)
            if it.incl:
                lst = "List.range' %s (%s + 1 - %s)" % (atom(lo), atom(hi), atom(lo))
            else:
                lst = "List.range' %s (%s - %s)" % (atom(lo), atom(hi), atom(lo))
            loopvars = [(s.pat.name, lt, False)]
            lam_pat = None
        else:
            # a sequence: variable, self field, or a sub-slice of one
            if it.kind == "index" and it.idx.kind == "range":
                if it_mut:
                    self.err("`iter_mut()` over a sub-slice", s)
                base, bt = self.expr(it.base, code)
                if not isinstance(bt, TSeq):
                    self.err("slice of %r" % (bt,), s)
                r = it.idx
                if r.incl:
                    self.err("inclusive slice bounds", s)
                lo = "0" if r.lo is None else self.expr(r.lo, code, TInt("usize"))[0]
                hi = ("%s.length" % atom(base)) if r.hi is None else self.expr(r.hi, code, TInt("usize"))[0]
                if r.lo is None and r.hi is None:
                    lst, st = base, bt
                else:
                    t = self.tmp()
                    code.bind(t, ("call", "Rs.slice %s %s %s" % (atom(base), atom(lo), atom(hi))))
                    lst, st = t, bt
            else:
                if it.kind not in ("var", "field"):
                    self.err("loop source is not a range, a variable, `self.f` or a sub-slice of one", s)
                lst, st = self.expr(it, code)
                if not isinstance(st, TSeq):
                    self.err("`for` over a value of type %r" % (st,), s)
                seq_var = self.lookup(self._lhs_root(it), it)
            if enum:
                if s.pat.kind != "ptuple" or len(s.pat.items) != 2 or any(p.kind != "pid" for p in s.pat.items):
                    self.err("pattern of an `.enumerate()` loop must be `(j, x)` or `(j, &x)`", s.pat)
                loopvars = [(s.pat.items[1].name, st.elem, False), (s.pat.items[0].name, TInt("usize"), False)]
                lst = "%s.zipIdx" % atom(lst)
            else:
                if s.pat.kind != "pid":
                    self.err("pattern of a loop over a sequence", s.pat)
                loopvars = [(s.pat.name, st.elem, it_mut)]
            if rev:
                lst = "%s.reverse" % atom(lst)
        if rev and it.kind == "range":
            lst = "(%s).reverse" % lst
        # --- state and captured variables
        loop_names = [lv[0] for lv in loopvars]
        assigned = self.assigned(N("for", s.pos, pat=s.pat, iter=s.iter, body=s.body))
        if it_mut:
            # the sequence is rebuilt element by element: state gets an accumulator `<seq>'` for the new prefix
            if seq_var is None:
                self.err("`iter_mut()` over something other than a variable", s)
            assigned = [a for a in assigned if a != seq_var.rust]
            if seq_var.rust in self.reads(s.body):
                self.err("the body of an `iter_mut()` loop reads the sequence itself", s)
        state = self.outer_vars(assigned, s)
        state_names = [v.rust for v in state]
        caps = self.captured(s.body, state_names, loop_names)
        if it_mut and seq_var in caps:
            caps.remove(seq_var)
        saved_scopes, saved_tail = self.scopes, self.tail_expected
        self.tail_expected = None
        self.scopes = [dict((v.rust, Var(v.rust, v.lean, v.ty)) for v in caps + state)]
        lvs = []
        for nm, t, ref in loopvars:
            for sc in saved_scopes:
                if nm in sc and nm != "_":
                    self.err("loop variable `%s` shadows a variable of an enclosing block (not translated)" % nm, s)
            lvs.append(self.declare(nm, t, s, mutable=False, ref_elem=ref, nested_ok=True))
        self.loop_depth += 1
        acc = None
        try:
            body = Code()
            self.block(self.unit_block(s.body), body, False)
            st_names = [v.lean for v in state]
            if it_mut:
                acc = seq_var.lean + "'"
                body.final = ("pure", tuple_val(st_names + ["%s ++ [%s]" % (acc, lvs[0].lean)]))
                st_names_in = st_names + [acc]
                st_tys = [v.ty for v in state] + [seq_var.ty]
            else:
                body.final = ("pure", tuple_val(st_names))
                st_names_in = st_names
                st_tys = [v.ty for v in state]
        finally:
            self.scopes, self.tail_expected = saved_scopes, saved_tail
            self.loop_depth -= 1
        st_ty = tuple_ty(st_tys)
        el_ty = tuple_ty([v.ty for v in lvs])
        lines = ["/-- body of `for %s` (line %d) -/" % (self.src_text(s.pat if False else s, None)[4:].strip(), self.src.line_of(s.pos)),
                 "%s : %s → %s → Res %s" % (self.helper_header(name, caps), paren_ty(st_ty), paren_ty(el_ty), paren_ty(st_ty)),
                 "  | %s, %s => do" % (tuple_pat(st_names_in), tuple_pat([v.lean for v in lvs]))]
        emit_code(body, 4, lines)
        self.helpers.append("\n".join(lines))
        init = tuple_val([v.lean for v in state] + (["[]"] if it_mut else []))
        out_pat = tuple_pat([v.lean for v in state] + ([seq_var.lean] if it_mut else []))
        code.bind(out_pat, ("call", "%s.foldlM %s %s" % (atom(lst), atom(name + self.abs_args() + "".join(" " + v.lean for v in caps)), init)))


    def for_zip(self, s, code):
        """`for (a, b) in xs.iter().zip(ys)`: `List.foldlM` of a named body function over `List.zip xs ys` (genpm)"""
        self.n_for += 1
        name = "%s_for%d" % (self.lean_fn, self.n_for)
        le, re_ = zip_parts(s.iter)
        l, lt = self.expr(le, code)
        r, rt = self.expr(re_, code)
        if not (isinstance(lt, TSeq) and isinstance(rt, TSeq)):
            self.err("`.zip` of %r and %r" % (lt, rt), s)
        if s.pat.kind != "ptuple" or len(s.pat.items) != 2 or any(p.kind != "pid" for p in s.pat.items):
            self.err("pattern of a `.zip()` loop must be `(a, b)`", s.pat)
        loopvars = [(s.pat.items[0].name, lt.elem), (s.pat.items[1].name, rt.elem)]
        state = self.outer_vars(self.assigned(N("for", s.pos, pat=s.pat, iter=s.iter, body=s.body)), s)
        caps = self.captured(s.body, [v.rust for v in state], [lv[0] for lv in loopvars])
        saved_scopes, saved_tail = self.scopes, self.tail_expected
        self.tail_expected = None
        self.scopes = [dict((v.rust, Var(v.rust, v.lean, v.ty)) for v in caps + state)]
        lvs = []
        for nm, t in loopvars:
            for sc in saved_scopes:
                if nm in sc and nm != "_":
                    self.err("loop variable `%s` shadows a variable of an enclosing block (not translated)" % nm, s)
            lvs.append(self.declare(nm, t, s, mutable=False, nested_ok=True))
        self.loop_depth += 1
        try:
            body = Code()
            self.block(self.unit_block(s.body), body, False)
            body.final = ("pure", tuple_val([v.lean for v in state]))
        finally:
            self.scopes, self.tail_expected = saved_scopes, saved_tail
            self.loop_depth -= 1
        st_ty = tuple_ty([v.ty for v in state])
        el_ty = tuple_ty([v.ty for v in lvs])
        lines = ["/-- body of `for %s` (line %d) -/" % (self.src_text(s, None)[4:].strip(), self.src.line_of(s.pos)),
                 "%s : %s → %s → Res %s" % (self.helper_header(name, caps), paren_ty(st_ty), paren_ty(el_ty), paren_ty(st_ty)),
                 "  | %s, %s => do" % (tuple_pat([v.lean for v in state]), tuple_pat([v.lean for v in lvs]))]
        emit_code(body, 4, lines)
        self.helpers.append("\n".join(lines))
        code.bind(tuple_pat([v.lean for v in state]),
                  ("call", "(List.zip %s %s).foldlM %s %s" % (atom(l), atom(r), atom(name + self.abs_args() + "".join(" " + v.lean for v in caps)),
                                                            tuple_val([v.lean for v in state]))))

    def for_zip_mut(self, s, code):
        """(genukk) `for (x, y) in xs.iter_mut().zip(ys)`: `List.foldlM` over `List.zip xs ys` of a named body function whose
        state also rebuilds the prefix of `xs` element by element; the elements of `xs` beyond `ys.len()` stay as they are"""
        self.n_for += 1
        name = "%s_for%d" % (self.lean_fn, self.n_for)
        xe, ye = zip_mut_parts(s.iter)
        seq_var = self.lookup(self._lhs_root(xe), s)
        if xe.kind not in ("var", "field") or not isinstance(seq_var.ty, TSeq):
            self.err("`iter_mut().zip(..)` over something other than a vector variable", s)
        ys, yt = self.expr(ye, code)
        if not isinstance(yt, TSeq):
            self.err("`.zip` with %r" % (yt,), s)
        if s.pat.kind != "ptuple" or len(s.pat.items) != 2 or any(p.kind != "pid" for p in s.pat.items):
            self.err("pattern of a `.zip()` loop must be `(a, b)`", s.pat)
        loopvars = [(s.pat.items[0].name, seq_var.ty.elem), (s.pat.items[1].name, yt.elem)]
        assigned = [a for a in self.assigned(N("for", s.pos, pat=s.pat, iter=s.iter, body=s.body)) if a != seq_var.rust]
        if seq_var.rust in self.reads(s.body):
            self.err("the body of an `iter_mut()` loop reads the sequence itself", s)
        state = self.outer_vars(assigned, s)
        caps = self.captured(s.body, [v.rust for v in state], [lv[0] for lv in loopvars])
        saved_scopes, saved_tail = self.scopes, self.tail_expected
        self.tail_expected = None
        self.scopes = [dict((v.rust, Var(v.rust, v.lean, v.ty)) for v in caps + state)]
        lvs = [self.declare(nm, t, s, mutable=(k == 0), nested_ok=True) for k, (nm, t) in enumerate(loopvars)]
        acc = self.fresh_lean(seq_var.lean + "'")
        self.loop_depth += 1
        try:
            body = Code()
            self.block(self.unit_block(s.body), body, False)
            body.final = ("pure", tuple_val([v.lean for v in state] + ["%s ++ [%s]" % (acc, self.lookup(loopvars[0][0], s).lean)]))
        finally:
            self.scopes, self.tail_expected = saved_scopes, saved_tail
            self.loop_depth -= 1
        st_ty = tuple_ty([v.ty for v in state] + [seq_var.ty])
        el_ty = tuple_ty([v.ty for v in lvs])
        lines = ["/-- body of `for %s` (line %d) -/" % (self.src_text(s, None)[4:].strip(), self.src.line_of(s.pos)),
                 "%s : %s → %s → Res %s" % (self.helper_header(name, caps), paren_ty(st_ty), paren_ty(el_ty), paren_ty(st_ty)),
                 "  | %s, %s => do" % (tuple_pat([v.lean for v in state] + [acc]), tuple_pat([v.lean for v in lvs]))]
        emit_code(body, 4, lines)
        self.helpers.append("\n".join(lines))
        t = self.tmp()
        code.bind(tuple_pat([v.lean for v in state] + [t]),
                  ("call", "(List.zip %s %s).foldlM %s %s" % (atom(seq_var.lean), atom(ys),
                                                            atom(name + self.abs_args() + "".join(" " + v.lean for v in caps)),
                                                            tuple_val([v.lean for v in state] + ["[]"]))))
        code.let(seq_var.lean, "%s ++ %s.drop %s.length" % (t, atom(seq_var.lean), atom(ys)))

    # ================================================================ control flow with exits (genpm)
    # `loop`, `break`, `return` inside loops, `match` on `Option`, `for pat in it.by_ref()` over an iterator state.
    # A statement sequence is translated in continuation style: `k(code)` finishes `code` with the translation of
    # whatever follows.  `ctx` says what `return e` / `break` / falling off the end of a loop body mean here.

    def is_subslice(self, e):
        while e.kind == "paren" or (e.kind == "un" and e.op == "&"):
            e = e.e
        return e.kind == "index" and e.idx.kind == "range"

    def subslice(self, e, code):
        while e.kind == "paren" or (e.kind == "un" and e.op == "&"):
            e = e.e
        base, bt = self.expr(e.base, code)
        if not isinstance(bt, TSeq):
            self.err("slice of %r" % (bt,), e)
        r = e.idx
        if r.incl:
            self.err("inclusive slice bounds", e)
        lo = "0" if r.lo is None else self.expr(r.lo, code, TInt("usize"))[0]
        hi = ("%s.length" % atom(base)) if r.hi is None else self.expr(r.hi, code, TInt("usize"))[0]
        t = self.tmp()
        code.bind(t, ("call", "Rs.slice %s %s %s" % (atom(base), atom(lo), atom(hi))))
        return t, bt

    def has_exit(self, s):
        """must `s` be translated in continuation style (it can leave the enclosing sequence)?"""
        k = s.kind
        if k in ("return", "break", "match"):
            return True
        if k == "ifs":
            return contains_kind(s.e, ("return",)) or contains_kind(s.e, ("break", "match"), stop=LOOP_KINDS)
        if k in LOOP_KINDS:
            return contains_kind(s.body, ("return",))
        return False

    def loop_is_x(self, s):
        """loops handled by `loop_x` (recursive helper with exits) rather than by `while_` / `for_`"""
        if s.kind == "loop":
            return True
        if s.kind == "for" and iter_state_target(s.iter) is not None:
            return True
        return contains_kind(s.body, ("return",)) or contains_kind(s.body, ("break",), stop=LOOP_KINDS)

    def needs_cps(self, stmts):
        return any(contains_kind(st, ("loop", "break", "match")) or
                   (st.kind in LOOP_KINDS and self.loop_is_x(st)) or
                   contains_kind(st, LOOP_KINDS) and any(self.loop_is_x(x) for x in all_nodes(st) if x.kind in LOOP_KINDS)
                   for st in stmts)

    def keep_scopes(self, k):
        """the continuation `k`, run in (a copy of) the scopes of this point of the text"""
        snap = [dict(sc) for sc in self.scopes]

        def k2(code):
            saved = self.scopes
            self.scopes = [dict(sc) for sc in snap]
            try:
                k(code)
            finally:
                self.scopes = saved
        return k2

    def stmts_k(self, stmts, code, ctx, k):
        for idx, st in enumerate(stmts):
            if self.has_exit(st):
                rest = stmts[idx + 1:]
                return self.exit_stmt(st, code, ctx, rest, k)
            self.stmt(st, code, False)
        k(code)

    def exit_stmt(self, st, code, ctx, rest, k):
        kd = st.kind
        if kd == "return":
            if rest:
                self.err("statements after `return`", st)
            return ctx.ret(st.e, code, st)
        if kd == "break":
            if rest:
                self.err("statements after `break`", st)
            return ctx.brk(code, st)
        k_rest = self.keep_scopes(lambda c: self.stmts_k(rest, c, ctx, k))
        if kd == "ifs":
            e = st.e
            c, ct = self.expr(e.cond, code, TBool())
            if not isinstance(ct, TBool):
                self.err("condition of type %r" % (ct,), e.cond)
            subs = []
            for b in (e.then, e.els):
                sub = Code()
                if b is None:
                    k_rest(sub)
                else:
                    b = self.unit_block(b)
                    self.scopes.append({})
                    try:
                        self.stmts_k(b.stmts, sub, ctx, k_rest)
                    finally:
                        self.scopes.pop()
                subs.append(sub)
            code.final = ("if", c, subs[0], subs[1])
            return
        if kd == "match":
            sc, stt = self.expr(st.scrut, code)
            if not isinstance(stt, TOption):
                self.err("`match` on a value of type %r (only `Option<_>` is translated)" % (stt,), st)
            arms, seen = [], set()
            for pat, b, ppos in st.arms:
                sub = Code()
                b = self.unit_block(b)
                self.scopes.append({})
                try:
                    if pat[0] == "some":
                        v = self.declare(pat[1], stt.elem, st, mutable=False)
                        lp = "some " + v.lean
                    else:
                        lp = "none" if pat[0] == "none" else "_"
                    self.stmts_k(b.stmts, sub, ctx, k_rest)
                finally:
                    self.scopes.pop()
                seen.add(pat[0])
                arms.append((lp, sub))
            if not ("wild" in seen or {"some", "none"} <= seen):
                self.err("`match` without a `Some(_)` and a `None` arm", st)
            code.final = ("match", sc, arms)
            return
        if kd in LOOP_KINDS:
            return self.loop_x(st, code, ctx, k_rest)
        self.err("statement `%s`" % kd, st)

    def loop_x(self, s, code, ctx, k):
        """`loop {..}`, `while c {..}` with `break`/`return` inside, `for pat in it.by_ref() {..}`: a recursive helper
        `<fn>_loop<k>` / `<fn>_while<k>` on fuel, resp. `<fn>_iter<k>` by structural recursion on the items the iterator
        still holds.  The helper returns the loop state, and — when the body contains `return` — an `Option` that says
        whether the *function* returned from inside the loop (`some v`) or the loop ended normally (`none`)."""
        kind = s.kind
        has_ret = contains_kind(s.body, ("return",))
        if has_ret and ctx is None:
            self.err("`return` inside a loop that is nested in a block the translator cannot leave early", s)
        it_var, enum = None, False
        if kind == "for":
            tgt = iter_state_target(s.iter)
            if tgt is None:
                self.err("`return` is only translated inside `loop`, `while` and `for … in it.by_ref()` loops (and `break` "
                         "likewise), not inside a `for` over a range or a slice", s)
            it_var = self.lookup(self._lhs_root(tgt), s)
            if not isinstance(it_var.ty, TIter):
                self.err("`for … in %s.by_ref()`: `%s` is not declared as an iterator state (`Enumerate<T>` / `Iter<T>`) in the spec"
                         % (it_var.rust, it_var.rust), s)
            enum = it_var.ty.enum
            self.n_iter = getattr(self, "n_iter", 0) + 1
            name = "%s_iter%d" % (self.lean_fn, self.n_iter)
            if enum:
                if s.pat.kind != "ptuple" or len(s.pat.items) != 2 or any(p.kind != "pid" for p in s.pat.items):
                    self.err("pattern of a loop over an `Enumerate` must be `(i, c)`", s.pat)
                loopvars = [(s.pat.items[0].name, TInt("usize")), (s.pat.items[1].name, it_var.ty.elem)]
            else:
                if s.pat.kind != "pid":
                    self.err("pattern of a loop over an iterator", s.pat)
                loopvars = [(s.pat.name, it_var.ty.elem)]
            fuel = None
        else:
            self.n_while += 1
            kidx = self.n_while
            name = "%s_%s%d" % (self.lean_fn, kind, kidx)
            if kidx > len(self.fuels):
                self.err("`%s` loop number %d has no fuel expression in the translation spec" % (kind, kidx), s)
            fuel = self.fuels[kidx - 1]
            loopvars = []
        assigned = [a for a in self.assigned(s.body) if it_var is None or a != it_var.rust]
        if it_var is not None and it_var.rust in self.reads(s.body):
            self.err("the body of a loop over `%s` uses the iterator itself" % it_var.rust, s)
        state = self.outer_vars(assigned, s)
        state_names = [v.rust for v in state] + ([it_var.rust] if it_var is not None else [])
        scan = N("x", s.pos, a=s.cond, b=s.body) if kind == "while" else s.body
        caps = self.captured(scan, state_names, [lv[0] for lv in loopvars])
        out_state = state + ([it_var] if it_var is not None else [])
        ret_ty = self.ret
        saved_scopes, saved_tail = self.scopes, self.tail_expected
        self.tail_expected = None
        self.scopes = [dict((v.rust, Var(v.rust, v.lean, v.ty)) for v in caps + out_state)]
        lvs = []
        for nm, t in loopvars:
            for sc in saved_scopes:
                if nm in sc and nm != "_":
                    self.err("loop variable `%s` shadows a variable of an enclosing block (not translated)" % nm, s)
            lvs.append(self.declare(nm, t, s, mutable=False, nested_ok=True))
        self.loop_depth += 1
        cap_args = self.abs_args() + "".join(" " + v.lean for v in caps)
        st_in = tuple_val([v.lean for v in state])
        if kind == "for":
            rest_nm, cnt = self.fresh_lean("rest"), (lvs[0].lean if enum else None)
            recur = "%s%s %s%s %s" % (name, cap_args, rest_nm, (" (%s + 1)" % cnt) if enum else "", st_in)
        else:
            recur = "%s%s fuel %s" % (name, cap_args, st_in)
        lctx = LoopCtx(self, out_state, recur, has_ret, ret_ty)
        # a `loop` without `break` is only left through `return`: its helper returns the value itself, not an `Option`
        direct = kind == "loop" and has_ret and not contains_kind(s.body, ("break",), stop=LOOP_KINDS)
        lctx.direct = direct
        try:
            body = Code()
            if kind == "for":
                # the iterator has handed out one item: its new state
                body.let(it_var.lean, "(%s, %s + 1)" % (rest_nm, cnt) if enum else rest_nm)
            if kind == "while":
                c, ct = self.expr(s.cond, body, TBool())
                if not isinstance(ct, TBool):
                    self.err("condition of type %r" % (ct,), s.cond)
                th = Code()
                self.scopes.append({})
                self.stmts_k(self.unit_block(s.body).stmts, th, lctx, lambda cc: lctx.cont(cc))
                self.scopes.pop()
                el = Code()
                lctx.brk(el, s)
                body.final = ("if", c, th, el)
            else:
                self.scopes.append({})
                self.stmts_k(self.unit_block(s.body).stmts, body, lctx, lambda cc: lctx.cont(cc))
                self.scopes.pop()
        finally:
            self.scopes, self.tail_expected = saved_scopes, saved_tail
            self.loop_depth -= 1
        out_tys = [v.ty for v in out_state] + ([ret_ty if direct else TOption(ret_ty)] if has_ret else [])
        res_ty = paren_ty(tuple_ty(out_tys))
        st_ty = paren_ty(tuple_ty([v.ty for v in state]))
        if kind == "for":
            el = paren_ty(it_var.ty.elem.lean())
            lines = ["/-- `for %s` (line %d): one item of the iterator per round, until it is exhausted%s -/"
                     % (self.src_text(s, None)[4:].strip(), self.src.line_of(s.pos), " or the function returns" if has_ret else ""),
                     "%s : List %s → %s%s → Res %s" % (self.helper_header(name, caps), el, "Nat → " if enum else "", st_ty, res_ty)]
            done = Code()
            done.let(it_var.lean, "(([] : List %s), %s)" % (el, cnt) if enum else "([] : List %s)" % el)
            lctx.brk(done, s)
            lines.append("  | [], %s%s => do" % ((cnt + ", ") if enum else "", tuple_pat([v.lean for v in state])))
            emit_code(done, 4, lines)
            lines.append("  | %s :: %s, %s%s => do" % (lvs[-1].lean, rest_nm, (cnt + ", ") if enum else "",
                                                      tuple_pat([v.lean for v in state])))
            emit_code(body, 4, lines)
        else:
            what = ("while " + self.src_text(s.cond)) if kind == "while" else "loop"
            lines = ["/-- `%s` (line %d); fuel: `%s` -/" % (what, self.src.line_of(s.pos), fuel),
                     "%s : Nat → %s → Res %s" % (self.helper_header(name, caps), st_ty, res_ty),
                     "  | 0, _ => Res.fuel",
                     "  | fuel + 1, %s => do" % tuple_pat([v.lean for v in state])]
            emit_code(body, 4, lines)
        self.helpers.append("\n".join(lines))
        # ---- the call
        if kind == "for":
            call = "%s%s %s%s %s" % (name, cap_args, ("%s.1" % it_var.lean) if enum else it_var.lean,
                                     (" %s.2" % it_var.lean) if enum else "", st_in)
        else:
            for nm in re.findall(r"[A-Za-z_][\w.']*", fuel):
                if nm.split(".")[0] not in [v.lean for sc in self.scopes for v in sc.values()] and not nm[0].isupper() \
                        and nm.split(".")[0] not in ("length",):
                    self.err("fuel expression `%s` of `%s` loop %d mentions `%s`, which is not a variable in scope"
                             % (fuel, kind, kidx, nm), s)
            call = "%s%s %s %s" % (name, cap_args, atom(fuel), st_in)
        outs = [v.lean for v in out_state]
        if not has_ret:
            code.bind(tuple_pat(outs), ("call", call))
            if k is not None:
                k(code)
            return
        r = self.tmp()
        code.bind(tuple_pat(outs + [r]), ("call", call))
        if direct:
            return ctx.ret_val(r, code, s)
        v = self.tmp()
        some, none = Code(), Code()
        ctx.ret_val(v, some, s)
        k(none)
        code.final = ("match", r, [("some " + v, some), ("none", none)])

    # ---------------------------------------------------------------- the function
    def translate(self, toks):
        p = Parser(toks)
        body = p.body()
        sp = self.spec
        params = []      # Var
        self.scopes = [{}]
        for nm, ty in sp.get("self_fields", []):
            t = self.ty_of_text(ty)
            v = Var("self." + nm, lean_name(nm), t)
            self.scopes[0]["self." + nm] = v
            params.append(v)
        struct_mut = []      # (genukk) fields of `&mut S` parameters: always returned, assigned or not
        n_unused = 0
        for nm, ty in sp["params"]:
            sname = self.struct_of(ty)
            if sname is not None:
                # (genukk) a parameter of a struct type is passed field by field (`state.pv` → `pv`)
                for fnm, fty in self.structs[sname]:
                    key = "%s.%s" % (nm, fnm)
                    v = Var(key, self.fresh_lean(fnm), self.ty_of_text(fty))
                    self.scopes[0][key] = v
                    params.append(v)
                    if ty.replace(" ", "").startswith("&mut"):
                        struct_mut.append(key)
                continue
            t = self.ty_of_text(ty)
            if nm == "_":
                n_unused += 1
                v = Var("_%d" % n_unused, "unused%d" % n_unused, t)
                self.scopes[0]["_%d" % n_unused] = v
                params.append(v)
                continue
            v = Var(nm, self.fresh_lean(nm), t)
            self.scopes[0][nm] = v
            params.append(v)
        ret = self.ty_of_text(sp["ret"]) if sp.get("ret") else TUnit()
        self.tail_expected = ret
        code = Code()
        # self fields assigned by the body are returned (in spec order), before the declared return value
        # ... and so are `&mut` parameters the body writes to (after the fields, in parameter order)
        all_assigned = self.assigned(body)
        mut_params = [nm for nm, ty in sp["params"] if ty.replace(" ", "").startswith("&mut")]
        assigned_self = [a for a in all_assigned if a.startswith("self.") or a in mut_params] + struct_mut
        ret_fields = [v for v in params if v.rust in assigned_self]
        self.ret, self.ret_fields = ret, ret_fields
        if isinstance(ret, TUnit) and body.tail is not None and body.tail.kind == "if":
            # (genukk) a unit function whose body ends in `if .. {..} else {..}` without `;`: a statement
            body = N("block", body.pos, stmts=body.stmts + [N("ifs", body.tail.pos, e=body.tail)], tail=None)
        self.scopes.append({})
        out_tys = self.seq(body.stmts, body.tail, code, body)
        self.scopes.pop()
        absf = "".join(" (%s : Nat)" % w for w in self.width_params()) + \
            "".join(" (%s : %s)" % (f, self.abs_sig(f)) for f in self.absfn_params())
        sig = "def %s%s%s : Res %s :=" % (self.lean_fn, absf,
                                         "".join(" (%s : %s)" % (v.lean, v.ty.lean()) for v in params),
                                         paren_ty(tuple_ty(out_tys)))
        lines = [sig + " do"]
        emit_code(code, 2, lines)
        # fewer `while` loops than fuel expressions: the text changed shape; the translation is still determined (the
        # surplus expressions are unused), the equality theorem decides.  More loops than expressions was an error above.
        return self.helpers, "\n".join(lines), [v for v in ret_fields], None

    def seq(self, stmts, tail_node, code, where):
        """the statements of the function body (or of the rest of it after an early `return`): sets `code.final`,
        returns the types of the returned tuple.  An early return `if c { …; return e; }` at this level becomes
        `if c then do …; pure e else do <rest of the function>`; a `return` anywhere else (in a loop, in a nested `if`
        with an `else`) is refused by `stmt`."""
        if self.needs_cps(stmts):
            fctx = FnCtx(self)
            self.stmts_k(stmts, code, fctx, lambda c: fctx.ret(tail_node, c, where))
            return fctx.tys
        for idx, st in enumerate(stmts):
            if st.kind == "return":
                if idx != len(stmts) - 1 or tail_node is not None:
                    self.err("statements after `return`", st)
                return self.finish(st.e, code, st)
            if st.kind == "ifs" and st.e.els is None and st.e.then.tail is None and st.e.then.stmts \
                    and st.e.then.stmts[-1].kind == "return":
                e = st.e
                c, ct = self.expr(e.cond, code, TBool())
                if not isinstance(ct, TBool):
                    self.err("condition of type %r" % (ct,), e.cond)
                th = Code()
                self.scopes.append({})
                tys1 = self.seq(e.then.stmts, None, th, e.then)
                self.scopes.pop()
                el = Code()
                tys2 = self.seq(stmts[idx + 1:], tail_node, el, where)
                if tys1 != tys2:
                    self.err("early `return` of type %r, the function returns %r" % (tys1, tys2), st)
                code.final = ("if", c, th, el)
                return tys2
            self.stmt(st, code, False)
        return self.finish(tail_node, code, where)

    def finish(self, e, code, where):
        ret, ret_fields = self.ret, self.ret_fields
        outs, out_tys = [self.lookup(v.rust, where).lean for v in ret_fields], [v.ty for v in ret_fields]
        if e is not None:
            if isinstance(ret, TUnit):
                self.err("the function returns a value but the spec declares no return type", e)
            val, t = self.expr(e, code, ret)
            if not ty_compatible(t, ret):
                self.err("the returned expression has type %r, the spec declares %r" % (t, ret), e)
            outs.append(val)
            out_tys.append(t)
        elif not isinstance(ret, TUnit):
            self.err("the spec declares the return type %r but the function body ends without a value" % (ret,), where)
        code.final = ("pure", tuple_val(outs))
        return out_tys


class LoopCtx:
    """meaning of `return e`, `break` and "next round" inside the body of a loop helper (genpm)"""

    def __init__(self, tr, out_state, recur, has_ret, ret_ty):
        self.tr, self.out_state, self.recur, self.has_ret, self.ret_ty = tr, out_state, recur, has_ret, ret_ty
        self.direct = False

    def cur(self, where):
        return [self.tr.lookup(v.rust, where).lean for v in self.out_state]

    def cont(self, code):
        code.final = ("call", self.recur)

    def brk(self, code, where):
        code.final = ("pure", tuple_val(self.cur(where) + (["none"] if self.has_ret else [])))

    def ret(self, e, code, where):
        if e is None:
            self.tr.err("`return;` without a value inside a loop", where)
        val, t = self.tr.expr(e, code, self.ret_ty)
        if not ty_compatible(t, self.ret_ty):
            self.tr.err("the returned expression has type %r, the spec declares %r" % (t, self.ret_ty), e)
        code.final = ("pure", tuple_val(self.cur(where) + [val if self.direct else "some " + atom(val)]))

    def ret_val(self, v, code, where):
        code.final = ("pure", tuple_val(self.cur(where) + [v if self.direct else "some " + atom(v)]))


class FnCtx:
    """meaning of `return e` at the level of the function body (genpm)"""

    def __init__(self, tr):
        self.tr, self.tys = tr, None

    def note(self, tys, where):
        if self.tys is not None and tys != self.tys:
            self.tr.err("`return` of type %r, elsewhere the function returns %r" % (tys, self.tys), where)
        self.tys = tys

    def ret(self, e, code, where):
        self.note(self.tr.finish(e, code, where), where)

    def brk(self, code, where):
        self.tr.err("`break` outside a loop", where)

    def ret_val(self, v, code, where):
        tr = self.tr
        outs = [tr.lookup(f.rust, where).lean for f in tr.ret_fields]
        code.final = ("pure", tuple_val(outs + [v]))
        self.note([f.ty for f in tr.ret_fields] + [tr.ret], where)


def all_nodes(n):
    if isinstance(n, N):
        yield n
        for k, v in n.__dict__.items():
            if k not in ("kind", "pos"):
                for x in all_nodes(v):
                    yield x
    elif isinstance(n, (list, tuple)):
        for y in n:
            for x in all_nodes(y):
                yield x



def ty_compatible(a, b):
    return a == b


def leftmost(n):
    """smallest source position of a node and its children"""
    best = [n.pos]

    def walk(x):
        if isinstance(x, N):
            best[0] = min(best[0], x.pos)
            for k, v in x.__dict__.items():
                if k not in ("kind", "pos"):
                    walk(v)
        elif isinstance(x, (list, tuple)):
            for y in x:
                walk(y)
    walk(n)
    return best[0]


def pat_names(p):
    if p.kind == "pid":
        return [p.name]
    out = []
    for x in p.items:
        out += pat_names(x)
    return out


def iter_mut_target(it):
    """the sequence expression of `seq.iter_mut()`, or None"""
    while it.kind == "paren":
        it = it.e
    if it.kind == "mcall" and it.name == "iter_mut" and not it.args:
        return it.recv
    return None


def self_path(e):
    """`self.a.b` (a chain of field accesses starting at `self`) → "self.a.b", else None (genpm)"""
    parts = []
    while e.kind == "field":
        parts.append(e.name)
        e = e.e
    if e.kind == "var" and e.name == "self" and parts:
        return "self." + ".".join(reversed(parts))
    if e.kind == "var" and e.name in STRUCT_ROOTS and parts:
        return e.name + "." + ".".join(reversed(parts))      # (genukk) `state.pv` on a parameter of a struct type
    return None


def zip_parts(it):
    """`xs.iter().zip(ys)` / `xs.iter().zip(ys.iter())` → (xs, ys) expressions, else None (genpm)"""
    while it.kind == "paren":
        it = it.e
    if not (it.kind == "mcall" and it.name == "zip" and len(it.args) == 1):
        return None
    def strip(x):
        while x.kind == "paren" or (x.kind == "un" and x.op == "&") or \
                (x.kind == "mcall" and x.name in ("iter", "into_iter") and not x.args):
            x = x.e if x.kind in ("paren", "un") else x.recv
        return x
    return strip(it.recv), strip(it.args[0])


def zip_mut_parts(it):
    """(genukk) `xs.iter_mut().zip(ys)` → (xs, ys) expressions, else None"""
    while it.kind == "paren":
        it = it.e
    if not (it.kind == "mcall" and it.name == "zip" and len(it.args) == 1):
        return None
    r = it.recv
    if not (r.kind == "mcall" and r.name == "iter_mut" and not r.args):
        return None
    y = it.args[0]
    while y.kind == "paren" or (y.kind == "un" and y.op == "&") or (y.kind == "mcall" and y.name in ("iter", "into_iter") and not y.args):
        y = y.e if y.kind in ("paren", "un") else y.recv
    return r.recv, y


def method_key(e):
    """key of a method call on `self` or on a struct reachable from it: `self.kmp.delta(..)` → "self.kmp.delta" (genpm)"""
    r = e.recv
    if r.kind == "var" and r.name == "self":
        return "self." + e.name
    if r.kind == "var" and r.name in STRUCT_ROOTS:
        return r.name + "." + e.name
    if r.kind == "field" and self_path(r) is not None:
        return self_path(r) + "." + e.name
    return None


def iter_state_target(it):
    """the iterator-state expression `x` of `x.by_ref()` / `&mut x` as a loop source, or None (genpm)"""
    while it.kind == "paren":
        it = it.e
    if it.kind == "mcall" and it.name == "by_ref" and not it.args:
        return it.recv
    if it.kind == "un" and it.op == "&mut":
        return it.e
    return None


def contains_kind(n, kinds, stop=()):
    """does the AST below `n` contain a node of one of `kinds` (not descending into nodes of a kind in `stop`)?"""
    if isinstance(n, N):
        if n.kind in kinds:
            return True
        if n.kind in stop:
            return False
        return any(contains_kind(v, kinds, stop) for k, v in n.__dict__.items() if k not in ("kind", "pos"))
    if isinstance(n, (list, tuple)):
        return any(contains_kind(x, kinds, stop) for x in n)
    return False


LOOP_KINDS = ("while", "loop", "for")
STRUCT_ROOTS = set()      # (genukk) parameters of a struct type of the function being translated (set by FnTranslator)
# (genukk) methods that modify the `Vec` they are called on (the receiver may be an element `v[i]` of a vector of vectors)
SEQ_MUTATORS = ("push", "clear", "extend", "resize", "truncate")


def lean_name(rust):
    nm = rust.split(".")[-1]
    if nm in LEAN_KEYWORDS:
        return nm + "_"
    return nm


# ================================================================================================== units (= generated files)

def header_regex(header):
    """exact function header (given as Rust text) → regex that ignores white space between tokens, ending at `{`"""
    toks = [t.text for t in tokenize(header, 0)[:-1]]
    parts = []
    for i, t in enumerate(toks):
        parts.append(re.escape(t))
        if i + 1 < len(toks):
            a, b = t[-1], toks[i + 1][0]
            both_word = (a.isalnum() or a == "_") and (b.isalnum() or b == "_")
            parts.append(r"\s+" if both_word else r"\s*")
    return r"(?<![\w])" + "".join(parts) + r"\s*\{"


def translate_unit(src, unit, fail):
    """src: gen_tables.Src of unit['file']; returns (lean text, snippets dict).  Calls `fail(msg)` (which exits) on
    anything outside the subset."""
    rel = unit["file"]
    out_fns, snippets = [], {}
    for f in unit["functions"]:
        what = "fn %s" % f["name"]
        rx = header_regex(f["header"])
        if f.get("toplevel"):
            rx = r"(?m)^" + rx          # the item at column 0 (a function of the same name inside a nested `mod` is another one) (genpm)
        ms = list(re.finditer(rx, src.code))
        if f.get("within"):
            # (genukk, as in rs2lean_fm.py) the function is looked for inside the single item (an `impl` block) with this header
            ws = list(re.finditer(header_regex(f["within"]), src.code))
            if len(ws) != 1:
                fail("%s: %s: expected exactly one item `%s`, found %d" % (rel, what, f["within"][:100], len(ws)))
            lo = ws[0].end() - 1
            depth, hi = 0, None
            for i in range(lo, len(src.code)):
                if src.code[i] == "{":
                    depth += 1
                elif src.code[i] == "}":
                    depth -= 1
                    if depth == 0:
                        hi = i
                        break
            ms = [m for m in ms if hi is not None and lo < m.start() < hi]
            if len(ms) == 1:
                rx = "(?s)(?<=^.{%d})" % ms[0].start() + rx      # the same header, at this position only
                if len(list(re.finditer(rx, src.code))) != 1:
                    fail("%s: %s: internal: cannot pin the header inside `%s`" % (rel, what, f["within"][:60]))
        if len(ms) != 1:
            fail("%s: %s: expected exactly one function with the header `%s`, found %d (signature changed, renamed or "
                 "restructured: the translation spec in tools/rs2lean.py pins the header)" % (rel, what, f["header"], len(ms)))
        body, line = src.fn_body(rx, what)
        start = src.code.find("{", ms[0].end() - 1) + 1
        snippets[f["name"]] = ms[0].group(0)[:-1].strip() + " {" + body + "}"
        try:
            toks = tokenize(body, start)
            tr = FnTranslator(unit, f, src, body, start)
            helpers, main, ret_fields, tail = tr.translate(toks)
        except Unsupported as u:
            where = "%s:%d" % (rel, src.line_of(u.pos)) if u.pos is not None else "%s:%d" % (rel, line)
            fail("%s: %s: cannot translate: %s (outside the subset of tools/rs2lean.py; the equality theorem %s can no "
                 "longer be regenerated)" % (where, what, u.msg, f.get("theorem", "")))
        out_fns.append((f, line, body, helpers, main))
    name = unit["name"]
    txt = ["import RbV.Basic.RsSem" + "".join("\nimport " + i for i in unit.get("imports", [])),
           "/-! GENERATED by tools/rs2lean.py (tools/gen_tables.py, %s) — do not edit." % unit["props"],
           "Translation of the *text* of the following functions of `%s` (comments blanked) into Lean, regenerated from" % rel,
           "the source tree on every `./check`.  Semantics of the operations: `RbV/Basic/RsSem.lean` (`Res.panic` = the Rust",
           "code panics: index out of bounds, checked arithmetic; `Res.fuel` = the fuel of a translated `while` loop ran out).",
           "Equality with the hand-written mirror model: `RbV/Thm/GenSrc%s.lean`." % name[3:] if name.startswith("Src") else "",
           ""]
    for f, line, body, helpers, main in out_fns:
        txt.append("`%s` (line %d):" % (" ".join(f["header"].split()), line))
        txt.append("```")
        for l in dedent(body).splitlines():
            if l.strip():
                txt.append(l.rstrip().replace("-/", "- /").replace("/-", "/ -"))
        txt.append("```")
    txt.append("-/")
    txt.append("set_option linter.unusedVariables false")
    txt.append("namespace RbV.Gen.%s" % name)
    txt.append("open RbV RbV.Rs")
    gens = sorted(set(list(unit.get("generics", {}).values())
                      + [g for f in unit["functions"] for g in f.get("generics", {}).values()]))
    if gens:
        txt.append("variable " + " ".join("{%s : Type}" % g for g in gens))
    txt.append("")
    for f, line, body, helpers, main in out_fns:
        for h in helpers:
            txt.append(h)
            txt.append("")
        txt.append("/-- `%s` (%s, line %d) -/" % (" ".join(f["header"].split()).replace("-/", "- /"), rel, line))
        txt.append(main)
        txt.append("")
    txt.append("end RbV.Gen.%s" % name)
    return "\n".join(txt) + "\n", snippets


def dedent(body):
    lines = [l for l in body.splitlines() if l.strip()]
    ind = min((len(l) - len(l.lstrip()) for l in lines), default=0)
    return "\n".join(l[ind:] if len(l) >= ind else l for l in body.splitlines())


# ================================================================================================== translation specs

UNITS = {}


def unit(**kw):
    UNITS[kw["name"]] = kw
    return kw


unit(name="SrcKmpLps", props="property C08", file="src/pattern_matching/kmp.rs",
     aliases={"Lps": "Vec<usize>"},
     functions=[dict(name="lps", lean="lps", header="fn lps(pattern: &[u8]) -> Lps",
                     params=[("pattern", "&[u8]")], ret="Lps", locals={"q": "usize"},
                     fuel=["q + 1"], theorem="RbV.Thm.GenSrcKmpLps.lps_eq_model"),
                dict(name="KMP::delta", lean="delta", header="fn delta(&self, mut q: usize, a: u8) -> usize",
                     aliases={"TextSlice": "&[u8]"},
                     self_fields=[("m", "usize"), ("lps", "Lps"), ("pattern", "TextSlice")],
                     params=[("q", "usize"), ("a", "u8")], ret="usize",
                     fuel=["q + 1"], theorem="RbV.Thm.GenSrcKmpLps.delta_eq_model")])


unit(name="SrcShiftAndMasks", props="property C08", file="src/pattern_matching/shift_and.rs",
     functions=[dict(name="masks", lean="masks",
                     header="pub fn masks<C, P>(pattern: P) -> ([u64; 256], u64) where C: Borrow<u8>, P: IntoIterator<Item = C>,",
                     # `P: IntoIterator<Item = C>, C: Borrow<u8>`: the items are read through `*c.borrow()` only, a `u8` each
                     params=[("pattern", "&[u8]")], ret="([u64; 256], u64)",
                     locals={"masks": "[u64; 256]", "accept": "u64"},
                     theorem="RbV.Thm.GenSrcShiftAndMasks.masks_eq_model")])


unit(name="SrcHorspoolNew", props="property C08", file="src/pattern_matching/horspool.rs",
     functions=[dict(name="Horspool::new", lean="new", header="pub fn new(pattern: TextSlice<'a>) -> Self",
                     aliases={"TextSlice": "&[u8]"},
                     params=[("pattern", "&[u8]")], ret="(usize, Vec<usize>, &[u8])",
                     struct_fields={"Horspool": ["m", "shift", "pattern"]},
                     locals={"shift": "Vec<usize>"},
                     theorem="RbV.Thm.GenSrcHorspoolNew.new_eq_model")])


FENWICK_ABS = {"Op::operation": dict(lean="op", args=["T", "T"], ret="T"),
               "T::default": dict(lean="dflt", args=[], ret="T", is_value=True)}

unit(name="SrcFenwick", props="property C18", file="src/data_structures/bit_tree.rs",
     generics={"T": "α"}, abstract_fns=FENWICK_ABS,
     functions=[dict(name="FenwickTree::get", lean="get", header="pub fn get(&self, idx: usize) -> T",
                     self_fields=[("tree", "Vec<T>")], params=[("idx", "usize")], ret="T",
                     # `idx` strictly decreases; one unit more than the model's fuel: the translated loop spends one
                     # unit on the final test of the condition
                     fuel=["idx + 1"], theorem="RbV.Thm.GenSrcFenwick.get_eq_model"),
                dict(name="FenwickTree::set", lean="set", header="pub fn set(&mut self, idx: usize, val: T)",
                     self_fields=[("tree", "Vec<T>")], params=[("idx", "usize"), ("val", "T")], ret=None,
                     fuel=["tree.length + 1"], theorem="RbV.Thm.GenSrcFenwick.set_eq_model")])


unit(name="SrcBitEnc", props="property C18", file="src/data_structures/bitenc.rs",
     functions=[dict(name="mask", lean="mask", header="fn mask(width: usize) -> u32",
                     params=[("width", "usize")], ret="u32", theorem="RbV.Thm.GenSrcBitEnc.mask_eq_model"),
                dict(name="BitEnc::get_by_addr", lean="getByAddr",
                     header="fn get_by_addr(&self, block: usize, bit: usize) -> u8",
                     self_fields=[("storage", "Vec<u32>"), ("mask", "u32")],
                     params=[("block", "usize"), ("bit", "usize")], ret="u8",
                     theorem="RbV.Thm.GenSrcBitEnc.getByAddr_eq_model"),
                dict(name="BitEnc::set_by_addr", lean="setByAddr",
                     header="fn set_by_addr(&mut self, block: usize, bit: usize, value: u8)",
                     self_fields=[("storage", "Vec<u32>"), ("mask", "u32")],
                     params=[("block", "usize"), ("bit", "usize"), ("value", "u8")], ret=None,
                     theorem="RbV.Thm.GenSrcBitEnc.setByAddr_eq_model"),
                dict(name="BitEnc::addr", lean="addr", header="fn addr(&self, i: usize) -> (usize, usize)",
                     self_fields=[("width", "usize"), ("usable_bits_per_block", "usize")],
                     params=[("i", "usize")], ret="(usize, usize)", theorem="RbV.Thm.GenSrcBitEnc.addr_eq_model")])


unit(name="SrcBwt", props="property C04", file="src/data_structures/bwt.rs",
     aliases={"RawSuffixArraySlice": "&[usize]", "BWT": "Vec<u8>", "BWTSlice": "[u8]"},
     functions=[dict(name="bwt", lean="bwt", header="pub fn bwt(text: &[u8], pos: RawSuffixArraySlice) -> BWT",
                     params=[("text", "&[u8]"), ("pos", "RawSuffixArraySlice")], ret="BWT",
                     theorem="RbV.Thm.GenSrcBwt.bwt_eq_model")])


unit(name="SrcPrescan", props="property C04", file="src/utils/mod.rs",
     generics={"T": "α"},
     functions=[dict(name="prescan", lean="prescan",
                     header="pub fn prescan<T: Copy, F: Fn(T, T) -> T>(a: &mut [T], neutral: T, op: F)",
                     # `op: F` is the abstract operation (a leading parameter of the translated function)
                     abstract_fns={"op": dict(lean="op", args=["T", "T"], ret="T")},
                     params=[("a", "&mut [T]"), ("neutral", "T")], ret=None,
                     theorem="RbV.Thm.GenSrcPrescan.prescan_eq_model")])


# ---- genpm: the search loops of the exact matchers (C08) ------------------------------------------------------------
# `Matches::next`: the iterator state `self.text` (an `Enumerate` over the text bytes) is the pair (bytes not yet consumed,
# counter); the trusted reading of `IntoIterator<Item = &u8>` over a slice is that it yields the slice's bytes in order.

unit(name="SrcShiftAndNext", props="property C08", file="src/pattern_matching/shift_and.rs",
     imports=["RbV.Gen.SrcShiftAndMasks"],
     functions=[dict(name="ShiftAnd::new", lean="new",
                     header="pub fn new<C, P>(pattern: P) -> Self where P::IntoIter: ExactSizeIterator, C: Borrow<u8>, "
                            "P: IntoIterator<Item = C>,",
                     params=[("pattern", "&[u8]")], ret="(usize, [u64; 256], u64)",
                     struct_fields={"ShiftAnd": ["m", "masks", "accept"]},
                     calls={"masks": dict(lean="RbV.Gen.SrcShiftAndMasks.masks", args=["&[u8]"], ret="([u64; 256], u64)")},
                     theorem="RbV.Thm.GenSrcShiftAndNext.new_eq_model"),
                dict(name="ShiftAnd::find_all", lean="findAll",
                     header="pub fn find_all<C, T>(&self, text: T) -> Matches<'_, C, T::IntoIter> where C: Borrow<u8>, "
                            "T: IntoIterator<Item = C>,",
                     params=[("text", "&[u8]")], ret="(u64, Enumerate<u8>)",
                     struct_fields={"Matches": [("active", "u64"), ("text", "Enumerate<u8>")]},
                     theorem="RbV.Thm.GenSrcShiftAndNext.findAll_eq_model"),
                dict(name="Matches::next", lean="next", header="fn next(&mut self) -> Option<usize>",
                     self_fields=[("shiftand.m", "usize"), ("shiftand.masks", "[u64; 256]"), ("shiftand.accept", "u64"),
                                  ("active", "u64"), ("text", "Enumerate<u8>")],
                     params=[], ret="Option<usize>", theorem="RbV.Thm.GenSrcShiftAndNext.next_eq_model")])


unit(name="SrcKmpNext", props="property C08", file="src/pattern_matching/kmp.rs",
     imports=["RbV.Gen.SrcKmpLps"], aliases={"Lps": "Vec<usize>", "TextSlice": "&[u8]"},
     functions=[dict(name="KMP::new", lean="new", header="pub fn new(pattern: TextSlice<'a>) -> Self",
                     params=[("pattern", "TextSlice")], ret="(Lps, usize, TextSlice)",
                     struct_fields={"KMP": ["lps", "m", "pattern"]},
                     calls={"lps": dict(lean="RbV.Gen.SrcKmpLps.lps", args=["&[u8]"], ret="Lps")},
                     theorem="RbV.Thm.GenSrcKmpNext.new_eq_model"),
                dict(name="KMP::find_all", lean="findAll",
                     header="pub fn find_all<C, T>(&self, text: T) -> Matches<C, T::IntoIter> where C: Borrow<u8>, "
                            "T: IntoIterator<Item = C>,",
                     params=[("text", "&[u8]")], ret="(usize, Enumerate<u8>)",
                     struct_fields={"Matches": [("q", "usize"), ("text", "Enumerate<u8>")]},
                     theorem="RbV.Thm.GenSrcKmpNext.findAll_init"),
                dict(name="Matches::next", lean="next", header="fn next(&mut self) -> Option<usize>",
                     self_fields=[("kmp.m", "usize"), ("kmp.lps", "Lps"), ("kmp.pattern", "TextSlice"),
                                  ("q", "usize"), ("text", "Enumerate<u8>")],
                     calls={"self.kmp.delta": dict(lean="RbV.Gen.SrcKmpLps.delta", self_args=["kmp.m", "kmp.lps", "kmp.pattern"],
                                                   args=["usize", "u8"], ret="usize")},
                     params=[], ret="Option<usize>", theorem="RbV.Thm.GenSrcKmpNext.next_eq_model")])


unit(name="SrcHorspoolNext", props="property C08", file="src/pattern_matching/horspool.rs",
     aliases={"TextSlice": "&[u8]"},
     functions=[dict(name="Horspool::find_all", lean="findAll",
                     header="pub fn find_all<'b>(&'b self, text: TextSlice<'b>) -> Matches<'_>",
                     self_fields=[("m", "usize"), ("pattern", "TextSlice")],
                     params=[("text", "TextSlice")], ret="(TextSlice, usize, usize, u8)",
                     struct_fields={"Matches": [("text", "TextSlice"), ("n", "usize"), ("last", "usize"), ("pattern_last", "u8")]},
                     theorem="RbV.Thm.GenSrcHorspoolNext.findAll_init"),
                dict(name="Matches::next", lean="next", header="fn next(&mut self) -> Option<usize>",
                     self_fields=[("horspool.shift", "Vec<usize>"), ("horspool.m", "usize"), ("horspool.pattern", "TextSlice"),
                                  ("text", "TextSlice"), ("n", "usize"), ("last", "usize"), ("pattern_last", "u8")],
                     # both loops advance `last` by a table entry (>= 1 for the table `Horspool::new` builds) per round
                     fuel=["n - last + 1", "n - last + 1"],
                     params=[], ret="Option<usize>", theorem="RbV.Thm.GenSrcHorspoolNext.next_eq_model")])


unit(name="SrcBndmNext", props="property C08", file="src/pattern_matching/bndm.rs",
     imports=["RbV.Gen.SrcShiftAndMasks"], aliases={"TextSlice": "&[u8]"},
     functions=[dict(name="BNDM::new", lean="new",
                     header="pub fn new<C, P>(pattern: P) -> Self where C: Borrow<u8>, P: IntoIterator<Item = C>, "
                            "P::IntoIter: DoubleEndedIterator + ExactSizeIterator,",
                     params=[("pattern", "&[u8]")], ret="(usize, [u64; 256], u64)",
                     struct_fields={"BNDM": ["m", "masks", "accept"]},
                     calls={"masks": dict(lean="RbV.Gen.SrcShiftAndMasks.masks", args=["&[u8]"], ret="([u64; 256], u64)")},
                     theorem="RbV.Thm.GenSrcBndmNext.new_eq_model"),
                dict(name="BNDM::find_all", lean="findAll",
                     header="pub fn find_all<'a>(&'a self, text: TextSlice<'a>) -> Matches<'_>",
                     self_fields=[("m", "usize")], params=[("text", "TextSlice")], ret="(usize, TextSlice)",
                     struct_fields={"Matches": [("window", "usize"), ("text", "TextSlice")]},
                     theorem="RbV.Thm.GenSrcBndmNext.findAll_init"),
                dict(name="Matches::next", lean="next", header="fn next(&mut self) -> Option<usize>",
                     self_fields=[("bndm.m", "usize"), ("bndm.masks", "[u64; 256]"), ("bndm.accept", "u64"),
                                  ("window", "usize"), ("text", "TextSlice")],
                     locals={"occ": "Option<usize>", "j": "usize", "lastsuffix": "usize"},
                     # outer loop: the window moves right by at least 1 per round; inner loop: `active <<= 1` on m bits, one more
                     # unit than the model's fuel for the final test of the condition
                     fuel=["text.length - window + 2", "m + 2"],
                     params=[], ret="Option<usize>", theorem="RbV.Thm.GenSrcBndmNext.next_eq_model")])


unit(name="SrcBomNext", props="property C08", file="src/pattern_matching/bom.rs",
     aliases={"TextSlice": "&[u8]"},
     functions=[dict(name="BOM::delta", lean="delta", header="fn delta(&self, q: usize, a: u8) -> Option<usize>",
                     self_fields=[("table", "Vec<VecMap<usize> >")], params=[("q", "usize"), ("a", "u8")],
                     ret="Option<usize>", theorem="RbV.Thm.GenSrcBomNext.delta_eq_model"),
                dict(name="BOM::find_all", lean="findAll",
                     header="pub fn find_all<'a>(&'a self, text: TextSlice<'a>) -> Matches<'_>",
                     self_fields=[("m", "usize")], params=[("text", "TextSlice")], ret="(TextSlice, usize)",
                     struct_fields={"Matches": [("text", "TextSlice"), ("window", "usize")]},
                     theorem="RbV.Thm.GenSrcBomNext.findAll_init"),
                dict(name="Matches::next", lean="next", header="fn next(&mut self) -> Option<usize>",
                     self_fields=[("bom.m", "usize"), ("bom.table", "Vec<VecMap<usize> >"), ("text", "TextSlice"),
                                  ("window", "usize")],
                     locals={"q": "Option<usize>", "j": "usize"},
                     calls={"self.bom.delta": dict(lean="delta", self_args=["bom.table"], args=["usize", "u8"],
                                                   ret="Option<usize>")},
                     fuel=["text.length - window + 2", "m + 2"],
                     params=[], ret="Option<usize>", theorem="RbV.Thm.GenSrcBomNext.next_eq_model")])


# ---- genpm: distance functions and approximate matchers (C09) -------------------------------------------------------

unit(name="SrcHamming", props="property C09", file="src/alignment/distance.rs",
     aliases={"TextSlice": "&[u8]"},
     functions=[dict(name="hamming", lean="hamming",
                     header="pub fn hamming(alpha: TextSlice<'_>, beta: TextSlice<'_>) -> u64",
                     toplevel=True,        # `simd::hamming` in the same file has the same header
                     params=[("alpha", "TextSlice"), ("beta", "TextSlice")], ret="u64", locals={"dist": "u64"},
                     theorem="RbV.Thm.GenSrcHamming.hamming_eq_model")])


# ---- genukk: the approximate matchers (C09/C10) --------------------------------------------------------------------
# `Ukkonen<F>`: the two DP columns `D: [Vec<usize>; 2]` are a list of two lists (the length 2 of the array type is a
# hypothesis `D.length = 2` of the theorems); the user's cost closure `self.cost: F where F: Fn(u8, u8) -> u32` is the
# abstract pure function `cost`.

UKK_COST = {"self.ukkonen.cost": dict(lean="cost", args=["u8", "u8"], ret="u32")}

unit(name="SrcUkkonen", props="property C09", file="src/pattern_matching/ukkonen.rs",
     imports=["RbV.Basic.RsSemBits", "RbV.Basic.RsSemWord"], aliases={"TextSlice": "&[u8]"},
     functions=[dict(name="Ukkonen::find_all_end", lean="findAllEnd",
                     header="pub fn find_all_end<'a, C, T>(&'a mut self, pattern: TextSlice<'a>, text: T, k: usize,) "
                            "-> Matches<'_, F, C, T::IntoIter> where C: Borrow<u8>, T: IntoIterator<Item = C>,",
                     self_fields=[("D", "[Vec<usize>; 2]")],
                     params=[("pattern", "TextSlice"), ("text", "&[u8]"), ("k", "usize")],
                     ret="(TextSlice, Enumerate<u8>, usize, usize, usize)",
                     struct_fields={"Matches": [("pattern", "TextSlice"), ("text", "Enumerate<u8>"), ("lastk", "usize"),
                                                ("m", "usize"), ("k", "usize")]},
                     shadow_fresh=True,
                     theorem="RbV.Thm.GenSrcUkkonen.findAllEnd_init"),
                dict(name="Matches::next", lean="next", header="fn next(&mut self) -> Option<(usize, usize)>",
                     self_fields=[("ukkonen.D", "[Vec<usize>; 2]"), ("pattern", "TextSlice"), ("text", "Enumerate<u8>"),
                                  ("lastk", "usize"), ("m", "usize"), ("k", "usize")],
                     abstract_fns=UKK_COST,
                     # `while D[col][lastk] > k { lastk -= 1 }`: `lastk` strictly decreases (and stops at cell 0, which is 0)
                     fuel=["lastk + 1"], shadow_fresh=True,
                     params=[], ret="Option<(usize, usize)>", theorem="RbV.Thm.GenSrcUkkonen.next_eq_model")])


# `Myers<T: BitVec>` (single word): the generic word type `T` is a `Nat` below `2^w` with `w` a parameter of every generated
# function (`Rs.wrappingAdd w`, `Rs.not w`, `Rs.shl w`, `Rs.maxVal w`); `T::DistType` likewise with width `wd`.  A `State<T, D>`
# is passed field by field (`pv`, `mv`, `dist`).  Semantics of the signed `i8` step of the `dist` update: RsSemWord.lean.
MYERS_WORDS = {"T": "w", "D": "wd", "DistType": "wd"}
MYERS_PATHS = {"T::DistType": "DistType", "D": "D", "T": "T"}
MYERS_STRUCTS = {"State": [("pv", "T"), ("mv", "T"), ("dist", "DistType")],
                 "Myers": [("peq", "[T; 256]"), ("bound", "T"), ("m", "DistType")]}

unit(name="SrcMyersState", props="properties C09, C10", file="src/pattern_matching/myers/myers_impl.rs",
     imports=["RbV.Basic.RsSemWord"], word_types=MYERS_WORDS, type_paths=MYERS_PATHS, structs=MYERS_STRUCTS,
     functions=[dict(name="State::init", lean="init", header="pub fn init(m: D) -> Self",
                     params=[("m", "D")], ret="State",
                     struct_fields={"State": [("pv", "T"), ("mv", "T"), ("dist", "D")]},
                     theorem="RbV.Thm.GenSrcMyersSimple.init_eq_model"),
                dict(name="State::known_dist", lean="knownDist", header="pub fn known_dist(&self) -> Option<D>",
                     self_fields=[("dist", "D")], params=[], ret="Option<D>",
                     theorem="RbV.Thm.GenSrcMyersSimple.knownDist_eq")])

unit(name="SrcMyersSimple", props="properties C09, C10", file="src/pattern_matching/myers/simple.rs",
     imports=["RbV.Basic.RsSemWord", "RbV.Gen.SrcMyersState"], word_types=MYERS_WORDS, type_paths=MYERS_PATHS,
     structs=MYERS_STRUCTS, signed_arith=True,
     functions=[dict(name="Myers::_step", lean="step_", header="fn _step(&self, state: &mut State<T, T::DistType>, a: u8)",
                     self_fields=[("peq", "[T; 256]"), ("bound", "T")],
                     params=[("state", "&mut State"), ("a", "u8")], ret=None,
                     theorem="RbV.Thm.GenSrcMyersSimple.step__eq_model"),
                dict(name="Myers::step", lean="step",
                     header="fn step(&self, state: &mut State<T, T::DistType>, a: u8, _: T::DistType)",
                     self_fields=[("peq", "[T; 256]"), ("bound", "T")],
                     params=[("state", "&mut State"), ("a", "u8"), ("_", "DistType")], ret=None,
                     calls={"self._step": dict(lean="step_", extra=["w", "wd"], self_args=["peq", "bound"],
                                               args=["&mut State", "u8"], ret=None)},
                     theorem="RbV.Thm.GenSrcMyersSimple.step_eq_model"),
                dict(name="Myers::initial_state", lean="initialState",
                     header="fn initial_state(&self, m: T::DistType, _: T::DistType) -> State<T, T::DistType>",
                     params=[("m", "DistType"), ("_", "DistType")], ret="State",
                     calls={"State::init": dict(lean="RbV.Gen.SrcMyersState.init", extra=["w", "wd"], args=["DistType"], ret="State")},
                     theorem="RbV.Thm.GenSrcMyersSimple.init_eq_model")])

# `Matches::new` / `Matches::next` are written once, inside the macro `impl_myers!` of myers_impl.rs (`$DistType`, `$Myers`,
# `$State` are its parameters); this unit reads them at the instance of simple.rs: `myers.step` / `myers.initial_state` are the
# translated functions of `SrcMyersSimple`, `state.known_dist()` that of `SrcMyersState`.
unit(name="SrcMyersMatches", props="properties C09, C10", file="src/pattern_matching/myers/myers_impl.rs",
     imports=["RbV.Basic.RsSemWord", "RbV.Gen.SrcMyersState", "RbV.Gen.SrcMyersSimple"],
     word_types=MYERS_WORDS, type_paths=MYERS_PATHS, structs=MYERS_STRUCTS,
     functions=[dict(name="Matches::new", lean="new", header="fn new(myers: &'a Myers<T>, text: I, max_dist: $DistType) -> Self",
                     within="impl<'a, T, C, I> Matches<'a, T, C, I> where T: BitVec, C: Borrow<u8>, I: Iterator<Item = C>,",
                     params=[("myers", "&Myers"), ("text", "&[u8]"), ("max_dist", "DistType")],
                     ret="(State, Enumerate<u8>, DistType)",
                     struct_fields={"Matches": [("state", "State"), ("text", "Enumerate<u8>"), ("max_dist", "DistType")]},
                     calls={"myers.initial_state": dict(lean="RbV.Gen.SrcMyersSimple.initialState", extra=["w", "wd"],
                                                        args=["DistType", "DistType"], ret="State")},
                     theorem="RbV.Thm.GenSrcMyersMatches.new_eq_model"),
                dict(name="Matches::next", lean="next", header="fn next(&mut self) -> Option<(usize, $DistType)>",
                     within="impl<'a, T, C, I> Iterator for Matches<'a, T, C, I> where T: BitVec, C: Borrow<u8>, I: Iterator<Item = C>,",
                     self_fields=[("myers.peq", "[T; 256]"), ("myers.bound", "T"), ("state.pv", "T"), ("state.mv", "T"),
                                  ("state.dist", "DistType"), ("text", "Enumerate<u8>"), ("max_dist", "DistType")],
                     params=[], ret="Option<(usize, DistType)>",
                     calls={"self.myers.step": dict(lean="RbV.Gen.SrcMyersSimple.step", extra=["w", "wd"],
                                                    self_args=["myers.peq", "myers.bound"],
                                                    args=["&mut State", "u8", "DistType"], ret=None),
                            "self.state.known_dist": dict(lean="RbV.Gen.SrcMyersState.knownDist", extra=["w", "wd"],
                                                          self_args=["state.dist"], args=[], ret="Option<DistType>")},
                     theorem="RbV.Thm.GenSrcMyersMatches.next_eq_model")])


# `long::Myers<T>` (block-based): a block is a `State<T, usize>` (`pv`, `mv`, `dist`), the per-block pattern data a `Peq<T>`
# (`peq`, `bound`); the horizontal differences `hin` / `hout` between blocks are `i8` bit patterns (−1 = 255).
MYERS_LONG_STRUCTS = {"State": [("pv", "T"), ("mv", "T"), ("dist", "usize")],
                      "Peq": [("peq", "[T; 256]"), ("bound", "T")]}

LONG_STATES = [("states", "Vec<State>"), ("max_block", "usize"), ("last_m", "usize")]

unit(name="SrcMyersLong", props="properties C09, C10", file="src/pattern_matching/myers/long.rs",
     imports=["RbV.Basic.RsSemWord", "RbV.Gen.SrcMyersState"], word_types={"T": "w"}, type_paths={"T": "T"}, structs=MYERS_LONG_STRUCTS,
     signed_arith=True,
     functions=[dict(name="advance_block", lean="advanceBlock",
                     header="fn advance_block<T: BitVec>(state: &mut State<T, usize>, p: &Peq<T>, a: u8, hin: i8) -> i8",
                     params=[("state", "&mut State"), ("p", "&Peq"), ("a", "u8"), ("hin", "i8")], ret="i8",
                     theorem="RbV.Thm.GenSrcMyersLong.advanceBlock_eq_model"),
                # `States<T>`: the active blocks `states: Vec<State<T, usize>>` (a list of triples), `max_block`, `last_m`
                dict(name="States::add_state", lean="addState", header="fn add_state(&mut self, offset: i8)",
                     self_fields=LONG_STATES, params=[("offset", "i8")], ret=None,
                     calls={"State::init": dict(lean="RbV.Gen.SrcMyersState.init", extra=["w", "64"], args=["usize"], ret="State")},
                     theorem="RbV.Thm.GenSrcMyersLongStep.addState_eq_model"),
                dict(name="States::step", lean="step", header="fn step(&mut self, a: u8, peq: &[Peq<T>], max_dist: usize)",
                     self_fields=LONG_STATES, params=[("a", "u8"), ("peq", "&[Peq]"), ("max_dist", "usize")], ret=None,
                     locals={"carry": "i8"},
                     # `while last_block > 0 && states[last_block].dist >= max_dist + w { last_block -= 1 }`
                     fuel=["last_block + 1"],
                     calls={"advance_block": dict(lean="advanceBlock", extra=["w"], args=["&mut State", "&Peq", "u8", "i8"], ret="i8"),
                            "self.add_state": dict(lean="addState", extra=["w"], self_args=["states", "max_block", "last_m"],
                                                   self_outs=["states"], args=["i8"], ret=None)},
                     theorem="RbV.Thm.GenSrcMyersLongStep.step_eq_model")])


# ================================================================================================== self-test

SELFTEST_RS = r"""
// synthetic functions exercising the subset (tools/rs2lean.py --selftest)
pub fn find_first(xs: &[u32], key: u32) -> usize {
    let n = xs.len();
    if n == 0 {
        return 0;
    }
    let mut pos = n;
    for i in (0..n).rev() {
        if xs[i] == key {
            pos = i;
        } else if xs[i] > key && pos == n {
            pos = n;
        }
    }
    pos
}

pub fn squares(k: u8) -> Vec<u8> {
    let mut out: Vec<u8> = Vec::new();
    for i in 0..=k {
        out.push(i.wrapping_mul(i));
    }
    out
}

pub fn digits(mut x: u64) -> Vec<u64> {
    let mut d: Vec<u64> = Vec::new();
    while x > 0 {
        d.push(x % 10);
        x /= 10;
    }
    d
}

pub fn checksum(data: &[u8], modulus: u32) -> u32 {
    assert!(modulus > 0, "modulus");
    let mut acc = 0u32;
    for (i, &b) in data.iter().enumerate() {
        acc = (acc * 31 + u32::from(b) + (i as u32 & 0xff)) % modulus;
        acc ^= !acc >> 7;
    }
    acc
}

pub fn find_key(xs: &[u32], key: u32) -> Option<usize> {
    let mut i = 0;
    let mut seen = None;
    loop {
        if i >= xs.len() {
            break;
        }
        if xs[i] == key {
            return Some(i);
        }
        match seen {
            Some(s) => {
                if s > xs[i] {
                    seen = Some(xs[i]);
                }
            }
            None => {
                seen = Some(xs[i]);
            }
        }
        i += 1;
    }
    if seen.is_some() {
        return None;
    }
    None
}

impl Iterator for Finder {
    fn next(&mut self) -> Option<usize> {
        for (i, c) in self.text.by_ref() {
            if *c == self.key {
                return Some(i);
            }
        }
        None
    }
}
"""

SELFTEST_UNIT = dict(
    name="SrcSelfTest", props="self-test", file="src/selftest.rs",
    functions=[
        dict(name="find_first", lean="findFirst", header="pub fn find_first(xs: &[u32], key: u32) -> usize",
             params=[("xs", "&[u32]"), ("key", "u32")], ret="usize"),
        dict(name="squares", lean="squares", header="pub fn squares(k: u8) -> Vec<u8>", params=[("k", "u8")], ret="Vec<u8>"),
        dict(name="digits", lean="digits", header="pub fn digits(mut x: u64) -> Vec<u64>", params=[("x", "u64")],
             ret="Vec<u64>", fuel=["x + 1"]),
        dict(name="checksum", lean="checksum", header="pub fn checksum(data: &[u8], modulus: u32) -> u32",
             params=[("data", "&[u8]"), ("modulus", "u32")], ret="u32"),
        # genpm: `loop`, `break`, `return` inside a loop, `match` on `Option`, `for … in it.by_ref()`
        dict(name="find_key", lean="findKey", header="pub fn find_key(xs: &[u32], key: u32) -> Option<usize>",
             params=[("xs", "&[u32]"), ("key", "u32")], ret="Option<usize>", locals={"i": "usize", "seen": "Option<u32>"},
             fuel=["xs.length + 1"]),
        dict(name="Finder::next", lean="finderNext", header="fn next(&mut self) -> Option<usize>",
             self_fields=[("key", "u32"), ("text", "Enumerate<u32>")], params=[], ret="Option<usize>"),
    ])

# (statement text placed in a function `fn f(v: &[u8], n: usize) -> usize { … }`, substring expected in the refusal)
SELFTEST_REFUSED = [
    ("loop { break; } n", "`loop`"),
    ("match n { 0 => 1, _ => 2 }", "`match`"),
    ("let c = |a: usize| a + 1; c(n)", "closure"),
    ("let q = 3; n + q", "cannot be read off the text"),
    ("for i in 0..n { if v[i] == 0 { return i; } } n", "`return` is only translated"),
    ("let x = v.iter().map(|b| *b as usize).sum::<usize>(); x", "closure|turbofish"),
    ("while n > 0 { } n", "no fuel expression"),
    ("let s = v[1..3]; n", "sub-slice"),
    ("let k = n as isize; let j = k + k; n", "signed type"),
    ("let k = n as isize; if k < 0 { return 0; } n", "signed values"),
    ("let w = n as i64; let k = w as i128; n", "i128"),
    ("n?", "`?` operator"),
    ("unsafe { n }", "`unsafe`"),
    ("let t = (n, n); t.0", "tuple field access"),
    ("n.pow(2)", "method `.pow"),
    ("let mut n2 = n; { let n2 = 1usize; } n2", "block expression|unexpected"),
]


def selftest(with_lean):
    import tempfile, subprocess, shutil
    sys.path.insert(0, os.path.dirname(os.path.abspath(__file__)))
    import gen_tables

    class Refused(Exception):
        pass

    def refuse(msg):
        raise Refused(msg)
    tmp = tempfile.mkdtemp(prefix="rs2lean-selftest-")
    ok = True
    try:
        os.makedirs(os.path.join(tmp, "src"))
        with open(os.path.join(tmp, "src", "selftest.rs"), "w") as f:
            f.write(SELFTEST_RS)
        src = gen_tables.Src(tmp, "src/selftest.rs")
        text, _ = translate_unit(src, SELFTEST_UNIT, refuse)
        text2, _ = translate_unit(src, SELFTEST_UNIT, refuse)
        if text != text2:
            print("selftest: translation is not deterministic")
            ok = False
        checks = ["#eval findFirst [5, 7, 7, 9] 7   -- ok 1", "#eval findFirst [] 7   -- ok 0",
                  "#eval squares 17   -- ok [0, 1, 4, …, 225, 0, 33]", "#eval digits 9075   -- ok [5, 7, 0, 9]",
                  "#eval checksum [1, 2, 3] 1000003", "#eval checksum [1, 2, 3] 0   -- panic (assert!)",
                  "#eval findKey [5, 7, 9] 7   -- ok (some 1)", "#eval findKey [5, 7] 1   -- ok none",
                  "#eval finderNext 7 ([5, 7, 7], 0)   -- ok (([7], 2), some 1)",
                  "#eval finderNext 7 ([5, 6], 3)   -- ok (([], 5), none)"]
        lean_text = text.replace("end RbV.Gen.SrcSelfTest", "\n".join(checks) + "\nend RbV.Gen.SrcSelfTest")
        if with_lean:
            lf = os.path.join(tmp, "SelfTest.lean")
            with open(lf, "w") as f:
                f.write(lean_text)
            lean_dir = os.path.join(os.path.dirname(os.path.dirname(os.path.abspath(__file__))), "lean")
            p = subprocess.run(["lake", "env", "lean", lf], cwd=lean_dir, stdout=subprocess.PIPE, stderr=subprocess.STDOUT,
                               text=True, timeout=600)
            print(p.stdout.strip())
            want = ["RbV.Rs.Res.ok 1", "RbV.Rs.Res.ok 0", "225, 0, 33]", "RbV.Rs.Res.ok [5, 7, 0, 9]", "RbV.Rs.Res.panic",
                    "RbV.Rs.Res.ok (some 1)", "RbV.Rs.Res.ok none", "RbV.Rs.Res.ok (([7], 2), some 1)",
                    "RbV.Rs.Res.ok (([], 5), none)"]
            if p.returncode != 0 or any(w not in p.stdout for w in want):
                print("selftest: the generated Lean does not compile or evaluates differently")
                ok = False
        else:
            sys.stdout.write(lean_text)
        for body, expect in SELFTEST_REFUSED:
            with open(os.path.join(tmp, "src", "selftest.rs"), "w") as f:
                f.write("fn f(v: &[u8], n: usize) -> usize {\n    %s\n}\n" % body)
            u = dict(name="SrcNeg", props="self-test", file="src/selftest.rs",
                     functions=[dict(name="f", lean="f", header="fn f(v: &[u8], n: usize) -> usize",
                                     params=[("v", "&[u8]"), ("n", "usize")], ret="usize")])
            try:
                translate_unit(gen_tables.Src(tmp, "src/selftest.rs"), u, refuse)
                print("selftest: NOT refused: %s" % body)
                ok = False
            except Refused as r:
                if not re.search(expect, str(r)):
                    print("selftest: refused for another reason: %s: %s" % (body, r))
                    ok = False
    finally:
        shutil.rmtree(tmp, ignore_errors=True)
    print("selftest: " + ("ok" if ok else "FAILED"))
    sys.exit(0 if ok else 1)


def main():
    ap = argparse.ArgumentParser()
    ap.add_argument("--repo", default=os.environ.get("VERIF_REPO", "/repo"))
    ap.add_argument("--unit", help="one of: " + ", ".join(sorted(UNITS)))
    ap.add_argument("--selftest", action="store_true", help="translate built-in snippets; refuse built-in non-subset ones")
    ap.add_argument("--lean", action="store_true", help="with --selftest: also compile and evaluate the result with lean")
    a = ap.parse_args()
    if a.selftest:
        selftest(a.lean)
    sys.path.insert(0, os.path.dirname(os.path.abspath(__file__)))
    import gen_tables
    if a.unit not in UNITS:
        gen_tables.fail("rs2lean: unknown unit %s" % a.unit)
    u = UNITS[a.unit]
    src = gen_tables.Src(a.repo, u["file"])
    text, _ = translate_unit(src, u, gen_tables.fail)
    sys.stdout.write(text)


if __name__ == "__main__":
    main()
