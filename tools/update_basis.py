#!/usr/bin/env python3
"""Record the SHA-1 of every anchored source file per property (model_basis.json).
Run after every commit to /repo that the models have been (re)validated against. The check compares these hashes with
the working tree: a difference never alarms, it only escalates the case budget (DESIGN §3.6)."""
import json, hashlib, os, sys
ROOT = os.path.dirname(os.path.dirname(os.path.abspath(__file__)))
REPO = sys.argv[1] if len(sys.argv) > 1 else "/repo"
if not os.path.isdir(os.path.join(REPO, "src")):
    sys.exit("usage: update_basis.py [repo]   (%s has no src/ directory)" % REPO)
basis = {}
for l in open(os.path.join(ROOT, "properties.jsonl")):
    p = json.loads(l)
    d = {}
    for f in p["anchors"]["files"]:
        path = os.path.join(REPO, f)
        if os.path.exists(path):
            d[f] = hashlib.sha1(open(path, "rb").read()).hexdigest()
    basis[p["id"]] = d
json.dump(basis, open(os.path.join(ROOT, "model_basis.json"), "w"), indent=1, sort_keys=True)
print("model_basis.json written for", len(basis), "properties")
