#!/usr/bin/env python3
"""Record the SHA-1 of every source file a property's behaviour can depend on (model_basis.json).

Per property: the anchored files of properties.jsonl plus the transitive closure of their in-crate imports
(`use crate::a::b::…`, `crate::a::b::item` paths, `super::…`, `self::…`) resolved to files under src/.
Run after every commit to /repo that the models have been (re)validated against. The check compares these hashes with
the working tree: a difference never alarms, it only escalates the case budget (DESIGN §3.6)."""
import json, hashlib, os, re, sys
ROOT = os.path.dirname(os.path.dirname(os.path.abspath(__file__)))
REPO = sys.argv[1] if len(sys.argv) > 1 else "/repo"
if not os.path.isdir(os.path.join(REPO, "src")):
    sys.exit("usage: update_basis.py [repo]   (%s has no src/ directory)" % REPO)


def mod_file(parts):
    """longest prefix of a crate path that names a module file; returns repo-relative path or None"""
    for n in range(len(parts), 0, -1):
        base = os.path.join("src", *parts[:n])
        for cand in (base + ".rs", os.path.join(base, "mod.rs")):
            if os.path.exists(os.path.join(REPO, cand)):
                return cand
    return None


def mod_path_of(f):
    """module path (list) of a file under src/"""
    rel = f[len("src/"):]
    parts = rel[:-3].split("/")
    if parts[-1] in ("mod", "lib"):
        parts = parts[:-1]
    return parts


def expand(tree):
    """`a::{b, c::d}` -> [a::b, a::c::d] (one level of nesting is all the crate uses; handled recursively)"""
    m = re.match(r"^(.*?)\{(.*)\}(.*)$", tree, flags=re.S)
    if not m:
        return [tree.strip()]
    pre, inner, _ = m.groups()
    out, depth, cur = [], 0, ""
    for ch in inner:
        if ch == "{":
            depth += 1
        if ch == "}":
            depth -= 1
        if ch == "," and depth == 0:
            out.append(cur)
            cur = ""
        else:
            cur += ch
    out.append(cur)
    res = []
    for o in out:
        if o.strip():
            res += expand(pre + o.strip())
    return res


def deps(f):
    text = open(os.path.join(REPO, f), errors="replace").read()
    text = re.sub(r"//[^\n]*", "", text)
    here = mod_path_of(f)
    found = set()
    paths = []
    for m in re.finditer(r"\buse\s+([^;]+);", text):
        paths += expand(m.group(1))
    paths += re.findall(r"\b((?:crate|super|self)(?:::\w+)+)", text)
    for p in paths:
        p = re.sub(r"\s+as\s+\w+$", "", p.strip())
        parts = [x for x in p.split("::") if x and x != "*"]
        if not parts:
            continue
        if parts[0] == "crate":
            tgt = parts[1:]
        elif parts[0] == "super":
            base = here[:-1] if not f.endswith("mod.rs") else here[:-1]
            k = 0
            while k < len(parts) and parts[k] == "super":
                k += 1
            base = here[:len(here) - k] if len(here) >= k else []
            tgt = base + parts[k:]
        elif parts[0] == "self":
            tgt = here + parts[1:]
        else:
            continue
        mf = mod_file(tgt)
        if mf and mf != f and mf != "src/lib.rs":
            found.add(mf)
    # `mod x;` declarations are children, not dependencies: not followed (a parent module is only reached when something
    # is imported through it, and then only its own imports count)
    return found


def closure(files):
    seen, todo = set(), [f for f in files if f.startswith("src/") and os.path.exists(os.path.join(REPO, f))]
    while todo:
        f = todo.pop()
        if f in seen:
            continue
        seen.add(f)
        todo += [d for d in deps(f) if d not in seen]
    return seen


basis = {}
for l in open(os.path.join(ROOT, "properties.jsonl")):
    p = json.loads(l)
    files = set(p["anchors"]["files"])
    files |= closure(files)
    d = {}
    for f in sorted(files):
        path = os.path.join(REPO, f)
        if os.path.exists(path):
            d[f] = hashlib.sha1(open(path, "rb").read()).hexdigest()
    basis[p["id"]] = d
json.dump(basis, open(os.path.join(ROOT, "model_basis.json"), "w"), indent=1, sort_keys=True)
print("model_basis.json written for", len(basis), "properties;",
      ", ".join("%s:%d" % (k, len(v)) for k, v in sorted(basis.items())))
